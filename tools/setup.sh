#!/bin/sh
# Build /verif/.venv offline: Python 3.12 venv (same interpreter as /venv which runs cutplace) with z3-solver,
# cvc5, crosshair-tool, deal, icontract, jsonschema from the local wheelhouse, plus a .pth exposing /venv's
# site-packages (xlrd, xlsxwriter, pytest ...). Idempotent.
set -e
HERE=$(cd "$(dirname "$0")/.." && pwd)
VENV="$HERE/.venv"
PY=/root/.pyenv/versions/3.12.1/bin/python
[ -x "$PY" ] || PY=$(readlink -f /venv/bin/python)
if [ ! -x "$VENV/bin/python" ] || ! "$VENV/bin/python" -c "import z3, jsonschema" 2>/dev/null; then
  rm -rf "$VENV"
  "$PY" -m venv "$VENV"
  PIP_NO_INDEX=1 "$VENV/bin/pip" install -q --no-index --find-links /opt/veriftools/wheels z3-solver cvc5 jsonschema crosshair-tool deal icontract hypothesis >/dev/null 2>&1 || \
  PIP_NO_INDEX=1 "$VENV/bin/pip" install -q --no-index --find-links /opt/veriftools/wheels z3-solver jsonschema
  SP=$("$VENV/bin/python" -c "import sysconfig; print(sysconfig.get_paths()['purelib'])")
  echo "import site; site.addsitedir('/venv/lib/python3.12/site-packages')" > "$SP/zz_repo_venv.pth"
fi
"$VENV/bin/python" -c "import z3, jsonschema, sys; print('verif venv ok', sys.version.split()[0], z3.get_version_string())"
