#!/usr/bin/env python3
"""Regenerate MANIFEST.json from the props/ modules (run with /verif/.venv/bin/python tools/gen_manifest.py)."""
import importlib, json, os, sys
HERE = os.path.dirname(os.path.dirname(os.path.abspath(__file__)))
sys.path.insert(0, HERE); sys.path.insert(0, "/repo")
import warnings; warnings.filterwarnings("ignore")
props = [json.loads(l) for l in open(os.path.join(HERE, "properties.jsonl"))]
baseline = json.load(open("/root/.vp/BASELINE.json"))["cmd"].replace("--junitxml=<file>", "").strip()
checks = []; na = []
NOT_BUILT = json.load(open(os.path.join(HERE, "tools", "not_applicable.json")))
for p in props:
    pid = p["id"]
    try:
        m = importlib.import_module("props." + pid)
    except ModuleNotFoundError:
        na.append({"property_id": pid, "reason": NOT_BUILT.get(pid, "no check built yet for this property (work in progress; see DESIGN.md section 4)")}); continue
    if getattr(m, "NOT_APPLICABLE", None):
        na.append({"property_id": pid, "reason": m.NOT_APPLICABLE}); continue
    checks.append({
        "property_id": pid,
        "quick_cmd": "./check %s --tier quick" % pid,
        "thorough_cmd": "./check %s --tier thorough" % pid,
        "evidence_file": "evidence/%s.json" % pid,
        "replay_cmd_template": "./check %s --replay {path}" % pid,
        "engine": "pyvc",
        "level_claimed": {"category": m.LEVEL, "text": m.LEVEL_TEXT, "design_ref": getattr(m, "DESIGN_REF", "DESIGN.md section 4, " + pid)},
        "level_note": m.LEVEL_NOTE,
        "technique": m.TECHNIQUE,
    })
man = {
    "version": 1,
    "setup_cmd": "sh tools/setup.sh",
    "hooks": {"guard": "CUTPLACE_VERIF", "enable": "no source hooks: contracts are sidecar files in /verif keyed by qualified function name; nothing in /repo is instrumented",
              "baseline_off_cmd": baseline, "source_commits": [], "add_only": True},
    "engines": [{"name": "pyvc", "path": "pyvc/", "serves_properties": [c["property_id"] for c in checks],
                 "kind_free_text": "verification-condition generator: symbolic execution of the ast of the real /repo/cutplace functions (re-read on every run) against sidecar contracts (pre/post, loop invariants, frames, ghost state); obligations discharged by z3 5.1 (API) with cvc5 (CLI) for z3's unknowns; counter-models replayed on the real code"}],
    "checks": checks,
    "not_applicable": na,
    "notes": "All checks: ./check <id> [--tier quick|thorough]; exit 0 held / 1 violation / 2 undecided / 3 checker failure. Known findings: known_findings.json. See DESIGN.md.",
}
json.dump(man, open(os.path.join(HERE, "MANIFEST.json"), "w"), indent=1)
import jsonschema
jsonschema.validate(man, json.load(open("/root/.vp/MANIFEST.schema.json")))
print("MANIFEST.json: %d checks, %d not applicable; valid" % (len(checks), len(na)))
