#!/bin/bash
# tools/run_seeds_scratch.sh [jobs]  -- like run_seeds.sh, but each seeded change is applied to a scratch copy of /repo's HEAD (outside /repo and /verif,
# removed afterwards) and the check reads that copy through PYVC_REPO, so several can run side by side and /repo is never touched
J=${1:-4}
cd /verif
one() {
  d=$1; id=$(basename $d); p=${id%%-*}
  W=$(mktemp -d /tmp/seedrun.XXXXXX)
  git -C /repo archive HEAD | tar -x -C $W
  if ! git -C $W apply --unsafe-paths --directory=$W /verif/$d/patch.diff 2>/dev/null && ! (cd $W && patch -p1 -s < /verif/$d/patch.diff >/dev/null 2>&1); then echo "$id patch-does-not-apply"; rm -rf $W; return; fi
  out=$(PYVC_REPO=$W ./check $p --no-evidence 2>&1); rc=$?
  rm -rf $W
  first=$(echo "$out" | grep -m1 "failed obligation" | sed 's/^ *failed obligation: //' | cut -c1-100)
  conf=$(echo "$out" | grep -c "^VIOLATION.*json$"); nof=$(echo "$out" | grep -c "no-failing-input-found")
  echo "$id exit=$rc confirmed=$conf no-input=$nof :: $first"
}
export -f one
# the C01 check uses all cores by itself (28 item shapes): its seeds run one after the other, the rest side by side
(ls -d seeded/C01-*/ | xargs -P 1 -I{} bash -c 'one {}'; ls -d seeded/C*/ | grep -v "seeded/C01-" | xargs -P $J -I{} bash -c 'one {}') | sort
