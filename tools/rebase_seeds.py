#!/usr/bin/env python3
"""Re-create seeded changes whose patch no longer applies to /repo's HEAD (after repairs touched the same lines): the same change is made by
scripted edits on a scratch copy, the new diff replaces patch.diff, the original is kept as patch.orig.diff and meta.json notes it."""
import json, os, shutil, subprocess, sys, tempfile

def rep(path, old, new, count=1):
    s = open(path).read(); assert s.count(old) >= 1, (path, old); open(path, "w").write(s.replace(old, new, count))

def chars_on_stripped(w):
    rep(w + "/cutplace/fields.py", "            self.validate_characters(value)\n        self.validate_empty(possibly_stripped_value)", "            self.validate_characters(possibly_stripped_value)\n        self.validate_empty(possibly_stripped_value)")
def empty_on_raw(w):
    rep(w + "/cutplace/fields.py", "        self.validate_empty(possibly_stripped_value)\n", "        self.validate_empty(value)\n")
def decimal_length_only_flat(w):
    rep(w + "/cutplace/fields.py", "        self._length = ranges.Range(length_text)\n\n        self._precision", "        if data_format.format in (data.FORMAT_DELIMITED, data.FORMAT_FIXED):\n            self._length = ranges.Range(length_text)\n\n        self._precision")
def distinct_no_reset(w):
    rep(w + "/cutplace/checks.py", "        self._distinct_value_to_count_map = None\n        self.reset()\n        self._eval()\n", "        self._distinct_value_to_count_map = {}\n        self._eval()\n")
    rep(w + "/cutplace/checks.py", "    def reset(self):\n        self._distinct_value_to_count_map = {}\n\n", "")
def distinct_class_level(w):
    rep(w + "/cutplace/checks.py", '    _COUNT_NAME = "count"\n', '    _COUNT_NAME = "count"\n    _distinct_value_to_count_map = {}\n')
    rep(w + "/cutplace/checks.py", "        self._distinct_value_to_count_map = None\n        self.reset()", "        self.reset()")
    rep(w + "/cutplace/checks.py", "    def reset(self):\n        self._distinct_value_to_count_map = {}\n", "    def reset(self):\n        self._distinct_value_to_count_map.clear()\n")
UNTIL_OLD = ("        if args.validate_until is not None:\n            if args.validate_until == -1:\n                self.validate_until = None\n            elif args.validate_until >= 0:\n"
             "                self.validate_until = args.validate_until\n            else:\n                parser.error(\"option --until is %d but must be at least -1\" % args.validate_until)\n")
def until_zero_is_none(w):
    rep(w + "/cutplace/applications.py", UNTIL_OLD, "        if args.validate_until is not None:\n            if args.validate_until < -1:\n                parser.error(\"option --until is %d but must be at least -1\" % args.validate_until)\n"
        "            self.validate_until = args.validate_until if args.validate_until > 0 else None\n")
def until_zero_is_none_unguarded(w):
    rep(w + "/cutplace/applications.py", UNTIL_OLD, "        if args.validate_until < -1:\n            parser.error(\"option --until is %d but must be at least -1\" % args.validate_until)\n"
        "        self.validate_until = args.validate_until if args.validate_until > 0 else None\n")
def distinct_values_set(w):
    p = w + "/cutplace/checks.py"
    rep(p, "        self._distinct_value_to_count_map = None\n        self.reset()", "        self._distinct_values = set()\n        self.reset()")
    rep(p, "        return len(self._distinct_value_to_count_map)\n", "        return len(self._distinct_values)\n")
    rep(p, "        value = field_name_to_value_map[self._field_name_to_count]\n        try:\n            self._distinct_value_to_count_map[value] += 1\n        except KeyError:\n            self._distinct_value_to_count_map[value] = 1\n",
        "        self._distinct_values.add(field_name_to_value_map[self._field_name_to_count])\n")
def class_map_cache(w):
    p = w + "/cutplace/interface.py"
    rep(p, "import glob\n", "import functools\nimport glob\n")
    rep(p, "    @staticmethod\n    def _create_name_to_class_map(base_class):", "    @staticmethod\n    @functools.lru_cache(maxsize=None)\n    def _create_name_to_class_map(base_class):")
    rep(p, "        _imported_plugin_modules.append(loaded_module)\n", "        _imported_plugin_modules.append(loaded_module)\n    Cid._create_name_to_class_map.cache_clear()\n")
def bool_of_text(w):
    rep(w + "/cutplace/data.py", '        result = bool_text == "true"\n        return result\n', "        return bool(bool_text)\n")
def xlsx_write_any(w):
    rep(w + "/cutplace/rowio.py", "            if isinstance(item, str):\n                # Write strings as explicit strings to prevent strings starting with '=' from being converted to\n                # formulas.\n"
        "                write_result = self.worksheet.write_string(row_index, column_index, item)\n            else:\n                write_result = self.worksheet.write(row_index, column_index, item)\n",
        "            # Let xlsxwriter pick the proper write_xxx() depending on the type of the item.\n            write_result = self.worksheet.write(row_index, column_index, item)\n")
def strip_unless_delimited(w, comment):
    rep(w + "/cutplace/fields.py", "        if self.data_format.format == data.FORMAT_FIXED:\n            possibly_stripped_value = value.strip()", "        if self.data_format.format != data.FORMAT_DELIMITED:\n            # %s\n            possibly_stripped_value = value.strip()" % comment)
def datetime_flags_first(w):
    p = w + "/cutplace/fields.py"
    loop = "        for human_readyble_item, strptime_item in DateTimeFieldFormat._HUMAN_READABLE_TO_STRPTIME_TUPLES:\n            self.strptime_format = self.strptime_format.replace(human_readyble_item, strptime_item)\n"
    s = open(p).read(); assert s.count(loop) == 1
    s = s.replace("\n        self.strptime_format = rule\n" + loop, "        self.strptime_format = rule\n")
    anchor = "        self._has_date = any(\n            directive in self.strptime_format for directive in DateTimeFieldFormat._STRPTIME_DATE_DIRECTIVES\n        )\n"
    assert s.count(anchor) == 1
    s = s.replace(anchor, anchor + loop); open(p, "w").write(s)
def excel_only_missing_is_unreadable(w):
    rep(w + "/cutplace/rowio.py", "        with open(source_path, \"rb\"):\n            pass\n", "        try:\n            with open(source_path, \"rb\"):\n                pass\n        except FileNotFoundError:\n            raise\n        except OSError as error:\n"
        "            raise errors.DataFormatError(\"cannot read Excel file: %s\" % error, location)\n")
RESET_LOOP = "        for check in self.cid.check_map.values():\n            check.reset()\n        self._has_reset_checks = True\n\n    @property\n    def location(self):\n        \"\"\"\n        The location in the :py:class:`cutplace.rowio.AbstractRowWriter` used"
NO_LOOP = "        self._has_reset_checks = True\n\n    @property\n    def location(self):\n        \"\"\"\n        The location in the :py:class:`cutplace.rowio.AbstractRowWriter` used"
def validate_without_reader_limit(w):
    rep(w + "/cutplace/validio.py", "    with Reader(cid_or_path, data_stream_or_path, validate_until=validate_until) as reader:", "    with Reader(cid_or_path, data_stream_or_path) as reader:")
    rep(w + "/cutplace/validio.py", "        if validate_until is not None:\n            rows_to_validate = itertools.islice(rows_to_validate, min(validate_until, sys.maxsize))", "        if validate_until is not None:\n            # Only the first rows are read at all, so the reader does not need its own limit.\n            rows_to_validate = itertools.islice(rows_to_validate, min(validate_until, sys.maxsize))")
def writer_reset_only_delimited(w):
    rep(w + "/cutplace/validio.py", RESET_LOOP, NO_LOOP)
    rep(w + "/cutplace/validio.py", "            self._delegated_writer = rowio.DelimitedRowWriter(target, data_format)\n", "            self._delegated_writer = rowio.DelimitedRowWriter(target, data_format)\n            for check in self.cid.check_map.values():\n                check.reset()\n")
def writer_reset_before_delimited_only(w):
    rep(w + "/cutplace/validio.py", RESET_LOOP, NO_LOOP)
    rep(w + "/cutplace/validio.py", "            self._delegated_writer = rowio.DelimitedRowWriter(target, data_format)\n", "            for check in self.cid.check_map.values():\n                check.reset()\n            self._delegated_writer = rowio.DelimitedRowWriter(target, data_format)\n")
def writer_no_reset(w): rep(w + "/cutplace/validio.py", RESET_LOOP, NO_LOOP)
def reset_at_close_not_in_writer(w):
    rep(w + "/cutplace/validio.py", RESET_LOOP, NO_LOOP)
    rep(w + "/cutplace/validio.py", "                for check in self.cid.check_map.values():\n                    check.cleanup()\n", "                for check in self.cid.check_map.values():\n                    check.cleanup()\n                    check.reset()\n")
def writer_reset_at_first_data_row(w):
    rep(w + "/cutplace/validio.py", RESET_LOOP, NO_LOOP)
    rep(w + "/cutplace/validio.py", "        if self.location.line >= self._header:\n            self.validate_row(actual_row_to_write)", "        if self.location.line >= self._header:\n            if self.location.line == self._header:\n                # First data row: start with pristine checks.\n                for check in self.cid.check_map.values():\n                    check.reset()\n            self.validate_row(actual_row_to_write)")
def advance_only_nonempty_rows(w):
    rep(w + "/cutplace/interface.py", "                        )\n                self._location.advance_line()\n        except errors.DataFormatError as error:", "                        )\n                    self._location.advance_line()\n        except errors.DataFormatError as error:")
def fixed_writelines(w): rep(w + "/cutplace/rowio.py", '            self._target_stream.write("".join(row_to_write))\n', "            self._target_stream.writelines(row_to_write)\n")
def fixed_write_per_field(w): rep(w + "/cutplace/rowio.py", '            self._target_stream.write("".join(row_to_write))\n', "            for field_value in row_to_write:\n                self._target_stream.write(field_value)\n")
def pad_stripped(w):
    rep(w + "/cutplace/validio.py", "            _, fixed_field_length = self._field_names_and_lengths[field_index]\n            # Anything but a string is left for the validation to reject.\n", "            # Pad the same text the field format has validated.\n            field_value = field_value.strip()\n            _, fixed_field_length = self._field_names_and_lengths[field_index]\n            # Anything but a string is left for the validation to reject.\n")
GUARD = ("                if not self._has_reset_checks:\n                    # A run without any row (for example ``validate(..., validate_until=0)``, where\n                    # ``rows()`` never starts) must not see what the CID was used for before.\n                    self._reset_checks()\n")
VERDICTS = "                for check_name in self.cid.check_names:\n                    self.cid.check_map[check_name].check_at_end(self.location)\n"
CLEANUP = "            finally:\n                for check in self.cid.check_map.values():\n                    check.cleanup()\n"
def reset_after_the_verdicts(w):
    rep(w + "/cutplace/validio.py", "            try:\n" + GUARD + VERDICTS, "            try:\n" + VERDICTS + GUARD.replace("must not see what the CID was used for before", "leaves nothing behind for the next user of the CID"))
def close_without_finally(w):
    rep(w + "/cutplace/validio.py", "            try:\n" + GUARD + VERDICTS + CLEANUP,
        GUARD.replace("                ", "            ", 4).replace("            if not", "            if not") .replace("\n                    #", "\n                #").replace("\n                    self", "\n                self")
        + "            for check_name in self.cid.check_names:\n                self.cid.check_map[check_name].check_at_end(self.location)\n            for check in self.cid.check_map.values():\n                check.cleanup()\n")
def close_guard_dropped(w):
    rep(w + "/cutplace/validio.py", GUARD, "")
def close_guard_with_old_condition(w):
    rep(w + "/cutplace/validio.py", "                if not self._has_reset_checks:\n                    # A run without any row", "                if not self._is_closed and not self._has_reset_checks:\n                    # A run without any row")
def excel_text_cells_through_str(w, comment):
    rep(w + "/cutplace/rowio.py", "    elif isinstance(cell.value, str):\n        result = cell.value\n    elif cell.value is None:", "    elif cell.value is None:")
    rep(w + "/cutplace/rowio.py", "    else:\n        result = str(cell.value)\n        if (cell.ctype == xlrd.XL_CELL_NUMBER) and (result.endswith(\".0\")):\n", "    else:\n        # Note: str() leaves the value of text cells as it is.\n        result = str(cell.value)\n        if result.endswith(\".0\"):\n            # %s\n" % comment)
def exit_closes_only_without_error(w):
    rep(w + "/cutplace/validio.py", "        try:\n            self.close()\n        except errors.CutplaceError:\n            if exc_type is None:\n                raise\n", "        if exc_type is None:\n            self.close()\n")
def number_token_explicit_bases(w):
    rep(w + "/cutplace/ranges.py", "        # Note: base 0 automatically handles prefixes like 0x.\n        result = int(value, 0)\n",
        "        # Note: use explicit bases so numbers with leading zeros such as \"09\" are not rejected.\n        result = int(value, 16) if value.startswith(\"0x\") else int(value)\n")

PLAN = {"C03-10": chars_on_stripped, "C03-2": chars_on_stripped, "C04-10": chars_on_stripped, "C20-10": chars_on_stripped, "C03-4": empty_on_raw, "C03-7": decimal_length_only_flat,
        "C05-3": distinct_no_reset, "C18-1": distinct_no_reset, "C18-4": distinct_no_reset, "C18-6": distinct_no_reset, "C05-7": distinct_class_level, "C07-10": until_zero_is_none, "C18-3": until_zero_is_none_unguarded,
        "C08-5": distinct_values_set, "C09-8": class_map_cache, "C20-3": class_map_cache, "C20-8": class_map_cache, "C12-6": bool_of_text, "C16-5": xlsx_write_any,
        "C17-11": lambda w: strip_unless_delimited(w, "Only delimited data can preserve surrounding blanks on purpose (by quoting them)."), "C17-4": lambda w: strip_unless_delimited(w, "Only delimited data can carry intentional surrounding blanks."),
        "C17-8": datetime_flags_first, "C18-7": excel_only_missing_is_unreadable,
        "C07-11": validate_without_reader_limit, "C08-1": writer_reset_only_delimited, "C08-9": writer_reset_before_delimited_only, "C14-2": writer_no_reset, "C08-4": reset_at_close_not_in_writer, "C08-8": writer_reset_at_first_data_row,
        "C09-11": advance_only_nonempty_rows, "C09-2": advance_only_nonempty_rows, "C09-5": advance_only_nonempty_rows, "C14-10": fixed_writelines, "C14-6": fixed_writelines, "C14-3": fixed_write_per_field, "C14-9": pad_stripped,
        "C20-7": exit_closes_only_without_error, "C08-11": reset_after_the_verdicts, "C20-1": close_without_finally, "C20-5": close_without_finally,
        "C05-12": close_guard_dropped, "C08-12": close_guard_with_old_condition,
        "C16-9": lambda w: excel_text_cells_through_str(w, "Whole numbers, including the ones computed by formulas."), "C17-9": lambda w: excel_text_cells_through_str(w, "Whole numbers are stored as float."),
        "C11-10": number_token_explicit_bases}

def main(ids):
    head = subprocess.check_output(["git", "-C", "/repo", "rev-parse", "--short", "HEAD"], text=True).strip()
    for sid in ids:
        d = "/verif/seeded/" + sid; w = tempfile.mkdtemp(prefix="rebase_")
        try:
            subprocess.run("git -C /repo archive HEAD | tar -x -C %s" % w, shell=True, check=True)
            subprocess.run(["git", "init", "-q"], cwd=w, check=True); subprocess.run(["git", "add", "-A"], cwd=w, check=True)
            subprocess.run(["git", "-c", "user.name=x", "-c", "user.email=x@x", "commit", "-qm", "base"], cwd=w, check=True)
            PLAN[sid](w)
            diff = subprocess.check_output(["git", "diff"], cwd=w, text=True); assert diff.strip(), sid
            subprocess.run(["/venv/bin/python", "-m", "py_compile"] + [os.path.join(w, l[6:]) for l in diff.splitlines() if l.startswith("+++ b/")], check=True)
            if not os.path.exists(d + "/patch.orig.diff"): shutil.copy(d + "/patch.diff", d + "/patch.orig.diff")
            open(d + "/patch.diff", "w").write(diff)
            m = json.load(open(d + "/meta.json")); m["rebased"] = "re-created on /repo %s after repairs touched the same lines (the original is patch.orig.diff)" % head
            json.dump(m, open(d + "/meta.json", "w"), indent=1)
            print(sid, "rebased")
        finally:
            shutil.rmtree(w, ignore_errors=True)

if __name__ == "__main__":
    main(sys.argv[1:] or sorted(PLAN))
