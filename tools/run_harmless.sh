#!/bin/bash
# tools/run_harmless.sh <diff> <Cnn>...  -- the runner of DESIGN 8.18: applies a (behaviour-preserving) diff to a scratch copy of /repo's HEAD
# (outside /repo and /verif, removed afterwards) and runs the named checks on it through PYVC_REPO; prints one line per check with its exit code
# (0 held, 1 violation = a false alarm if the edit is harmless, 2 undecided) and, for a non-zero one, the first obligations / binding failures.
cd /verif
f=$(realpath "$1"); shift
W=$(mktemp -d /tmp/harmrun.XXXXXX)
git -C /repo archive HEAD | tar -x -C $W
if ! (cd $W && patch -p1 -s < $f >/dev/null 2>&1); then echo "$f patch-does-not-apply"; rm -rf $W; exit; fi
for p in "$@"; do
  out=$(PYVC_REPO=$W ./check $p --no-evidence 2>&1); rc=$?
  if [ $rc -ne 0 ]; then
    echo "$f $p exit=$rc :: $(echo "$out" | grep -m3 -i "failed obligation\|undecided\|out-of-reach\|unbound\|Error" | cut -c1-220 | tr '\n' '|')"
  else echo "$f $p exit=0"; fi
done
rm -rf $W
