"""List the functions of /repo/cutplace and whether a sidecar contract names them (qualname of a Contract, or inlined real code in evidence)."""
import ast, glob, json, os, re, sys
repo = os.environ.get("PYVC_REPO", "/repo")
funcs = []
for p in sorted(glob.glob(repo + "/cutplace/*.py")):
    mod = os.path.basename(p)[:-3]
    t = ast.parse(open(p).read())
    for n in t.body:
        if isinstance(n, ast.FunctionDef): funcs.append((mod, n.name, n.end_lineno - n.lineno + 1))
        if isinstance(n, ast.ClassDef):
            for m in n.body:
                if isinstance(m, ast.FunctionDef): funcs.append((mod, n.name + "." + m.name, m.end_lineno - m.lineno + 1))
src = "".join(open(p).read() for p in glob.glob("/verif/contracts/*.py"))
named = set(re.findall(r'Contract\(\s*"([\w.]+)"', src)) | set(re.findall(r'"([\w]+\.[\w.]+)" *%', src))
inl = set()
for p in glob.glob("/verif/evidence/*.json"):
    d = json.load(open(p))
    def walk(x):
        if isinstance(x, dict):
            for k, v in x.items():
                if k == "inlined_real_code" and isinstance(v, list): inl.update(v)
                if k == "function" and isinstance(v, str): inl.add(v.replace("cutplace.", "", 1))
                walk(v)
        elif isinstance(x, list):
            for y in x: walk(y)
    walk(d)
tot = cov = 0
for mod, q, n in funcs:
    full = mod + "." + q
    c = "contract" if full in named else ("inlined" if any(full == i or i.endswith("." + q) or i == q for i in inl) else "-")
    tot += n; cov += n if c != "-" else 0
    if "-v" in sys.argv or c == "-": print("%-10s %-55s %4d" % (c, full, n))
print("lines in functions: %d, under contract or inlined: %d" % (tot, cov))
