#!/bin/bash
# tools/seed_eval.sh <Cnn> <N> [other props to run too]  -- confirm a seeded change in its scratch worktree, then run our check(s) on /repo with it applied
P=$1; N=$2; shift 2
W=${SEED_WT:-/tmp/seed_$P}; D=$W/out/mut$N.diff
[ -f "$D" ] || { echo "no $D"; exit 2; }
cd $W && git checkout -q -- cutplace
base=$(/venv/bin/python -m pytest -q -p no:cacheprovider tests 2>&1 | tail -1)
/venv/bin/python out/demo$N.py >/dev/null 2>&1; d0=$?
git apply "$D" || { echo "patch does not apply"; exit 2; }
mut=$(/venv/bin/python -m pytest -q -p no:cacheprovider tests 2>&1 | tail -1)
/venv/bin/python out/demo$N.py > /tmp/demo_out.txt 2>&1; d1=$?
git checkout -q -- cutplace
echo "baseline: $base"; echo "mutated : $mut"; echo "demo exit unchanged=$d0 changed=$d1: $(tail -1 /tmp/demo_out.txt | cut -c1-200)"
cd /repo && git apply "$D" || { echo "patch does not apply to /repo"; exit 2; }
for Q in $P "$@"; do
  /verif/check $Q --no-evidence 2>&1 | grep -E "^VIOLATION|failed obligation|^UNDEC|: (HOLDS|VIOLATED|UNDECIDED|CHECKER)" | head -7
done
git -C /repo checkout -- . ; git -C /repo status --short | head -3
