#!/bin/bash
# tools/run_seeds.sh  -- apply every kept seeded change to /repo in turn, run the check of its property, undo it; prints one line per change
cd /verif
for d in seeded/C*/; do
  id=$(basename $d); p=${id%%-*}
  git -C /repo apply /verif/$d/patch.diff 2>/dev/null || { echo "$id patch-does-not-apply"; continue; }
  out=$(./check $p --no-evidence 2>&1); rc=$?
  git -C /repo checkout -- .
  first=$(echo "$out" | grep -m1 "failed obligation" | sed 's/^ *failed obligation: //' | cut -c1-110)
  conf=$(echo "$out" | grep -c "^VIOLATION.*json$"); nof=$(echo "$out" | grep -c "no-failing-input-found")
  echo "$id exit=$rc confirmed=$conf no-input=$nof :: $first"
done
git -C /repo status --short | head -2
