#!/bin/bash
# tools/mut.sh <prop> <file under cutplace/> <sed expression> [extra check args]  -- try a one-line mutant on a scratch copy (development aid)
P=$1; F=$2; E=$3; shift 3
D=$(mktemp -d /tmp/mut.XXXXXX)
SRC=${MUT_SRC:-/repo}; cp -r $SRC/cutplace "$D/" && rm -rf "$D/cutplace/__pycache__"
sed -i "$E" "$D/cutplace/$F"
diff <(cd $SRC && cat cutplace/$F) "$D/cutplace/$F" | head -8
PYVC_REPO=$D /verif/check $P --no-evidence "$@" | grep -v "^  \(expected\|failing\)" | tail -12
rm -rf "$D"
