#!/bin/bash
# tools/seed_eval_scratch.sh <worktree> <Cnn> <k> [other props]  -- confirm a seeded change in its scratch worktree (tests at baseline, demo 0 -> 1),
# then run our check(s) against a scratch copy of /repo's HEAD with the change applied (PYVC_REPO; /repo itself is not touched)
W=$1; P=$2; N=$3; shift 3
D=$W/out/mut$N.diff
[ -f "$D" ] || { echo "== $P-$N: no $D"; exit 2; }
cd $W && git checkout -q -- cutplace
/venv/bin/python out/demo$N.py >/dev/null 2>&1; d0=$?
git apply "$D" 2>/dev/null || { echo "== $P-$N: patch does not apply"; exit 2; }
mut=$(/venv/bin/python -m pytest -q -p no:cacheprovider tests 2>&1 | tail -1)
/venv/bin/python out/demo$N.py > /tmp/demo_out_$P$N.txt 2>&1; d1=$?
git checkout -q -- cutplace
S=$(mktemp -d /tmp/seedrun.XXXXXX); git -C /repo archive HEAD | tar -x -C $S; (cd $S && patch -p1 -s < $D)
echo "== $P-$N tests: $mut | demo $d0 -> $d1: $(tail -1 /tmp/demo_out_$P$N.txt | cut -c1-160)"
for Q in $P "$@"; do
  PYVC_REPO=$S /verif/check $Q --no-evidence 2>&1 | grep -E "^VIOLATION|failed obligation|^UNDEC|^NOTE|: (HOLDS|VIOLATED|UNDECIDED|CHECKER)" | head -7 | cut -c1-230
done
rm -rf $S /tmp/demo_out_$P$N.txt
