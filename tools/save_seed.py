#!/usr/bin/env python3
"""tools/save_seed.py <Cnn> <N> <caught-by> <needs...>  -- keep a confirmed seeded change under /verif/seeded/<Cnn>-<N>/"""
import json, os, shutil, subprocess, sys
p, n, caught = sys.argv[1], sys.argv[2], sys.argv[3]; needs = " ".join(sys.argv[4:])
src = os.environ.get("SEED_WT", "/tmp/seed_%s" % p) + "/out"; n_out = os.environ.get("SEED_AS", n); dst = "/verif/seeded/%s-%s" % (p, n_out); os.makedirs(dst, exist_ok=True)
shutil.copy(os.path.join(src, "mut%s.diff" % n), os.path.join(dst, "patch.diff")); shutil.copy(os.path.join(src, "demo%s.py" % n), os.path.join(dst, "demo.py"))
files = sorted({l[6:].strip() for l in open(os.path.join(dst, "patch.diff")) if l.startswith("+++ b/")})
meta = {"property": p, "files": files, "needs_to_manifest": needs, "origin": "independent sub-agent given only the property text and a scratch worktree",
        "confirmed": "tools/seed_eval.sh %s %s: baseline tests unchanged (342 passed, same 2 failures) with the patch; demo exits 0 without and 1 with the patch" % (p, n),
        "our_checks": caught, "run": "git -C /repo apply seeded/%s-%s/patch.diff && ./check %s ; git -C /repo checkout -- ." % (p, n_out, p)}
json.dump(meta, open(os.path.join(dst, "meta.json"), "w"), indent=1)
print(dst)
