import sys
sys.path.insert(0, "/tmp/audit_C15")
import os, tempfile, warnings, zipfile
warnings.simplefilter("ignore")
from cutplace import errors, rowio

NS = ('xmlns:office="urn:oasis:names:tc:opendocument:xmlns:office:1.0" '
      'xmlns:table="urn:oasis:names:tc:opendocument:xmlns:table:1.0" '
      'xmlns:text="urn:oasis:names:tc:opendocument:xmlns:text:1.0"')


def ods_path(spreadsheet_body):
    content = ('<?xml version="1.0" encoding="UTF-8"?>'
               '<office:document-content %s office:version="1.2"><office:body><office:spreadsheet>'
               '%s</office:spreadsheet></office:body></office:document-content>' % (NS, spreadsheet_body))
    path = os.path.join(tempfile.mkdtemp(), "finding.ods")
    with zipfile.ZipFile(path, "w") as ods_zip:
        ods_zip.writestr("mimetype", "application/vnd.oasis.opendocument.spreadsheet")
        ods_zip.writestr("content.xml", content)
    print("content.xml body: %r" % spreadsheet_body)
    return path


def read(path, sheet=1):
    """Rows of ``sheet`` or the exception raised."""
    try:
        return list(rowio.ods_rows(path, sheet))
    except Exception as error:
        return error


def cell(text):
    return "<table:table-cell><text:p>%s</text:p></table:table-cell>" % text

# Finding 3: a broken table:number-columns-repeated is only noticed on table:table-cell
# of the sheet that is read; on table:table-column (where every ODS written by
# LibreOffice / Excel has it) it is silently accepted.
violated = False
for broken in ("0", "-3", "abc", ""):
    body = ('<table:table table:name="S"><table:table-column table:number-columns-repeated="%s"/>' % broken
            + '<table:table-row>' + cell("x") + '</table:table-row></table:table>')
    actual = read(ods_path(body))
    print("expected: DataFormatError")
    print("actual  : %r" % (actual,))
    if not isinstance(actual, errors.DataFormatError):
        violated = True
print("VIOLATED" if violated else "ok")
sys.exit(1 if violated else 0)
