import sys
sys.path.insert(0, "/tmp/audit_C15")
import os, tempfile, warnings, zipfile
warnings.simplefilter("ignore")
from cutplace import errors, rowio

NS = ('xmlns:office="urn:oasis:names:tc:opendocument:xmlns:office:1.0" '
      'xmlns:table="urn:oasis:names:tc:opendocument:xmlns:table:1.0" '
      'xmlns:text="urn:oasis:names:tc:opendocument:xmlns:text:1.0"')


def ods_path(spreadsheet_body):
    content = ('<?xml version="1.0" encoding="UTF-8"?>'
               '<office:document-content %s office:version="1.2"><office:body><office:spreadsheet>'
               '%s</office:spreadsheet></office:body></office:document-content>' % (NS, spreadsheet_body))
    path = os.path.join(tempfile.mkdtemp(), "finding.ods")
    with zipfile.ZipFile(path, "w") as ods_zip:
        ods_zip.writestr("mimetype", "application/vnd.oasis.opendocument.spreadsheet")
        ods_zip.writestr("content.xml", content)
    print("content.xml body: %r" % spreadsheet_body)
    return path


def read(path, sheet=1):
    """Rows of ``sheet`` or the exception raised."""
    try:
        return list(rowio.ods_rows(path, sheet))
    except Exception as error:
        return error


def cell(text):
    return "<table:table-cell><text:p>%s</text:p></table:table-cell>" % text

# Finding 5: a text cell whose value is stored in the office:string-value attribute
# without a <text:p> child (allowed by ODF 1.2 part 1, 19.379 / 9.1.4: "if the attribute is
# present it is the value of the cell") reads as empty cell.
violated = False
body = ('<table:table table:name="S"><table:table-row>'
        '<table:table-cell office:value-type="string" office:string-value="abc"/>'
        '<table:table-cell office:value-type="string" office:string-value="a &lt;&amp;&gt; &#228;" table:number-columns-repeated="2"/>'
        + cell("x") + '</table:table-row></table:table>')
expected = [["abc", "a <&> \xe4", "a <&> \xe4", "x"]]
actual = read(ods_path(body))
print("expected:", expected)
print("actual  :", actual)
if actual != expected:
    violated = True
print("VIOLATED" if violated else "ok")
sys.exit(1 if violated else 0)
