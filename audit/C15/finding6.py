import sys
sys.path.insert(0, "/tmp/audit_C15")
import os, tempfile, warnings, zipfile
warnings.simplefilter("ignore")
from cutplace import errors, rowio

NS = ('xmlns:office="urn:oasis:names:tc:opendocument:xmlns:office:1.0" '
      'xmlns:table="urn:oasis:names:tc:opendocument:xmlns:table:1.0" '
      'xmlns:text="urn:oasis:names:tc:opendocument:xmlns:text:1.0"')


def ods_path(spreadsheet_body):
    content = ('<?xml version="1.0" encoding="UTF-8"?>'
               '<office:document-content %s office:version="1.2"><office:body><office:spreadsheet>'
               '%s</office:spreadsheet></office:body></office:document-content>' % (NS, spreadsheet_body))
    path = os.path.join(tempfile.mkdtemp(), "finding.ods")
    with zipfile.ZipFile(path, "w") as ods_zip:
        ods_zip.writestr("mimetype", "application/vnd.oasis.opendocument.spreadsheet")
        ods_zip.writestr("content.xml", content)
    print("content.xml body: %r" % spreadsheet_body)
    return path


def read(path, sheet=1):
    """Rows of ``sheet`` or the exception raised."""
    try:
        return list(rowio.ods_rows(path, sheet))
    except Exception as error:
        return error


def cell(text):
    return "<table:table-cell><text:p>%s</text:p></table:table-cell>" % text

# Finding 6: rows grouped by an outline (Data > Group in LibreOffice: table:table-row-group,
# possibly nested) or wrapped in table:table-rows are dropped. Same family as the known
# table:table-header-rows defect, but different elements - a repair that only looks into
# table:table-header-rows leaves this one open.
violated = False
row = lambda text: "<table:table-row>" + cell(text) + "</table:table-row>"
body = ('<table:table table:name="S">' + row("1")
        + "<table:table-row-group>" + row("2") + "<table:table-row-group>" + row("3") + "</table:table-row-group>"
        + row("4") + "</table:table-row-group>"
        + "<table:table-rows>" + row("5") + "</table:table-rows>"
        + row("6") + "</table:table>")
expected = [["1"], ["2"], ["3"], ["4"], ["5"], ["6"]]
actual = read(ods_path(body))
print("expected:", expected)
print("actual  :", actual)
if actual != expected:
    violated = True
print("VIOLATED" if violated else "ok")
sys.exit(1 if violated else 0)
