import sys
sys.path.insert(0, "/tmp/audit_C15")
import os, tempfile, warnings, zipfile
warnings.simplefilter("ignore")
from cutplace import errors, rowio

NS = ('xmlns:office="urn:oasis:names:tc:opendocument:xmlns:office:1.0" '
      'xmlns:table="urn:oasis:names:tc:opendocument:xmlns:table:1.0" '
      'xmlns:text="urn:oasis:names:tc:opendocument:xmlns:text:1.0"')


def ods_path(spreadsheet_body):
    content = ('<?xml version="1.0" encoding="UTF-8"?>'
               '<office:document-content %s office:version="1.2"><office:body><office:spreadsheet>'
               '%s</office:spreadsheet></office:body></office:document-content>' % (NS, spreadsheet_body))
    path = os.path.join(tempfile.mkdtemp(), "finding.ods")
    with zipfile.ZipFile(path, "w") as ods_zip:
        ods_zip.writestr("mimetype", "application/vnd.oasis.opendocument.spreadsheet")
        ods_zip.writestr("content.xml", content)
    print("content.xml body: %r" % spreadsheet_body)
    return path


def read(path, sheet=1):
    """Rows of ``sheet`` or the exception raised."""
    try:
        return list(rowio.ods_rows(path, sheet))
    except Exception as error:
        return error


def cell(text):
    return "<table:table-cell><text:p>%s</text:p></table:table-cell>" % text

# Finding 1: table:covered-table-cell (cells hidden by a merged cell) are dropped,
# so all cells to the right of a merged cell move to the wrong column.
violated = False

# A1:B1 merged ("m"), C1 = "x"
body = ('<table:table table:name="S"><table:table-row>'
        '<table:table-cell table:number-columns-spanned="2"><text:p>m</text:p></table:table-cell>'
        '<table:covered-table-cell/>'
        + cell("x") +
        '</table:table-row><table:table-row>' + cell("a") + cell("b") + cell("c") + '</table:table-row></table:table>')
expected = [["m", "", "x"], ["a", "b", "c"]]
actual = read(ods_path(body))
print("expected:", expected)
print("actual  :", actual)
if actual != expected:
    violated = True

# covered cell that carries text and a repeat count: A1:D1 merged, E1 = "x"
body = ('<table:table table:name="S"><table:table-row>'
        '<table:table-cell table:number-columns-spanned="4"><text:p>m</text:p></table:table-cell>'
        '<table:covered-table-cell table:number-columns-repeated="3"/>'
        + cell("x") + '</table:table-row></table:table>')
expected = [["m", "", "", "", "x"]]
actual = read(ods_path(body))
print("expected:", expected)
print("actual  :", actual)
if actual != expected:
    violated = True

# a broken repeat count on a covered cell has to be rejected
for broken in ("0", "abc"):
    body = ('<table:table table:name="S"><table:table-row>' + cell("m") +
            '<table:covered-table-cell table:number-columns-repeated="%s"/>' % broken + cell("x") +
            '</table:table-row></table:table>')
    actual = read(ods_path(body))
    print("expected: DataFormatError")
    print("actual  : %r" % (actual,))
    if not isinstance(actual, errors.DataFormatError):
        violated = True

print("VIOLATED" if violated else "ok")
sys.exit(1 if violated else 0)
