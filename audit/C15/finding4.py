import sys
sys.path.insert(0, "/tmp/audit_C15")
import os, tempfile, warnings, zipfile
warnings.simplefilter("ignore")
from cutplace import errors, rowio

NS = ('xmlns:office="urn:oasis:names:tc:opendocument:xmlns:office:1.0" '
      'xmlns:table="urn:oasis:names:tc:opendocument:xmlns:table:1.0" '
      'xmlns:text="urn:oasis:names:tc:opendocument:xmlns:text:1.0"')


def ods_path(spreadsheet_body):
    content = ('<?xml version="1.0" encoding="UTF-8"?>'
               '<office:document-content %s office:version="1.2"><office:body><office:spreadsheet>'
               '%s</office:spreadsheet></office:body></office:document-content>' % (NS, spreadsheet_body))
    path = os.path.join(tempfile.mkdtemp(), "finding.ods")
    with zipfile.ZipFile(path, "w") as ods_zip:
        ods_zip.writestr("mimetype", "application/vnd.oasis.opendocument.spreadsheet")
        ods_zip.writestr("content.xml", content)
    print("content.xml body: %r" % spreadsheet_body)
    return path


def read(path, sheet=1):
    """Rows of ``sheet`` or the exception raised."""
    try:
        return list(rowio.ods_rows(path, sheet))
    except Exception as error:
        return error


def cell(text):
    return "<table:table-cell><text:p>%s</text:p></table:table-cell>" % text

# Finding 4: requesting sheet 0 or a negative sheet (sheets that do not exist) does not
# fail with a DataFormatError: AssertionError, and with "python -O" the LAST sheet
# (sheet=0), the sheet counted from the end (sheet=-1) or an IndexError (sheet=-5).
import subprocess
violated = False
body = ('<table:table table:name="A"><table:table-row>' + cell("a") + '</table:table-row></table:table>'
        '<table:table table:name="B"><table:table-row>' + cell("b") + '</table:table-row></table:table>')
path = ods_path(body)
print("sheet 3 (for comparison): %r" % (read(path, 3),))
snippet = (
    "import sys, warnings; warnings.simplefilter('ignore'); sys.path.insert(0, '/tmp/audit_C15')\n"
    "from cutplace import errors, rowio\n"
    "try:\n"
    "    print('rows', list(rowio.ods_rows(%r, int(sys.argv[1]))))\n"
    "except errors.DataFormatError as error:\n"
    "    print('DataFormatError', error)\n"
    "except BaseException as error:\n"
    "    print(type(error).__name__, error)\n" % path)
for python_options in ([], ["-O"]):
    for sheet in (0, -1, -5):
        output = subprocess.run(["/venv/bin/python"] + python_options + ["-c", snippet, str(sheet)],
                                capture_output=True, text=True).stdout.strip()
        print("python %s: ods_rows(path, %d): expected DataFormatError, actual: %s"
              % (" ".join(python_options), sheet, output))
        if not output.startswith("DataFormatError"):
            violated = True
print("VIOLATED" if violated else "ok")
sys.exit(1 if violated else 0)
