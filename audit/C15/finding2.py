import sys
sys.path.insert(0, "/tmp/audit_C15")
import os, tempfile, warnings, zipfile
warnings.simplefilter("ignore")
from cutplace import errors, rowio

NS = ('xmlns:office="urn:oasis:names:tc:opendocument:xmlns:office:1.0" '
      'xmlns:table="urn:oasis:names:tc:opendocument:xmlns:table:1.0" '
      'xmlns:text="urn:oasis:names:tc:opendocument:xmlns:text:1.0"')


def ods_path(spreadsheet_body):
    content = ('<?xml version="1.0" encoding="UTF-8"?>'
               '<office:document-content %s office:version="1.2"><office:body><office:spreadsheet>'
               '%s</office:spreadsheet></office:body></office:document-content>' % (NS, spreadsheet_body))
    path = os.path.join(tempfile.mkdtemp(), "finding.ods")
    with zipfile.ZipFile(path, "w") as ods_zip:
        ods_zip.writestr("mimetype", "application/vnd.oasis.opendocument.spreadsheet")
        ods_zip.writestr("content.xml", content)
    print("content.xml body: %r" % spreadsheet_body)
    return path


def read(path, sheet=1):
    """Rows of ``sheet`` or the exception raised."""
    try:
        return list(rowio.ods_rows(path, sheet))
    except Exception as error:
        return error


def cell(text):
    return "<table:table-cell><text:p>%s</text:p></table:table-cell>" % text

# Finding 2: literal white space inside a plain <text:p> is returned verbatim
# instead of being processed as ODF 1.2 part 1, 6.1.2 demands (TAB, CR, LF -> blank;
# leading and trailing blanks removed; runs of blanks collapsed to one).
# This is what any pretty-printed / indented content.xml looks like; it is the very
# reason why ODF has <text:s/>, <text:tab/> and <text:line-break/>.
violated = False
cases = [
    ("\n      hello\n    ", "hello"),            # indented content.xml
    ("a   b", "a b"),                            # run of blanks means ONE blank (3 blanks are 'a <text:s text:c="2"/>b')
    ("a\tb\nc", "a b c"),                        # literal tab / line feed are a blank, not a tab / line break
    ("  ", ""),                                  # blank only paragraph is an empty cell
]
for raw, logical in cases:
    body = '<table:table table:name="S"><table:table-row>' + cell(raw) + cell("x") + '</table:table-row></table:table>'
    expected = [[logical, "x"]]
    actual = read(ods_path(body))
    print("expected:", expected)
    print("actual  :", actual)
    if actual != expected:
        violated = True
print("VIOLATED" if violated else "ok")
sys.exit(1 if violated else 0)
