"""
Finding 4 (borderline - consumer of the "absent" overall limit): for an Integer
field whose rule is open on one side (e.g. the documented example
``F | weight | 72 | | 0... | Integer | 0...``) the overall upper limit is
correctly reported as None, but IntegerFieldFormat.sql_ansi_type() does not
cope with an absent limit and dies with an AssertionError.
Exit code 1 = violation present, 0 = not present.
"""
import sys

sys.path.insert(0, "/tmp/audit_C01")
import io
import warnings

warnings.simplefilter("ignore")
from cutplace import interface  # noqa: E402

violations = 0
for rule in ("0...", "...100", "1...5, 7..."):
    cid = interface.Cid(io.StringIO('d,format,delimited\nf,weight,,,,Integer,"%s"\n' % rule))
    field_format = cid.field_formats[0]
    valid_range = field_format.valid_range
    print("rule %r: lower_limit=%r, upper_limit=%r" % (rule, valid_range.lower_limit, valid_range.upper_limit))
    try:
        print("  sql_ansi_type() -> %r" % (field_format.sql_ansi_type(),))
    except Exception as error:
        print("  sql_ansi_type() FAILED: %s: %s" % (type(error).__name__, error))
        violations += 1
print("violation present" if violations else "no violation")
sys.exit(1 if violations else 0)
