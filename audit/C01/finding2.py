"""
Finding 2: a range description in an ODS CID that contains two consecutive
blanks (or a tab) is silently cut off at that point, so values inside the
remaining items are rejected.
Exit code 1 = violation present, 0 = not present.
"""
import sys

sys.path.insert(0, "/tmp/audit_C01")
import io
import os
import tempfile
import warnings
import zipfile
from xml.sax.saxutils import escape

warnings.simplefilter("ignore")
from cutplace import errors, interface, rowio, validio  # noqa: E402


def ods_text(text):
    """
    ``text`` encoded the way ODF requires it (and LibreOffice writes it): the
    2nd and further blank of a run of blanks is ``<text:s/>``, a tab is
    ``<text:tab/>``.
    """
    result = []
    previous_is_blank = False
    for character in text:
        if character == " ":
            result.append("<text:s/>" if previous_is_blank else " ")
            previous_is_blank = True
        elif character == "\t":
            result.append("<text:tab/>")
            previous_is_blank = False
        else:
            result.append(escape(character))
            previous_is_blank = False
    return "".join(result)


def make_ods(path, rows):
    xml = [
        '<?xml version="1.0" encoding="UTF-8"?><office:document-content '
        'xmlns:office="urn:oasis:names:tc:opendocument:xmlns:office:1.0" '
        'xmlns:table="urn:oasis:names:tc:opendocument:xmlns:table:1.0" '
        'xmlns:text="urn:oasis:names:tc:opendocument:xmlns:text:1.0" office:version="1.2">'
        '<office:body><office:spreadsheet><table:table table:name="Sheet1">'
    ]
    for row in rows:
        xml.append("<table:table-row>")
        for value in row:
            if value == "":
                xml.append("<table:table-cell/>")
            else:
                xml.append(
                    '<table:table-cell office:value-type="string"><text:p>%s</text:p></table:table-cell>'
                    % ods_text(value)
                )
        xml.append("</table:table-row>")
    xml.append("</table:table></office:spreadsheet></office:body></office:document-content>")
    with zipfile.ZipFile(path, "w") as ods_zip:
        ods_zip.writestr("mimetype", "application/vnd.oasis.opendocument.spreadsheet")
        ods_zip.writestr("content.xml", "".join(xml))


RULE_N = "1...5,  7"  # two blanks after the comma
RULE_M = "1  ...  5"  # two blanks around the ellipsis
folder = tempfile.mkdtemp()
cid_path = os.path.join(folder, "cid.ods")
make_ods(
    cid_path,
    [
        ["d", "format", "delimited"],
        ["f", "n", "", "", "", "Integer", RULE_N],
        ["f", "m", "", "", "", "Integer", RULE_M],
    ],
)
print("ODS CID: Integer field n with rule %r, Integer field m with rule %r" % (RULE_N, RULE_M))
print("rows as read by rowio.ods_rows():", list(rowio.ods_rows(cid_path)))
violations = 0
try:
    cid = interface.Cid(cid_path)
except Exception as error:  # e.g. AttributeError after a repair attempt gone wrong
    print("CID refused: %s: %s" % (type(error).__name__, error))
    sys.exit(1)
for field_format in cid.field_formats:
    print("  field %s: items=%r" % (field_format.field_name, field_format.valid_range.items))
print("data: n=7, m=5 (both inside their ranges)")
with validio.Reader(cid, io.StringIO("7,5\n"), on_error="yield") as reader:
    for row_or_error in reader.rows():
        if isinstance(row_or_error, errors.DataError):
            print("  REJECTED: %s" % row_or_error)
            violations += 1
        else:
            print("  accepted: %r" % row_or_error)
print("data: n=3, m=5")
with validio.Reader(cid, io.StringIO("3,5\n"), on_error="yield") as reader:
    for row_or_error in reader.rows():
        if isinstance(row_or_error, errors.DataError):
            print("  REJECTED: %s" % row_or_error)
            violations += 1
        else:
            print("  accepted: %r" % row_or_error)
print("violation present" if violations else "no violation")
sys.exit(1 if violations else 0)
