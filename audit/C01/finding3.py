"""
Finding 3: a well-formed rule range of an Integer field is refused as soon as
the field also declares a length that does not cover the number of digits of
EVERY limit of the rule - including the example from the documentation
(docs/writing-an-icd.rst, "Examples for Integer fields":
``F | id | 1337 | | 5 | Integer | 1...99999``).
Exit code 1 = violation present, 0 = not present.
"""
import sys

sys.path.insert(0, "/tmp/audit_C01")
import io
import warnings

warnings.simplefilter("ignore")
from cutplace import errors, interface  # noqa: E402

violations = 0
for data_format in ("delimited", "excel", "ods"):
    for length, rule, example in (("5", "1...99999", "13370"), ("2...5", "1...99999", "1337"), ("3", "...500", "-50")):
        cid_text = "d,format,%s\nf,id,%s,,%s,Integer,%s\n" % (data_format, example, length, rule)
        print("CID:", repr(cid_text))
        try:
            cid = interface.Cid(io.StringIO(cid_text))
            field_format = cid.field_formats[0]
            print("  accepted; %s -> %r" % (example, field_format.validated(example)))
        except errors.InterfaceError as error:
            print("  rule %r REFUSED: %s" % (rule, error))
            violations += 1
print("violation present" if violations else "no violation")
sys.exit(1 if violations else 0)
