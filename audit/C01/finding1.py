"""
Finding 1: an Excel data cell holding a whole number >= 1e16 is rejected by an
Integer field whose range rule ("0...") contains it.
Exit code 1 = violation present, 0 = not present.
"""
import sys

sys.path.insert(0, "/tmp/audit_C01")
import os
import tempfile
import warnings
import zipfile

warnings.simplefilter("ignore")
from cutplace import errors, interface, validio  # noqa: E402


def col(i):
    s = ""
    i += 1
    while i:
        i, r = divmod(i - 1, 26)
        s = chr(65 + r) + s
    return s


def make_xlsx(path, rows):
    """Minimal *.xlsx; str -> inline string cell, int/float -> numeric cell."""
    sheet = [
        '<?xml version="1.0" encoding="UTF-8" standalone="yes"?>'
        '<worksheet xmlns="http://schemas.openxmlformats.org/spreadsheetml/2006/main"><sheetData>'
    ]
    for y, row in enumerate(rows, 1):
        sheet.append('<row r="%d">' % y)
        for x, v in enumerate(row):
            ref = col(x) + str(y)
            if isinstance(v, str):
                sheet.append('<c r="%s" t="inlineStr"><is><t xml:space="preserve">%s</t></is></c>' % (ref, v))
            else:
                sheet.append('<c r="%s"><v>%s</v></c>' % (ref, v))
        sheet.append("</row>")
    sheet.append("</sheetData></worksheet>")
    with zipfile.ZipFile(path, "w") as z:
        z.writestr(
            "[Content_Types].xml",
            '<?xml version="1.0" encoding="UTF-8" standalone="yes"?>'
            '<Types xmlns="http://schemas.openxmlformats.org/package/2006/content-types">'
            '<Default Extension="rels" ContentType="application/vnd.openxmlformats-package.relationships+xml"/>'
            '<Default Extension="xml" ContentType="application/xml"/>'
            '<Override PartName="/xl/workbook.xml" ContentType='
            '"application/vnd.openxmlformats-officedocument.spreadsheetml.sheet.main+xml"/>'
            '<Override PartName="/xl/worksheets/sheet1.xml" ContentType='
            '"application/vnd.openxmlformats-officedocument.spreadsheetml.worksheet+xml"/></Types>',
        )
        z.writestr(
            "_rels/.rels",
            '<?xml version="1.0" encoding="UTF-8" standalone="yes"?>'
            '<Relationships xmlns="http://schemas.openxmlformats.org/package/2006/relationships">'
            '<Relationship Id="rId1" Type='
            '"http://schemas.openxmlformats.org/officeDocument/2006/relationships/officeDocument" '
            'Target="xl/workbook.xml"/></Relationships>',
        )
        z.writestr(
            "xl/workbook.xml",
            '<?xml version="1.0" encoding="UTF-8" standalone="yes"?>'
            '<workbook xmlns="http://schemas.openxmlformats.org/spreadsheetml/2006/main" '
            'xmlns:r="http://schemas.openxmlformats.org/officeDocument/2006/relationships">'
            '<sheets><sheet name="Sheet1" sheetId="1" r:id="rId1"/></sheets></workbook>',
        )
        z.writestr(
            "xl/_rels/workbook.xml.rels",
            '<?xml version="1.0" encoding="UTF-8" standalone="yes"?>'
            '<Relationships xmlns="http://schemas.openxmlformats.org/package/2006/relationships">'
            '<Relationship Id="rId1" Type='
            '"http://schemas.openxmlformats.org/officeDocument/2006/relationships/worksheet" '
            'Target="worksheets/sheet1.xml"/></Relationships>',
        )
        z.writestr("xl/worksheets/sheet1.xml", "".join(sheet))


folder = tempfile.mkdtemp()
cid_path = os.path.join(folder, "cid.xlsx")
data_path = os.path.join(folder, "data.xlsx")
make_xlsx(cid_path, [["d", "format", "excel"], ["f", "n", "", "", "", "Integer", "0..."]])
# All of these numbers are whole numbers >= 0, hence inside "0...".
numbers = [5, 1000000000000000, 10000000000000000, 123456789012345680000]
make_xlsx(data_path, [[n] for n in numbers])

print("CID (excel): Integer field 'n' with rule '0...'")
print("data (numeric Excel cells):", numbers)
cid = interface.Cid(cid_path)
violations = 0
with validio.Reader(cid, data_path, on_error="yield") as reader:
    for number, row_or_error in zip(numbers, reader.rows()):
        if isinstance(row_or_error, errors.DataError):
            print("  %s: REJECTED although inside '0...': %s" % (number, row_or_error))
            violations += 1
        else:
            print("  %s: accepted as %r" % (number, row_or_error))

# Same root cause on the CID side: a numeric cell as rule.
cid2_path = os.path.join(folder, "cid2.xlsx")
make_xlsx(cid2_path, [["d", "format", "excel"], ["f", "n", "", "", "", "Integer", 10000000000000000]])
try:
    interface.Cid(cid2_path)
    print("CID with numeric rule cell 10000000000000000: accepted")
except errors.InterfaceError as error:
    print("CID with numeric rule cell 10000000000000000: REFUSED: %s" % error)
    violations += 1

print("violation present" if violations else "no violation")
sys.exit(1 if violations else 0)
