"""
Finding 3: a damaged *.xlsx container (ZIP "end of central directory" record with
a wrong offset) makes reading Excel data raise a bare ``OSError: [Errno 22] Invalid
argument`` instead of a DataFormatError. The file exists and is readable, so this
is a problem in the data, not in the environment.

Exit code of this script: 1 = violation present, 0 = not present.
"""
import sys

sys.path.insert(0, "/tmp/audit_C10")

import logging
import os
import struct
import tempfile
import warnings

warnings.simplefilter("ignore")
logging.disable(logging.CRITICAL)

from cutplace import applications, errors, interface, rowio, validio  # noqa: E402

CID_TEXT = "d,format,excel\nf,customer_id\nf,surname\n"

violations = []

with tempfile.TemporaryDirectory() as folder:
    valid_path = os.path.join(folder, "valid.xlsx")
    with rowio.XlsxRowWriter(valid_path) as xlsx_writer:
        xlsx_writer.write_row(["1", "Doe"])
        xlsx_writer.write_row(["2", "Miller"])
    cid = interface.create_cid_from_string(CID_TEXT)
    validio.validate(cid, valid_path)
    print("-- the intact %s is accepted" % os.path.basename(valid_path))

    # Damage the container: add 0x1000 to the "offset of start of central directory"
    # stored in the ZIP end of central directory record (4 bytes at offset 16 of that record).
    content = bytearray(open(valid_path, "rb").read())
    eocd_index = content.rfind(b"PK\x05\x06")
    assert eocd_index >= 0
    (central_directory_offset,) = struct.unpack_from("<L", content, eocd_index + 16)
    struct.pack_into("<L", content, eocd_index + 16, central_directory_offset + 0x1000)
    damaged_path = os.path.join(folder, "damaged.xlsx")
    with open(damaged_path, "wb") as damaged_file:
        damaged_file.write(bytes(content))
    print(
        "-- damaged.xlsx: same bytes, but central directory offset in the end record changed from %d to %d"
        % (central_directory_offset, central_directory_offset + 0x1000)
    )

    def attempt(label, action):
        print("--", label)
        try:
            action()
            print("   succeeded without error")
        except (errors.InterfaceError, errors.DataError) as error:
            print("   fine: %s: %s" % (type(error).__name__, error))
        except BaseException as error:
            print("   VIOLATION: %s.%s escaped: %s" % (type(error).__module__, type(error).__name__, error))
            violations.append(label)

    attempt("API: validio.validate(cid, 'damaged.xlsx')", lambda: validio.validate(cid, damaged_path))
    attempt("API: list(rowio.excel_rows('damaged.xlsx'))", lambda: list(rowio.excel_rows(damaged_path)))
    attempt("API: interface.Cid('damaged.xlsx') (damaged file used as CID)", lambda: interface.Cid(damaged_path))

    cid_path = os.path.join(folder, "cid.csv")
    with open(cid_path, "w", encoding="utf-8", newline="") as cid_file:
        cid_file.write(CID_TEXT)
    try:
        exit_code = applications.main(["cutplace", cid_path, damaged_path])
    except SystemExit as error:
        exit_code = error.code
    print("-- command line: cutplace cid.csv damaged.xlsx -> exit code %r" % exit_code)
    print("   (informational: 1 = data rejected would be right; 3 claims a problem in the environment)")
    if exit_code == 4:
        violations.append("command line")

print()
if violations:
    print("violation present: %s" % violations)
    sys.exit(1)
print("violation not present")
sys.exit(0)
