"""
Finding 4: exceptions of Python's tokenizer other than TokenError / SyntaxError are
not translated into an InterfaceError.

(a) A carriage return directly followed by a non ASCII character in any CID cell that
    is split into tokens (Choice / Constant / Integer / Decimal rule, length, allowed
    characters, item delimiter, field type, check rule) raises UnicodeDecodeError.
(b) data.DataFormat._validated_character() (item delimiter) handles only
    tokenize.TokenError, so a multi line value with inconsistent indentation raises
    IndentationError.

The command line answers both with exit code 4.

Exit code of this script: 1 = violation present, 0 = not present.
"""
import sys

sys.path.insert(0, "/tmp/audit_C10")

import logging
import os
import tempfile
import warnings

warnings.simplefilter("ignore")
logging.disable(logging.CRITICAL)

from cutplace import applications, errors, interface  # noqa: E402

HEAD = "d,format,delimited\n"
CASES = [
    ("(a) Choice rule, choices on separate lines ending in CR", HEAD + 'f,city,,,,Choice,"wien,\röhling"\n'),
    ("(a) Constant rule", HEAD + 'f,city,,,,Constant,"x\rä"\n'),
    ("(a) Integer rule", HEAD + 'f,size,,,,Integer,"1...5,\r°"\n'),
    ("(a) Decimal rule", HEAD + 'f,size,,,,Decimal,"1...5,\r°"\n'),
    ("(a) length", HEAD + 'f,city,,,"1...5,\r°"\n'),
    ("(a) field type", HEAD + 'f,city,,,,"Te\räxt"\n'),
    ("(a) allowed characters", HEAD + 'd,allowed characters,"32...126,\rä"\nf,city\n'),
    ("(a) item delimiter", HEAD + 'd,item delimiter,";\rä"\nf,city\n'),
    ("(a) IsUnique rule", HEAD + 'f,city\nc,unique city,IsUnique,"city,\rä"\n'),
    ("(a) DistinctCount rule", HEAD + 'f,city\nc,few cities,DistinctCount,"city < 3 #\rä"\n'),
    ("(b) item delimiter with inconsistent indentation", HEAD + 'd,item delimiter,"if\n  a\n b"\nf,city\n'),
]

violations = []

for label, cid_text in CASES:
    print("-- %s: interface.create_cid_from_string(%r)" % (label, cid_text))
    try:
        interface.create_cid_from_string(cid_text)
        print("   succeeded without error")
    except (errors.InterfaceError, errors.DataError) as error:
        print("   fine: %s: %s" % (type(error).__name__, error))
    except BaseException as error:
        print("   VIOLATION: %s.%s escaped: %s" % (type(error).__module__, type(error).__name__, error))
        violations.append(label)

with tempfile.TemporaryDirectory() as folder:
    data_path = os.path.join(folder, "data.csv")
    with open(data_path, "w", encoding="cp1252", newline="") as data_file:
        data_file.write("wien\n")
    for label, cid_text in (CASES[0], CASES[-1]):
        cid_path = os.path.join(folder, "cid.csv")
        with open(cid_path, "w", encoding="utf-8", newline="") as cid_file:
            cid_file.write(cid_text)
        try:
            exit_code = applications.main(["cutplace", cid_path, data_path])
        except SystemExit as error:
            exit_code = error.code
        print("-- command line, %s: cutplace cid.csv data.csv -> exit code %r" % (label, exit_code))
        if exit_code == 4:
            print("   VIOLATION: exit code 4")
            violations.append("command line " + label)

print()
if violations:
    print("violation present: %s" % violations)
    sys.exit(1)
print("violation not present")
sys.exit(0)
