"""
Finding 1: a DateTime rule that uses the same placeholder twice (for example
"YYYY-MM-DD hh:MM:ss", the classic "MM for minutes" slip) is accepted when the
CID is loaded, and then every data row makes ``time.strptime`` raise ``re.error``
("redefinition of group name"), which is neither an InterfaceError nor a
DataError. The command line answers with exit code 4.

Exit code of this script: 1 = violation present, 0 = not present.
"""
import sys

sys.path.insert(0, "/tmp/audit_C10")

import io
import logging
import os
import tempfile
import warnings

warnings.simplefilter("ignore")
logging.disable(logging.CRITICAL)

from cutplace import applications, errors, interface, validio  # noqa: E402

CID_TEXT = "d,format,delimited\nf,created,,,,DateTime,YYYY-MM-DD hh:MM:ss\n"
CID_WITH_EXAMPLE_TEXT = "d,format,delimited\nf,created,2020-01-02 03:04:05,,,DateTime,YYYY-MM-DD hh:MM:ss\n"
DATA_TEXT = "2020-01-02 03:04:05\n"

violations = []


def attempt(label, action):
    print("--", label)
    try:
        action()
        print("   succeeded without error")
    except (errors.InterfaceError, errors.DataError) as error:
        print("   fine: %s: %s" % (type(error).__name__, error))
    except BaseException as error:
        print("   VIOLATION: %s.%s escaped: %s" % (type(error).__module__, type(error).__name__, error))
        violations.append(label)


def api_validate():
    cid = interface.create_cid_from_string(CID_TEXT)
    print("   CID loaded without complaint; rule = %r" % cid.field_formats[0].rule)
    validio.validate(cid, io.StringIO(DATA_TEXT))


def api_rows_on_error_continue():
    cid = interface.create_cid_from_string(CID_TEXT)
    with validio.Reader(cid, io.StringIO(DATA_TEXT), on_error="continue") as reader:
        for _ in reader.rows():
            pass


def api_example():
    interface.create_cid_from_string(CID_WITH_EXAMPLE_TEXT)


attempt("API: validio.validate() with CID %r and data %r" % (CID_TEXT, DATA_TEXT), api_validate)
attempt("API: Reader(on_error='continue').rows() with the same CID and data", api_rows_on_error_continue)
attempt("API: loading the same CID with an example value %r" % CID_WITH_EXAMPLE_TEXT, api_example)

print("-- command line: cutplace cid.csv data.csv")
with tempfile.TemporaryDirectory() as folder:
    cid_path = os.path.join(folder, "cid.csv")
    data_path = os.path.join(folder, "data.csv")
    with open(cid_path, "w", encoding="utf-8", newline="") as cid_file:
        cid_file.write(CID_TEXT)
    with open(data_path, "w", encoding="cp1252", newline="") as data_file:
        data_file.write(DATA_TEXT)
    try:
        exit_code = applications.main(["cutplace", cid_path, data_path])
    except SystemExit as error:
        exit_code = error.code
    print("   exit code: %r" % exit_code)
    if exit_code == 4:
        print("   VIOLATION: exit code 4")
        violations.append("command line")

print()
if violations:
    print("violation present: %s" % violations)
    sys.exit(1)
print("violation not present")
sys.exit(0)
