"""
Finding 6: in ODS data a damaged ``table:number-columns-repeated`` attribute that
still is an integer but a huge one makes rowio.ods_rows() raise MemoryError or
OverflowError instead of a DataFormatError; the command line answers with exit code 4.

Exit code of this script: 1 = violation present, 0 = not present.
"""
import sys

sys.path.insert(0, "/tmp/audit_C10")

import logging
import os
import tempfile
import warnings
import zipfile

warnings.simplefilter("ignore")
logging.disable(logging.CRITICAL)

from cutplace import applications, errors, interface, validio  # noqa: E402

CID_TEXT = "d,format,ods\nf,customer_id\nf,surname\n"

CONTENT_TEMPLATE = (
    '<?xml version="1.0" encoding="UTF-8"?>'
    "<office:document-content"
    ' xmlns:office="urn:oasis:names:tc:opendocument:xmlns:office:1.0"'
    ' xmlns:table="urn:oasis:names:tc:opendocument:xmlns:table:1.0"'
    ' xmlns:text="urn:oasis:names:tc:opendocument:xmlns:text:1.0">'
    "<office:body><office:spreadsheet>"
    '<table:table table:name="Sheet1">'
    "<table:table-row>"
    "<table:table-cell><text:p>1</text:p></table:table-cell>"
    "<table:table-cell><text:p>Doe</text:p></table:table-cell>"
    '<table:table-cell table:number-columns-repeated="%s"/>'
    "</table:table-row>"
    "</table:table>"
    "</office:spreadsheet></office:body>"
    "</office:document-content>"
)


def write_ods(ods_path, repeated_text):
    with zipfile.ZipFile(ods_path, "w") as ods_archive:
        ods_archive.writestr("mimetype", "application/vnd.oasis.opendocument.spreadsheet")
        ods_archive.writestr("content.xml", CONTENT_TEMPLATE % repeated_text)


violations = []
cid = interface.create_cid_from_string(CID_TEXT)

with tempfile.TemporaryDirectory() as folder:
    cid_path = os.path.join(folder, "cid.csv")
    with open(cid_path, "w", encoding="utf-8", newline="") as cid_file:
        cid_file.write(CID_TEXT)
    # "1020" is what a spreadsheet application might write for the empty rest of a row;
    # the others are the same attribute after damage.
    for repeated_text in ("1020", "x1020", "1000000000000000", "99999999999999999999"):
        ods_path = os.path.join(folder, "data.ods")
        write_ods(ods_path, repeated_text)
        print("-- data.ods with a trailing empty cell, table:number-columns-repeated=%r" % repeated_text)
        try:
            validio.validate(cid, ods_path)
            print("   API: succeeded without error")
        except (errors.InterfaceError, errors.DataError) as error:
            print("   API: fine: %s: %s" % (type(error).__name__, str(error)[:120]))
        except BaseException as error:
            print("   VIOLATION: API: %s.%s escaped: %s" % (type(error).__module__, type(error).__name__, error))
            violations.append("API " + repeated_text)
        try:
            exit_code = applications.main(["cutplace", cid_path, ods_path])
        except SystemExit as error:
            exit_code = error.code
        print("   command line: cutplace cid.csv data.ods -> exit code %r" % exit_code)
        if exit_code == 4:
            print("   VIOLATION: exit code 4")
            violations.append("command line " + repeated_text)

print()
if violations:
    print("violation present: %s" % violations)
    sys.exit(1)
print("violation not present")
sys.exit(0)
