"""
Finding 2: a no-break space (U+00A0, or any other Unicode blank that is not ASCII
white space) in the rule of an IsUnique or DistinctCount check makes loading the
CID die with an AssertionError; the command line answers with exit code 4.

Exit code of this script: 1 = violation present, 0 = not present.
"""
import sys

sys.path.insert(0, "/tmp/audit_C10")

import logging
import os
import tempfile
import warnings

warnings.simplefilter("ignore")
logging.disable(logging.CRITICAL)

from cutplace import applications, errors, interface  # noqa: E402

CID_TEXTS = [
    # no-break space after the comma, as it is left behind by copy and paste from a web page or a document
    "d,format,delimited\nf,customer_id\nf,branch_id\nc,customer must be unique,IsUnique,\"customer_id,\u00a0branch_id\"\n",
    # trailing no-break space
    "d,format,delimited\nf,customer_id\nc,customer must be unique,IsUnique,customer_id\u00a0\n",
    # DistinctCount, no-break space between field name and operator
    "d,format,delimited\nf,branch_id\nc,few branches,DistinctCount,branch_id\u00a0< 5\n",
    # other Unicode blanks
    "d,format,delimited\nf,customer_id\nc,customer must be unique,IsUnique,\u2003customer_id\n",
    "d,format,delimited\nf,customer_id\nc,customer must be unique,IsUnique,customer_id\u3000\n",
]

violations = []

for cid_text in CID_TEXTS:
    print("-- API: interface.create_cid_from_string(%r)" % cid_text)
    try:
        interface.create_cid_from_string(cid_text)
        print("   succeeded without error")
    except (errors.InterfaceError, errors.DataError) as error:
        print("   fine: %s: %s" % (type(error).__name__, error))
    except BaseException as error:
        print("   VIOLATION: %s.%s escaped: %r" % (type(error).__module__, type(error).__name__, error))
        violations.append(cid_text)

print("-- command line: cutplace cid.csv data.csv (first CID from above)")
with tempfile.TemporaryDirectory() as folder:
    cid_path = os.path.join(folder, "cid.csv")
    data_path = os.path.join(folder, "data.csv")
    with open(cid_path, "w", encoding="utf-8", newline="") as cid_file:
        cid_file.write(CID_TEXTS[0])
    with open(data_path, "w", encoding="cp1252", newline="") as data_file:
        data_file.write("1,2\n")
    try:
        exit_code = applications.main(["cutplace", cid_path, data_path])
    except SystemExit as error:
        exit_code = error.code
    print("   exit code: %r" % exit_code)
    if exit_code == 4:
        print("   VIOLATION: exit code 4")
        violations.append("command line")

print()
if violations:
    print("violation present (%d cases)" % len(violations))
    sys.exit(1)
print("violation not present")
sys.exit(0)
