"""
Finding 5: "cutplace --create cid.xlsx" answers a perfectly valid CID that contains
an Integer field with an open range (rule "0...", as shown in docs/writing-an-icd.rst,
or length "3..." without rule) with an AssertionError and exit code 4.

Exit code of this script: 1 = violation present, 0 = not present.
"""
import sys

sys.path.insert(0, "/tmp/audit_C10")

import io
import logging
import os
import tempfile
import warnings

warnings.simplefilter("ignore")
logging.disable(logging.CRITICAL)

from cutplace import applications, errors, interface, rowio, sql, validio  # noqa: E402

CASES = [
    ("Integer rule '0...'", [["d", "format", "delimited"], ["f", "weight", "72", "", "", "Integer", "0..."]]),
    ("Integer rule '...1000'", [["d", "format", "delimited"], ["f", "weight", "72", "", "", "Integer", "...1000"]]),
    ("Integer length '3...' without rule", [["d", "format", "delimited"], ["f", "weight", "172", "", "3...", "Integer", ""]]),
]

violations = []

with tempfile.TemporaryDirectory() as folder:
    for label, cid_rows in CASES:
        print("-- %s; CID rows: %r" % (label, cid_rows))
        cid_path = os.path.join(folder, "cid.xlsx")
        with rowio.XlsxRowWriter(cid_path) as xlsx_writer:
            for cid_row in cid_rows:
                xlsx_writer.write_row(cid_row)

        # The CID is valid: it loads and validates data.
        cid = interface.Cid(cid_path)
        validio.validate(cid, io.StringIO("172\n"))
        print("   the CID loads and accepts the data row '172'")

        try:
            exit_code = applications.main(["cutplace", "--create", cid_path])
        except SystemExit as error:
            exit_code = error.code
        print("   command line: cutplace --create cid.xlsx -> exit code %r" % exit_code)
        if exit_code == 4:
            print("   VIOLATION: exit code 4")
            violations.append("command line: " + label)

        try:
            statement = sql.SqlFactory(cid, "some_table").create_table_statement()
            print("   API: SqlFactory(cid, 'some_table').create_table_statement() -> %r" % statement)
        except (errors.InterfaceError, errors.DataError) as error:
            print("   API: fine: %s: %s" % (type(error).__name__, error))
        except BaseException as error:
            print(
                "   VIOLATION: API: SqlFactory(cid, 'some_table').create_table_statement(): %s.%s escaped: %r"
                % (type(error).__module__, type(error).__name__, error)
            )
            violations.append("API: " + label)

print()
if violations:
    print("violation present: %s" % violations)
    sys.exit(1)
print("violation not present")
sys.exit(0)
