"""
Finding 5: a CID whose check rule starts with a blank (", a" as commonly
written in CSV) is rejected although the rule names only declared fields.
"""
import sys
import warnings

warnings.filterwarnings("ignore")
sys.path.insert(0, "/tmp/audit_C09")
from cutplace import errors, interface

violations = 0


def try_cid(label, cid_text, must_be_accepted=True):
    global violations
    print("---", label)
    print(cid_text)
    try:
        cid = interface.create_cid_from_string(cid_text)
        print("OBSERVED: accepted; fields=%s checks=%s" % (cid.field_names, cid.check_names))
    except errors.InterfaceError as error:
        print("OBSERVED: InterfaceError: %s" % error)
        if must_be_accepted:
            print("EXPECTED: accepted (the rule names only the declared field 'a')")
            violations += 1


try_cid("control: blank BEHIND the rule is fine", "d,format,delimited\nf,a\nc,a is unique,IsUnique,a \n")
try_cid("control: blank inside the rule is fine", 'd,format,delimited\nf,a\nf,b\nc,a and b are unique,IsUnique,"a, b"\n')
try_cid("IsUnique rule ' a' (blank in front)", "d,format,delimited\nf,a\nc,a is unique,IsUnique, a\n")
try_cid("DistinctCount rule ' a < 3' (blank in front)", "d,format,delimited\nf,a\nc,few a,DistinctCount, a < 3\n")
print("violations:", violations)
sys.exit(1 if violations else 0)
