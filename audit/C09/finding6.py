"""
Finding 6: an Excel CID is rejected (with a DataFormatError, not an
InterfaceError) because of a cell that must be ignored: a cell beyond the
parsed columns, or a cell in a row whose first cell is empty.
"""
import os
import sys
import tempfile
import warnings

warnings.filterwarnings("ignore")
sys.path.insert(0, "/tmp/audit_C09")
import xlsxwriter

from cutplace import errors, interface

violations = 0
folder = tempfile.mkdtemp()


def write_cid(path, bad_row, bad_column):
    workbook = xlsxwriter.Workbook(path)
    worksheet = workbook.add_worksheet()
    date_format = workbook.add_format({"num_format": "yyyy-mm-dd"})
    worksheet.write_row(0, 0, ["d", "format", "delimited"])
    worksheet.write_row(1, 0, ["f", "a"])
    worksheet.write_row(2, 0, ["", "a remark row: first cell is empty"])
    # A negative number formatted as date; Excel shows it as "#####".
    worksheet.write_number(bad_row, bad_column, -5, date_format)
    workbook.close()


def try_cid(label, path):
    global violations
    print("---", label)
    try:
        cid = interface.Cid(path)
        print("OBSERVED: accepted; fields=%s" % cid.field_names)
    except errors.InterfaceError as error:
        print("OBSERVED: InterfaceError: %s; EXPECTED: accepted" % error)
        violations += 1
    except BaseException as error:
        print("OBSERVED: %s: %s" % (type(error).__name__, error))
        print("EXPECTED: accepted with fields ['a'] (the cell has to be ignored)")
        violations += 1


path = os.path.join(folder, "cid_beyond.xlsx")
write_cid(path, 1, 9)
try_cid("rows: [d,format,delimited] [f,a,,,,,,,,<-5 as date> in column J] [,remark]", path)
path = os.path.join(folder, "cid_remark.xlsx")
write_cid(path, 2, 2)
try_cid("rows: [d,format,delimited] [f,a] [,remark,<-5 as date>]  (row with empty first cell)", path)
print("violations:", violations)
sys.exit(1 if violations else 0)
