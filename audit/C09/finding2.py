"""
Finding 2: the ODS reader ignores table:number-rows-repeated, so a CID stored
as ODS loses repeated rows: a duplicate field name is accepted and errors name
the wrong row.
"""
import os
import sys
import tempfile
import warnings
import zipfile

warnings.filterwarnings("ignore")
sys.path.insert(0, "/tmp/audit_C09")
from cutplace import errors, interface

NS = (
    'xmlns:office="urn:oasis:names:tc:opendocument:xmlns:office:1.0" '
    'xmlns:table="urn:oasis:names:tc:opendocument:xmlns:table:1.0" '
    'xmlns:text="urn:oasis:names:tc:opendocument:xmlns:text:1.0"'
)


def write_ods(path, rows):
    """rows: list of (cells, repeat_count); identical adjacent rows are stored the way LibreOffice does."""
    body = ""
    for cells, repeat in rows:
        attr = ' table:number-rows-repeated="%d"' % repeat if repeat != 1 else ""
        xml_cells = ""
        for cell in cells:
            if cell == "":
                xml_cells += "<table:table-cell/>"
            else:
                xml_cells += '<table:table-cell office:value-type="string"><text:p>%s</text:p></table:table-cell>' % cell
        body += "<table:table-row%s>%s</table:table-row>" % (attr, xml_cells)
    content = (
        '<?xml version="1.0" encoding="UTF-8"?><office:document-content %s office:version="1.2">'
        '<office:body><office:spreadsheet><table:table table:name="Sheet1">%s</table:table>'
        "</office:spreadsheet></office:body></office:document-content>" % (NS, body)
    )
    with zipfile.ZipFile(path, "w") as ods_zip:
        ods_zip.writestr("mimetype", "application/vnd.oasis.opendocument.spreadsheet")
        ods_zip.writestr("content.xml", content)


violations = 0
folder = tempfile.mkdtemp()

# Case A: row 2 and row 3 both are "f,a" (stored as one row element repeated twice).
path_a = os.path.join(folder, "duplicate_field.ods")
write_ods(path_a, [(["d", "format", "delimited"], 1), (["f", "a"], 2)])
print("--- A: ODS CID with rows: [d,format,delimited] [f,a] [f,a]  (rows 2+3 stored with number-rows-repeated=2)")
try:
    cid = interface.Cid(path_a)
    print("OBSERVED: accepted, field_names=%s" % cid.field_names)
    print("EXPECTED: InterfaceError naming row 3 (duplicate field name 'a')")
    violations += 1
except errors.InterfaceError as error:
    print("OBSERVED: InterfaceError: %s" % error)
    if "R3" not in str(error):
        print("EXPECTED: the error to name row 3")
        violations += 1

# Case B: rows 2-4 empty (one element repeated 3 times), broken field name in row 5.
path_b = os.path.join(folder, "wrong_row.ods")
write_ods(path_b, [(["d", "format", "delimited"], 1), ([""], 3), (["f", "1bad"], 1)])
print("--- B: ODS CID with rows: [d,format,delimited] [] [] [] [f,1bad]  (3 empty rows stored with number-rows-repeated=3)")
try:
    interface.Cid(path_b)
    print("OBSERVED: accepted; EXPECTED: InterfaceError naming row 5")
    violations += 1
except errors.InterfaceError as error:
    print("OBSERVED: InterfaceError: %s" % error)
    if "R5" not in str(error):
        print("EXPECTED: the error to name the offending row 5 (R5C...)")
        violations += 1

print("violations:", violations)
sys.exit(1 if violations else 0)
