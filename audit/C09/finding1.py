"""
Finding 1: a DistinctCount check whose rule names an undeclared field (or any
other name) is accepted, because the rule is only test-evaluated with count=0.
"""
import sys
import warnings

warnings.filterwarnings("ignore")
sys.path.insert(0, "/tmp/audit_C09")
from cutplace import errors, interface

violations = 0


def try_cid(label, cid_text):
    global violations
    print("---", label)
    print(cid_text)
    try:
        cid = interface.create_cid_from_string(cid_text)
        print("OBSERVED: accepted; fields=%s checks=%s" % (cid.field_names, cid.check_names))
        print("EXPECTED: InterfaceError naming row 3 (rule names something that is not a declared field)")
        violations += 1
    except errors.InterfaceError as error:
        print("OBSERVED: InterfaceError: %s (as expected)" % error)
    except BaseException as error:
        print("OBSERVED: %s: %r instead of an InterfaceError" % (type(error).__name__, error))
        violations += 1


try_cid(
    "rule refers to the undeclared field 'nosuchfield'",
    "d,format,delimited\nf,a\nc,x,DistinctCount,a == 0 or nosuchfield > 3\n",
)
try_cid(
    "rule calls exit(): reading the CID raises SystemExit (the command line ends with status 0)",
    "d,format,delimited\nf,a\nc,x,DistinctCount,a < 1 and exit()\n",
)
print("violations:", violations)
sys.exit(1 if violations else 0)
