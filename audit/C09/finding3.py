"""
Finding 3: rejections of a CID whose error text does not name any row.
 a) contradicting data format properties (DataFormat.validate() has no location)
 b) broken value for "skip initial space" (location and ignore_case swapped)
"""
import re
import sys
import warnings

warnings.filterwarnings("ignore")
sys.path.insert(0, "/tmp/audit_C09")
from cutplace import errors, interface

violations = 0


def try_cid(label, cid_text, expected_rows):
    global violations
    print("---", label)
    print(cid_text)
    try:
        interface.create_cid_from_string(cid_text)
        print("OBSERVED: accepted; EXPECTED: InterfaceError")
        violations += 1
    except errors.InterfaceError as error:
        text = str(error)
        print("OBSERVED: InterfaceError with text: %r, location=%r" % (text, error.location))
        named_rows = [int(row) for row in re.findall(r"\(R(\d+)C\d+\)", text)]
        if not any(row in expected_rows for row in named_rows):
            print("EXPECTED: text naming the offending row (one of rows %s), e.g. '<io> (R%dC3): ...'" % (expected_rows, expected_rows[-1]))
            violations += 1
        else:
            print("(names row %s as expected)" % named_rows)
    except BaseException as error:
        print("OBSERVED: %s: %r instead of an InterfaceError" % (type(error).__name__, error))
        violations += 1


try_cid(
    "a) item delimiter and quote character both ';'",
    "d,format,delimited\nd,item delimiter,;\nd,quote character,;\nf,a\n",
    [2, 3],
)
try_cid(
    "a) decimal and thousands separator both ','",
    'd,format,fixed\nd,decimal separator,","\nd,thousands separator,","\nf,a,,,3\n',
    [2, 3],
)
try_cid(
    "b) skip initial space is neither true nor false",
    "d,format,delimited\nd,skip initial space,maybe\nf,a\n",
    [2],
)
print("violations:", violations)
sys.exit(1 if violations else 0)
