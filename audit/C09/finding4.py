"""
Finding 4: an example that its own field rejects is accepted when the data
format property the example violates is declared after the field row.
"""
import sys
import warnings

warnings.filterwarnings("ignore")
sys.path.insert(0, "/tmp/audit_C09")
from cutplace import errors, interface

violations = 0

CID_PROPERTY_AFTER_FIELD = "d,format,delimited\nf,name,Müller\nd,allowed characters,32...127\n"
CID_PROPERTY_BEFORE_FIELD = "d,format,delimited\nd,allowed characters,32...127\nf,name,Müller\n"

for label, cid_text in (
    ("property row BEFORE the field row (control)", CID_PROPERTY_BEFORE_FIELD),
    ("property row AFTER the field row", CID_PROPERTY_AFTER_FIELD),
):
    print("---", label)
    print(cid_text)
    try:
        cid = interface.create_cid_from_string(cid_text)
    except errors.InterfaceError as error:
        print("OBSERVED: InterfaceError: %s (as expected)" % error)
        continue
    field_format = cid.field_formats[0]
    print("OBSERVED: accepted; example of field %r is %r" % (field_format.field_name, field_format.example))
    try:
        field_format.validated(field_format.example)
        print("          and the field accepts its example")
    except errors.FieldValueError as error:
        print("          but the field of the accepted CID rejects its own example: %s" % error)
        print("EXPECTED: InterfaceError 'cannot validate example for field ...' naming row 2")
        violations += 1

print("violations:", violations)
sys.exit(1 if violations else 0)
