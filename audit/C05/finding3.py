"""
Finding 3: ods_rows() ignores table:number-rows-repeated (LibreOffice stores consecutive identical
rows that way), so duplicate rows of an ODS data set are never seen by IsUnique, and the rows after
them get wrong row numbers in the error and in "location of first occurrence".
"""
import sys; sys.path.insert(0, "/tmp/audit_C05")
import os, tempfile, warnings, zipfile
warnings.simplefilter("ignore")
from cutplace import errors, interface, validio

def cell(text):
    return '<table:table-cell office:value-type="string"><text:p>%s</text:p></table:table-cell>' % text

def make_ods(path, rows_xml):
    content = (
        '<?xml version="1.0" encoding="UTF-8"?>'
        '<office:document-content xmlns:office="urn:oasis:names:tc:opendocument:xmlns:office:1.0" '
        'xmlns:table="urn:oasis:names:tc:opendocument:xmlns:table:1.0" '
        'xmlns:text="urn:oasis:names:tc:opendocument:xmlns:text:1.0" office:version="1.2">'
        '<office:body><office:spreadsheet><table:table table:name="Sheet1">' + rows_xml +
        '</table:table></office:spreadsheet></office:body></office:document-content>')
    with zipfile.ZipFile(path, "w") as ods:
        ods.writestr("mimetype", "application/vnd.oasis.opendocument.spreadsheet")
        ods.writestr("content.xml", content)

cid = interface.create_cid_from_string("d,format,ods\nf,a\nf,b\nc,u,IsUnique,a\n")
path = os.path.join(tempfile.mkdtemp(), "data.ods")
# Sheet rows: 1: (1,x)  2: (2,y)  3: (2,y)  4: (1,z)
make_ods(path,
    '<table:table-row>%s%s</table:table-row>' % (cell("1"), cell("x")) +
    '<table:table-row table:number-rows-repeated="2">%s%s</table:table-row>' % (cell("2"), cell("y")) +
    '<table:table-row>%s%s</table:table-row>' % (cell("1"), cell("z")))
print("sheet rows: R1=(1,x) R2=(2,y) R3=(2,y) [R2+R3 stored with number-rows-repeated=2] R4=(1,z)")
expected = {3: 2, 4: 1}  # rejected row (1 based) -> row of first occurrence
observed = {}
reader = validio.Reader(cid, path, on_error="yield")
for item in reader.rows():
    print("  %s" % (item if isinstance(item, list) else "ERROR %s" % item))
    if isinstance(item, errors.CheckError):
        observed[item.location.line + 1] = item.see_also_location.line + 1
reader.close()
print("expected rejected rows -> first occurrence: %s" % expected)
print("observed rejected rows -> first occurrence: %s" % observed)
violation = observed != expected
if violation:
    print("VIOLATION: row 3 (duplicate of row 2) is not rejected and/or row numbers are shifted")
sys.exit(1 if violation else 0)
