"""
Finding 2: a row that passes IsUnique in Writer.write_row() but then cannot be written
(DataFormatError from the row writer) stays registered; later rows with the same key are
rejected although no accepted row has that key, and the error refers to its own row.
"""
import sys; sys.path.insert(0, "/tmp/audit_C05")
import os, tempfile, warnings
warnings.simplefilter("ignore")
from cutplace import errors, interface, validio

cid = interface.create_cid_from_string("d,format,delimited\nd,encoding,ascii\nf,a\nf,b\nc,u,IsUnique,a\n")
target = os.path.join(tempfile.mkdtemp(), "out.csv")
violation = False
writer = validio.Writer(cid, target)
rows = [["1", "ä"], ["1", "x"]]
accepted = []
for row in rows:
    try:
        writer.write_row(row)
        accepted.append(row)
        print("accepted %r" % row)
    except errors.CheckError as error:
        print("rejected %r by check: %s" % (row, error))
        if not any(earlier[0] == row[0] for earlier in accepted):
            print("VIOLATION: no earlier accepted row has a=%r; error at %s refers to %s"
                  % (row[0], error.location, error.see_also_location))
            violation = True
    except errors.DataError as error:
        print("rejected %r: %s" % (row, error))
writer.close()
with open(target, encoding="ascii") as f:
    print("written file: %r" % f.read())
sys.exit(1 if violation else 0)
