"""
Finding 4: the GUI (cutplace --gui, CutplaceFrame.validate) never calls Reader.close(), so checks
at the end (DistinctCount) are never evaluated: data violating the count are reported as fine.
Runs CutplaceFrame.validate() as is; the Tk widgets are replaced by mocks because there is no display.
"""
import sys; sys.path.insert(0, "/tmp/audit_C05")
import os, tempfile, warnings
warnings.simplefilter("ignore")
from unittest import mock
from cutplace import errors, gui, validio

tmp = tempfile.mkdtemp()
cid_path = os.path.join(tmp, "cid.csv")
data_path = os.path.join(tmp, "data.csv")
with open(cid_path, "w") as f:
    f.write("d,format,delimited\nf,a\nc,at least two,DistinctCount,a >= 2\n")
with open(data_path, "w") as f:
    f.write("1\n1\n")
print("CID: DistinctCount 'a >= 2'; data: rows 1, 1 (1 distinct value)")
try:
    validio.validate(cid_path, data_path)
    print("API: no error ?!")
except errors.CheckError as error:
    print("API validate(): fails as required: %s" % error)
if not gui.has_tk:
    print("tkinter not available, GUI cannot be checked")
    sys.exit(0)
lines = []
frame = mock.MagicMock()
frame.cid_path = cid_path
frame.data_path = data_path
frame._validation_report_text.insert.side_effect = lambda where, line: lines.append(line.rstrip("\n"))
gui.CutplaceFrame.validate(frame)
print("GUI validation report:")
for line in lines:
    print("  " + line)
violation = not any(("ERROR" in line) or ("distinct count" in line) for line in lines)
if violation:
    print("VIOLATION: GUI reports no error; finishing the validation never evaluates DistinctCount")
sys.exit(1 if violation else 0)
