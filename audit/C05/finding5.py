"""
Finding 5: ods_rows() takes only the leading text of the first <text:p> of a cell. Values that differ
only after a run of blanks (LibreOffice stores "A  1" as "A <text:s/>1"), after a <text:span>/<text:a>
or in a second paragraph are cut to the same text, so IsUnique rejects rows with different values
(and DistinctCount counts them as one).
"""
import sys; sys.path.insert(0, "/tmp/audit_C05")
import os, tempfile, warnings, zipfile
warnings.simplefilter("ignore")
from cutplace import errors, interface, validio

def cell(inner):
    return '<table:table-cell office:value-type="string">%s</table:table-cell>' % inner

def make_ods(path, rows_xml):
    content = (
        '<?xml version="1.0" encoding="UTF-8"?>'
        '<office:document-content xmlns:office="urn:oasis:names:tc:opendocument:xmlns:office:1.0" '
        'xmlns:table="urn:oasis:names:tc:opendocument:xmlns:table:1.0" '
        'xmlns:text="urn:oasis:names:tc:opendocument:xmlns:text:1.0" office:version="1.2">'
        '<office:body><office:spreadsheet><table:table table:name="Sheet1">' + rows_xml +
        '</table:table></office:spreadsheet></office:body></office:document-content>')
    with zipfile.ZipFile(path, "w") as ods:
        ods.writestr("mimetype", "application/vnd.oasis.opendocument.spreadsheet")
        ods.writestr("content.xml", content)

cid = interface.create_cid_from_string("d,format,ods\nf,a\nc,u,IsUnique,a\n")
path = os.path.join(tempfile.mkdtemp(), "data.ods")
cases = [
    ("'A  1' / 'A  2' (two blanks, stored as 'A <text:s/>1')",
     ['<text:p>A <text:s/>1</text:p>', '<text:p>A <text:s/>2</text:p>']),
    ("'A1' / 'A2' with the digit in a <text:span>",
     ['<text:p>A<text:span>1</text:span></text:p>', '<text:p>A<text:span>2</text:span></text:p>']),
    ("two-line cells 'A\\n1' / 'A\\n2' (two <text:p>)",
     ['<text:p>A</text:p><text:p>1</text:p>', '<text:p>A</text:p><text:p>2</text:p>']),
]
violation = False
for title, cells in cases:
    make_ods(path, "".join('<table:table-row>%s</table:table-row>' % cell(inner) for inner in cells))
    reader = validio.Reader(cid, path, on_error="yield")
    results = list(reader.rows())
    reader.close()
    print("%s -> %s" % (title, [str(item) for item in results]))
    if any(isinstance(item, errors.CheckError) for item in results):
        print("  VIOLATION: second row rejected as duplicate although the values differ")
        violation = True
sys.exit(1 if violation else 0)
