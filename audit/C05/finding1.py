"""
Finding 1: the state of IsUnique / DistinctCount lives in the Cid, not in the validator, so two
validators that use the same Cid at the same time see each other's rows ("same data set" clause).
"""
import sys; sys.path.insert(0, "/tmp/audit_C05")
import io, os, tempfile, warnings
warnings.simplefilter("ignore")
from cutplace import errors, interface, validio

tmp = tempfile.mkdtemp()
def write(name, text):
    path = os.path.join(tmp, name)
    with open(path, "w", newline="") as f:
        f.write(text)
    return path

violations = []

# (a) copy a valid data set: Reader and Writer with the same Cid.
cid = interface.create_cid_from_string("d,format,delimited\nf,a\nf,b\nc,u,IsUnique,a\n")
source = write("in.csv", "1,x\n2,y\n")
target = io.StringIO()
print("(a) copy in.csv (keys 1, 2 - all unique) to a Writer using the same Cid")
try:
    with validio.Writer(cid, target) as writer:
        for row in validio.Reader(cid, source).rows():
            writer.write_row(row)
    print("    ok, written: %r" % target.getvalue())
except errors.CheckError as error:
    print("    VIOLATION: row rejected although the written data set has no earlier row: %s" % error)
    violations.append("a")

# (b) two readers side by side: a row of a.csv is rejected because of a row in b.csv,
#     and a real duplicate inside a.csv is missed.
cid = interface.create_cid_from_string("d,format,delimited\nf,a\nc,u,IsUnique,a\n")
path_a = write("a.csv", "5\n1\n")
path_b = write("b.csv", "1\n")
print("(b) zip over Reader(cid, a.csv = 5,1) and Reader(cid, b.csv = 1), on_error='yield'")
ra = validio.Reader(cid, path_a, on_error="yield")
rb = validio.Reader(cid, path_b, on_error="yield")
ia, ib = ra.rows(), rb.rows()
results = [next(ia), next(ib), next(ia)]
print("    results: %s" % [str(item) for item in results])
if isinstance(results[2], errors.CheckError):
    print("    VIOLATION: a.csv row 2 rejected, refers to %s" % results[2].see_also_location)
    violations.append("b")

# (c) DistinctCount of one data set is judged by the rows of another one.
cid = interface.create_cid_from_string("d,format,delimited\nf,a\nc,dc,DistinctCount,a >= 2\n")
path_one = write("one.csv", "1\n1\n")      # 1 distinct value -> must fail
path_two = write("two.csv", "1\n2\n")      # 2 distinct values -> must pass
print("(c) with Reader(cid, one.csv) as r1, Reader(cid, two.csv) as r2: validate both")
try:
    with validio.Reader(cid, path_one) as r1, validio.Reader(cid, path_two) as r2:
        r1.validate_rows()
        r2.validate_rows()
    print("    VIOLATION: no error although one.csv has only 1 distinct value ('a >= 2')")
    violations.append("c")
except errors.CheckError as error:
    print("    ok, failed: %s" % error)

print("violations: %s" % violations)
sys.exit(1 if violations else 0)
