"""
Finding 6: a Reader that has been closed once never evaluates the checks at the end again:
rows() / validate_rows() can be run again (checks are reset, rows are validated), but the
following close() silently does nothing, so a violated DistinctCount does not fail.
The same happens when close() was called before the rows were read.
"""
import sys; sys.path.insert(0, "/tmp/audit_C05")
import os, tempfile, warnings
warnings.simplefilter("ignore")
from cutplace import errors, interface, validio

cid = interface.create_cid_from_string("d,format,delimited\nf,a\nc,dc,DistinctCount,a >= 2\n")
path = os.path.join(tempfile.mkdtemp(), "data.csv")
with open(path, "w") as f:
    f.write("1\n1\n")
print("DistinctCount 'a >= 2', data rows: 1, 1")
reader = validio.Reader(cid, path)
violation = False
for run in (1, 2):
    reader.validate_rows()
    try:
        reader.close()
        print("run %d: close() did not fail (accepted rows: %d)" % (run, reader.accepted_rows_count))
        violation = True
    except errors.CheckError as error:
        print("run %d: close() failed as required: %s" % (run, error))
if violation:
    print("VIOLATION: finishing the second validation does not fail although the count is 1")
sys.exit(1 if violation else 0)
