"""
Finding 5: one date cell with an unusual serial number makes a perfectly readable Excel workbook
"damaged": reading stops with a DataFormatError in every mode instead of rejecting that one row.
"""
import sys

sys.path.insert(0, "/tmp/audit_C06")
import warnings

warnings.filterwarnings("ignore")
import os
import tempfile

import xlsxwriter

from cutplace import errors, interface, validio

CID_TEXT = "\n".join(["d,format,excel", "f,name", "f,date_of_birth,,,,DateTime,YYYY-MM-DD"])

folder = tempfile.mkdtemp()
violated = False
for description, odd_serial in (("30 shown by Excel as 1900-01-30", 30), ("negative serial -5", -5)):
    xlsx_path = os.path.join(folder, "dates_%d.xlsx" % abs(odd_serial))
    workbook = xlsxwriter.Workbook(xlsx_path)
    worksheet = workbook.add_worksheet()
    date_format = workbook.add_format({"num_format": "yyyy-mm-dd"})
    for row_index, (name, serial) in enumerate((("alice", 40000), ("bob", odd_serial), ("carol", 40001))):
        worksheet.write_string(row_index, 0, name)
        worksheet.write_number(row_index, 1, serial, date_format)
    workbook.close()
    print("workbook with 3 rows, date cell of row 2 holds %s" % description)
    for on_error in ("yield", "continue", "raise"):
        cid = interface.create_cid_from_string(CID_TEXT)
        reader = validio.Reader(cid, xlsx_path, on_error=on_error)
        produced = []
        try:
            for item in reader.rows():
                produced.append(item)
            outcome = "complete pass"
        except errors.DataFormatError as error:
            outcome = "DataFormatError: %s" % error
            if on_error in ("yield", "continue"):
                violated = True
        except errors.DataError as error:
            outcome = "%s: %s" % (type(error).__name__, error)
        print("  %-8s -> %s" % (on_error, outcome))
        print("              produced %r" % [str(item) for item in produced])
        print(
            "              accepted=%d rejected=%d (3 data rows)"
            % (reader.accepted_rows_count, reader.rejected_rows_count)
        )
        if on_error in ("yield", "continue"):
            if reader.accepted_rows_count + reader.rejected_rows_count != 3:
                violated = True

print("VIOLATION PRESENT" if violated else "no violation")
sys.exit(1 if violated else 0)
