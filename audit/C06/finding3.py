"""
Finding 3: a second pass of Reader.rows() over the same data reports the same rejected rows at
different (non existing) locations, because the reader's location is never rewound.
"""
import sys

sys.path.insert(0, "/tmp/audit_C06")
import warnings

warnings.filterwarnings("ignore")
import os
import tempfile

from cutplace import errors, interface, validio

CID_TEXT = "\n".join(["d,format,delimited", "d,encoding,ascii", "f,id,,,,Integer", "f,name"])
folder = tempfile.mkdtemp()
data_path = os.path.join(folder, "data.csv")
with open(data_path, "w", newline="") as data_file:
    data_file.write("1,x\nq,y\n2,z\n")
print("data (3 rows, row 2 is rejected): '1,x' / 'q,y' / '2,z'")

violated = False

print("--- on_error='yield', two passes with the same Reader")
cid = interface.create_cid_from_string(CID_TEXT)
reader = validio.Reader(cid, data_path, on_error="yield")
passes = []
for pass_number in (1, 2):
    produced = [str(item) for item in reader.rows()]
    passes.append(produced)
    print("  pass %d: %r" % (pass_number, produced))
if passes[0] != passes[1]:
    print("  -> same CID, same data, same mode, different data errors")
    violated = True

print("--- on_error='raise', two passes with the same Reader")
cid = interface.create_cid_from_string(CID_TEXT)
reader = validio.Reader(cid, data_path, on_error="raise")
raised = []
for pass_number in (1, 2):
    try:
        for _ in reader.rows():
            pass
        raised.append(None)
    except errors.DataError as error:
        raised.append(str(error))
    print("  pass %d raises: %s" % (pass_number, raised[-1]))
if raised[0] != raised[1]:
    print("  -> the error of the second pass points to row %s of a file with 3 rows" % raised[1].split("(")[1].split(")")[0])
    violated = True

print("VIOLATION PRESENT" if violated else "no violation")
sys.exit(1 if violated else 0)
