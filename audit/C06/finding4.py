"""
Finding 4: the state of the checks lives in the Cid, so two Readers for the same CID and data that
run at the same time (here: 'yield' and 'continue' side by side) do not agree on the accepted rows.
"""
import sys

sys.path.insert(0, "/tmp/audit_C06")
import warnings

warnings.filterwarnings("ignore")
import io
import itertools

from cutplace import interface, validio

CID_TEXT = "\n".join(
    ["d,format,delimited", "d,encoding,ascii", "f,id,,,,Integer", "f,name", "c,id must be unique,IsUnique,id"]
)
DATA_TEXT = "1,x\n2,y\n3,z\n"
print("data: '1,x' / '2,y' / '3,z' (all ids distinct, so every row has to be accepted)")

cid = interface.create_cid_from_string(CID_TEXT)
yield_reader = validio.Reader(cid, io.StringIO(DATA_TEXT), on_error="yield")
continue_reader = validio.Reader(cid, io.StringIO(DATA_TEXT), on_error="continue")

yield_items = []
continue_items = []
for yield_item, continue_item in itertools.zip_longest(yield_reader.rows(), continue_reader.rows()):
    if yield_item is not None:
        yield_items.append(yield_item)
    if continue_item is not None:
        continue_items.append(continue_item)

print("'yield' produced:")
for item in yield_items:
    print("   ", item)
print("'continue' produced:")
for item in continue_items:
    print("   ", item)
print(
    "counters: yield %d+%d, continue %d+%d"
    % (
        yield_reader.accepted_rows_count,
        yield_reader.rejected_rows_count,
        continue_reader.accepted_rows_count,
        continue_reader.rejected_rows_count,
    )
)

accepted_by_yield = [item for item in yield_items if not isinstance(item, Exception)]
expected = [["1", "x"], ["2", "y"], ["3", "z"]]
violated = (accepted_by_yield != continue_items) or (accepted_by_yield != expected)
print("VIOLATION PRESENT" if violated else "no violation")
sys.exit(1 if violated else 0)
