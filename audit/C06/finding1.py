"""
Finding 1: a short fixed record is swallowed together with its line delimiter
instead of stopping with a DataFormatError.
"""
import sys

sys.path.insert(0, "/tmp/audit_C06")
import warnings

warnings.filterwarnings("ignore")
import io
import logging
import os
import tempfile

from cutplace import applications, errors, interface, validio

CID_TEXT = "\n".join(
    [
        "d,format,fixed",
        "d,encoding,ascii",
        "d,line delimiter,%s",
        "f,customer_id,,,3",
        "f,surname,,,3",
    ]
)

# (line delimiter property, data, description)
CASES = [
    ("lf", "abcdef\nabcde\n", "last record has 5 instead of 6 characters"),
    ("any", "abcdef\r\nabcd\r\n", "Windows file, last record has 4 instead of 6 characters"),
    ("crlf", "abcdef\r\nabcd\r\n", "crlf, last record has 4 instead of 6 characters"),
    ("lf", "abcde\n\nabcdef\n", "short record in the middle followed by an empty line"),
]

violated = False
for line_delimiter, data_text, description in CASES:
    cid_text = CID_TEXT % line_delimiter
    print("line delimiter=%s, data=%r (%s)" % (line_delimiter, data_text, description))
    for on_error in ("yield", "continue", "raise"):
        cid = interface.create_cid_from_string(cid_text)
        reader = validio.Reader(cid, io.StringIO(data_text), on_error=on_error)
        try:
            produced = list(reader.rows())
            print(
                "  %-8s -> NO DataFormatError; produced %r; accepted=%d, rejected=%d"
                % (on_error, produced, reader.accepted_rows_count, reader.rejected_rows_count)
            )
            violated = True
        except errors.DataFormatError as error:
            print("  %-8s -> DataFormatError (as required): %s" % (on_error, error))

# The same through the command line.
folder = tempfile.mkdtemp()
cid_path = os.path.join(folder, "cid_fixed.csv")
data_path = os.path.join(folder, "short.txt")
with open(cid_path, "w", newline="") as cid_file:
    cid_file.write(CID_TEXT % "lf")
with open(data_path, "w", newline="") as data_file:
    data_file.write("abcdef\nabcde\n")
logging.basicConfig(level=logging.INFO, stream=sys.stdout)
exit_code = applications.main(["cutplace", cid_path, data_path])
print("command line exit code for data 'abcdef\\nabcde\\n': %d (expected 1)" % exit_code)
if exit_code == 0:
    violated = True

print("VIOLATION PRESENT" if violated else "no violation")
sys.exit(1 if violated else 0)
