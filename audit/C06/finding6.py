"""
Finding 6: a DateTime rule that uses a place holder twice is accepted by the CID but every value is
then answered with re.error - in all three modes - instead of a data error per rejected row.
"""
import sys

sys.path.insert(0, "/tmp/audit_C06")
import warnings

warnings.filterwarnings("ignore")
import io
import logging
import os
import tempfile

from cutplace import applications, errors, interface, validio

CID_TEXT = "\n".join(
    ["d,format,delimited", "d,encoding,ascii", "f,id,,,,Integer", "f,valid_from_to,,,,DateTime,DD.MM.-DD.MM.YYYY"]
)
DATA_TEXT = "1,01.02.-28.02.2020\n2,x\n3,01.03.-31.03.2020\n"
print("rule of field 'valid_from_to': DD.MM.-DD.MM.YYYY; data rows: %r" % DATA_TEXT.splitlines())

violated = False
try:
    interface.create_cid_from_string(CID_TEXT)
except errors.InterfaceError as error:
    print("CID is refused (fine): %s" % error)
    print("no violation")
    sys.exit(0)
print("CID is accepted")

for on_error in ("yield", "continue", "raise"):
    cid = interface.create_cid_from_string(CID_TEXT)
    reader = validio.Reader(cid, io.StringIO(DATA_TEXT), on_error=on_error)
    produced = []
    try:
        for item in reader.rows():
            produced.append(str(item))
        outcome = "complete pass, accepted=%d, rejected=%d" % (reader.accepted_rows_count, reader.rejected_rows_count)
    except errors.DataError as error:
        outcome = "%s: %s" % (type(error).__name__, error)
    except Exception as error:
        outcome = "UNEXPECTED %s.%s: %s" % (type(error).__module__, type(error).__name__, error)
        violated = True
    print("  %-8s -> produced %r; %s" % (on_error, produced, outcome))

folder = tempfile.mkdtemp()
cid_path = os.path.join(folder, "cid.csv")
data_path = os.path.join(folder, "data.csv")
with open(cid_path, "w", newline="") as cid_file:
    cid_file.write(CID_TEXT)
with open(data_path, "w", newline="") as data_file:
    data_file.write(DATA_TEXT)
logging.disable(logging.CRITICAL)  # keep the traceback of the command line out of the output
exit_code = applications.main(["cutplace", cid_path, data_path])
print("command line exit code: %d (1 = data rejected, 4 = 'something unexpected happened')" % exit_code)
if exit_code == 4:
    violated = True

print("VIOLATION PRESENT" if violated else "no violation")
sys.exit(1 if violated else 0)
