"""
Finding 2: ODS rows declared with table:number-rows-repeated are read only once, so rejected rows
yield fewer errors than there are rejected rows and the counters do not add up to the number of
data rows.
"""
import sys

sys.path.insert(0, "/tmp/audit_C06")
import warnings

warnings.filterwarnings("ignore")
import os
import tempfile
import zipfile

from cutplace import errors, interface, validio

NAMESPACES = (
    'xmlns:office="urn:oasis:names:tc:opendocument:xmlns:office:1.0" '
    'xmlns:table="urn:oasis:names:tc:opendocument:xmlns:table:1.0" '
    'xmlns:text="urn:oasis:names:tc:opendocument:xmlns:text:1.0"'
)


def cell_xml(text):
    return '<table:table-cell office:value-type="string"><text:p>%s</text:p></table:table-cell>' % text


def row_xml(cells, repeated=None):
    attributes = "" if repeated is None else ' table:number-rows-repeated="%d"' % repeated
    return "<table:table-row%s>%s</table:table-row>" % (attributes, "".join(cell_xml(cell) for cell in cells))


def write_ods(path, rows_xml):
    content = (
        '<?xml version="1.0" encoding="UTF-8"?>'
        '<office:document-content %s office:version="1.2"><office:body><office:spreadsheet>'
        '<table:table table:name="Sheet1">%s</table:table>'
        "</office:spreadsheet></office:body></office:document-content>"
    ) % (NAMESPACES, rows_xml)
    with zipfile.ZipFile(path, "w") as ods_zip:
        ods_zip.writestr("mimetype", "application/vnd.oasis.opendocument.spreadsheet")
        ods_zip.writestr("content.xml", content)


CID_TEXT = "\n".join(["d,format,ods", "f,id,,,,Integer", "f,name"])

folder = tempfile.mkdtemp()
ods_path = os.path.join(folder, "repeated.ods")
# What a spreadsheet application stores for 6 rows: 1,x / q,y / q,y / q,y / 2,z / 2,z
# (adjacent identical rows are stored once with table:number-rows-repeated).
write_ods(ods_path, row_xml(["1", "x"]) + row_xml(["q", "y"], 3) + row_xml(["2", "z"], 2))
DATA_ROW_COUNT = 6
EXPECTED_ACCEPTED = [["1", "x"], ["2", "z"], ["2", "z"]]
EXPECTED_ERROR_COUNT = 3
print("sheet holds %d data rows: 1,x / q,y / q,y / q,y / 2,z / 2,z ('q' is no Integer)" % DATA_ROW_COUNT)

violated = False
for on_error in ("yield", "continue"):
    cid = interface.create_cid_from_string(CID_TEXT)
    reader = validio.Reader(cid, ods_path, on_error=on_error)
    produced = list(reader.rows())
    accepted = [item for item in produced if not isinstance(item, Exception)]
    rejected = [item for item in produced if isinstance(item, Exception)]
    counter_sum = reader.accepted_rows_count + reader.rejected_rows_count
    print("on_error=%s:" % on_error)
    print("  accepted rows: %r (expected %r)" % (accepted, EXPECTED_ACCEPTED))
    if on_error == "yield":
        print("  errors: %r (expected %d)" % ([str(error) for error in rejected], EXPECTED_ERROR_COUNT))
        if len(rejected) != EXPECTED_ERROR_COUNT:
            violated = True
    print(
        "  accepted_rows_count + rejected_rows_count = %d + %d = %d (expected %d)"
        % (reader.accepted_rows_count, reader.rejected_rows_count, counter_sum, DATA_ROW_COUNT)
    )
    if accepted != EXPECTED_ACCEPTED or counter_sum != DATA_ROW_COUNT:
        violated = True

print("VIOLATION PRESENT" if violated else "no violation")
sys.exit(1 if violated else 0)
