"""
A DateTime field whose rule repeats a place holder (for example DD.MM.DD or YYYY-YYYY) is
accepted when the CID is loaded, but validating any non empty value with it raises re.error
from time.strptime(). The command exits with 4 instead of 1.
"""
import os
import subprocess
import sys
import tempfile

ROOT = "/tmp/audit_C18"
sys.path.insert(0, ROOT)
import cutplace  # noqa: E402
from cutplace import errors  # noqa: E402


def cli(*args):
    code = (
        "import sys; sys.path.insert(0, %r); "
        "from cutplace.applications import main_for_script; main_for_script()" % ROOT
    )
    process = subprocess.run([sys.executable, "-c", code] + list(args), capture_output=True, text=True, cwd=ROOT)
    return process.returncode, (process.stderr.strip().splitlines() or [""])[-1]


violations = 0
with tempfile.TemporaryDirectory() as folder:
    for rule, value in [("DD.MM.DD", "01.02.03"), ("YYYY-YYYY", "2000-2001"), ("hh:mm:mm", "x")]:
        cid_path = os.path.join(folder, "cid.csv")
        with open(cid_path, "w") as cid_file:
            cid_file.write("d,format,delimited\nf,some_date,,,,DateTime,%s\n" % rule)
        data_path = os.path.join(folder, "data.csv")
        with open(data_path, "w") as data_file:
            data_file.write(value + "\n")
        cid_only_exit_code, _ = cli(cid_path)
        exit_code, message = cli(cid_path, data_path)
        try:
            cutplace.validate(cutplace.Cid(cid_path), data_path)
            api_result = "accepted"
        except errors.CutplaceError as error:
            api_result = "rejected with %s" % type(error).__name__
        except Exception as error:
            api_result = "raised non cutplace error %s: %s" % (type(error).__name__, error)
        # The file is not accepted by the API, so the only exit code the property allows is 1.
        is_violation = (exit_code != 1) if api_result != "accepted" else (exit_code != 0)
        violations += is_violation
        print(
            "rule %r, value %r: 'cutplace CID' -> exit %d; 'cutplace CID DATA' -> exit %d; API: %s%s\n    %s"
            % (rule, value, cid_only_exit_code, exit_code, api_result, "   <== VIOLATION" if is_violation else "", message)
        )
print("violations: %d" % violations)
sys.exit(1 if violations else 0)
