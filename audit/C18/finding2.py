"""
An empty string as CID path or data path makes the command exit with 4 (internal error,
AssertionError in errors.Location) instead of 3 (file cannot be read) or 2 (unusable argument).
"""
import os
import subprocess
import sys
import tempfile

ROOT = "/tmp/audit_C18"


def cli(*args):
    code = (
        "import sys; sys.path.insert(0, %r); "
        "from cutplace.applications import main_for_script; main_for_script()" % ROOT
    )
    process = subprocess.run([sys.executable, "-c", code] + list(args), capture_output=True, text=True, cwd=ROOT)
    last_lines = (process.stderr.strip().splitlines() or [""])[-2:]
    return process.returncode, " | ".join(last_lines)


violations = 0
with tempfile.TemporaryDirectory() as folder:
    cid_path = os.path.join(folder, "cid.csv")
    with open(cid_path, "w") as cid_file:
        cid_file.write("d,format,delimited\nf,a\n")
    good_path = os.path.join(folder, "good.csv")
    with open(good_path, "w") as good_file:
        good_file.write("x\n")
    for description, args in [
        ('cutplace ""', [""]),
        ('cutplace cid.csv ""', [cid_path, ""]),
        ('cutplace cid.csv good.csv ""', [cid_path, good_path, ""]),
        ('cutplace --until 0 cid.csv ""', ["--until", "0", cid_path, ""]),
    ]:
        exit_code, message = cli(*args)
        is_violation = exit_code not in (2, 3)
        violations += is_violation
        print(
            "%s -> exit %d (expected 3, or 2)%s\n    %s"
            % (description, exit_code, "   <== VIOLATION" if is_violation else "", message)
        )
print("violations: %d" % violations)
sys.exit(1 if violations else 0)
