"""
A CID stored as ODS in which a cell contains partially formatted text or a hyperlink
(<text:p><text:span>...</text:span></text:p>, which is what LibreOffice writes for such
cells) makes rowio.ods_rows() deliver None for that cell. Reading the CID then dies with
AttributeError / AssertionError and the command exits with 4 instead of 0 or 1.
"""
import os
import subprocess
import sys
import tempfile
import zipfile

ROOT = "/tmp/audit_C18"
sys.path.insert(0, ROOT)

_NAMESPACES = (
    'xmlns:office="urn:oasis:names:tc:opendocument:xmlns:office:1.0" '
    'xmlns:table="urn:oasis:names:tc:opendocument:xmlns:table:1.0" '
    'xmlns:text="urn:oasis:names:tc:opendocument:xmlns:text:1.0"'
)


def cli(*args):
    code = (
        "import sys; sys.path.insert(0, %r); "
        "from cutplace.applications import main_for_script; main_for_script()" % ROOT
    )
    process = subprocess.run([sys.executable, "-c", code] + list(args), capture_output=True, text=True, cwd=ROOT)
    return process.returncode, (process.stderr.strip().splitlines() or [""])[-1]


def write_ods(path, rows):
    content = '<?xml version="1.0" encoding="UTF-8"?><office:document-content %s>' % _NAMESPACES
    content += '<office:body><office:spreadsheet><table:table table:name="cid">'
    for row in rows:
        content += "<table:table-row>"
        for cell in row:
            content += "<table:table-cell>%s</table:table-cell>" % cell
        content += "</table:table-row>"
    content += "</table:table></office:spreadsheet></office:body></office:document-content>"
    with zipfile.ZipFile(path, "w") as ods_zip:
        ods_zip.writestr("content.xml", content)


def plain(text):
    return "<text:p>%s</text:p>" % text


def span(text):
    return '<text:p><text:span text:style-name="T1">%s</text:span></text:p>' % text


violations = 0
with tempfile.TemporaryDirectory() as folder:
    variants = [
        ("row type cell 'd' formatted", [[span("d"), plain("format"), plain("delimited")], [plain("f"), plain("a")]]),
        ("format value formatted", [[plain("d"), plain("format"), span("delimited")], [plain("f"), plain("a")]]),
        ("field name formatted", [[plain("d"), plain("format"), plain("delimited")], [plain("f"), span("a")]]),
        (
            "check rule formatted",
            [
                [plain("d"), plain("format"), plain("delimited")],
                [plain("f"), plain("a")],
                [plain("c"), plain("a must be unique"), plain("IsUnique"), span("a")],
            ],
        ),
        (
            "comment row with formatted first cell",
            [[plain("d"), plain("format"), plain("delimited")], [plain("f"), plain("a")], [span("see http://x.invalid")]],
        ),
    ]
    for index, (description, rows) in enumerate(variants):
        cid_path = os.path.join(folder, "cid%d.ods" % index)
        write_ods(cid_path, rows)
        exit_code, message = cli(cid_path)
        is_violation = exit_code not in (0, 1)
        violations += is_violation
        print(
            "%s: 'cutplace cid.ods' -> exit %d (expected 0, or 1 if such cells are rejected)%s\n    %s"
            % (description, exit_code, "   <== VIOLATION" if is_violation else "", message)
        )
print("violations: %d" % violations)
sys.exit(1 if violations else 0)
