"""
'--until N' does not have the same effect as the validation limit of cutplace.validate():
the command line keeps reading the whole file after the limit, cutplace.validate() stops
reading. A file that is structurally broken (or not even parseable) after the limit is
accepted by the API but makes the command exit with 1.
"""
import os
import subprocess
import sys
import tempfile

ROOT = "/tmp/audit_C18"
sys.path.insert(0, ROOT)
import cutplace  # noqa: E402


def cli(*args):
    code = (
        "import sys; sys.path.insert(0, %r); "
        "from cutplace.applications import main_for_script; main_for_script()" % ROOT
    )
    process = subprocess.run([sys.executable, "-c", code] + list(args), capture_output=True, text=True, cwd=ROOT)
    return process.returncode


def api_accepts(cid_path, data_path, until):
    cid = cutplace.Cid(cid_path)
    try:
        cutplace.validate(cid, data_path, validate_until=until)
        return True, ""
    except Exception as error:
        return False, "%s: %s" % (type(error).__name__, error)


def write(folder, name, content):
    path = os.path.join(folder, name)
    with open(path, "w", newline="", encoding="utf-8") as target:
        target.write(content)
    return path


violations = 0
with tempfile.TemporaryDirectory() as folder:
    delimited_cid = write(folder, "cid_delimited.csv", "d,format,delimited\nf,a,,,1...3,Integer\n")
    fixed_cid = write(folder, "cid_fixed.csv", "d,format,fixed\nf,a,,,3,Integer\n")
    excel_cid = write(folder, "cid_excel.csv", "d,format,excel\nf,a\n")
    scenarios = [
        # (description, cid, data file content, until)
        ("delimited, row 3 has an unterminated quote", delimited_cid, '1\n2\n"3\n', 1),
        ("delimited, row 3 has an unterminated quote", delimited_cid, '1\n2\n"3\n', 2),
        ("delimited, row 3 has an unterminated quote", delimited_cid, '1\n2\n"3\n', 0),
        ("fixed, row 2 is too short", fixed_cid, "123\n45", 1),
        ("excel CID, data is no Excel file at all", excel_cid, "this is no excel file\n", 0),
    ]
    for index, (description, cid_path, content, until) in enumerate(scenarios):
        data_path = write(folder, "data%d.txt" % index, content)
        exit_code = cli("--until", str(until), cid_path, data_path)
        accepted, reason = api_accepts(cid_path, data_path, until)
        is_violation = (exit_code == 0) != accepted
        violations += is_violation
        print(
            "%s: until=%d: data=%r\n    cutplace --until %d CID DATA -> exit %d; "
            "cutplace.validate(cid, data, validate_until=%d) -> %s%s"
            % (
                description,
                until,
                content,
                until,
                exit_code,
                until,
                "accepted" if accepted else "rejected (" + reason + ")",
                "   <== VIOLATION" if is_violation else "",
            )
        )

print("violations: %d" % violations)
sys.exit(1 if violations else 0)
