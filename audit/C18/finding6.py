"""
Perfectly usable arguments are refused with exit code 2 as soon as an option stands between
the CID and the data files (or between data files): 'cutplace cid.csv --until 1 data.csv'.
The same arguments in another order work.
"""
import os
import subprocess
import sys
import tempfile

ROOT = "/tmp/audit_C18"


def cli(*args):
    code = (
        "import sys; sys.path.insert(0, %r); "
        "from cutplace.applications import main_for_script; main_for_script()" % ROOT
    )
    process = subprocess.run([sys.executable, "-c", code] + list(args), capture_output=True, text=True, cwd=ROOT)
    return process.returncode, (process.stderr.strip().splitlines() or [""])[-1]


violations = 0
with tempfile.TemporaryDirectory() as folder:
    cid_path = os.path.join(folder, "cid.csv")
    with open(cid_path, "w") as cid_file:
        cid_file.write("d,format,delimited\nf,a,,,,Integer\n")
    good_path = os.path.join(folder, "good.csv")
    with open(good_path, "w") as good_file:
        good_file.write("1\n2\n")
    bad_path = os.path.join(folder, "bad.csv")
    with open(bad_path, "w") as bad_file:
        bad_file.write("1\nx\n")
    for reference_args, intermixed_args in [
        (["--until", "1", cid_path, good_path], [cid_path, "--until", "1", good_path]),
        (["--until", "1", cid_path, bad_path], [cid_path, "--until", "1", bad_path]),
        (["--log", "error", cid_path, bad_path], [cid_path, "--log", "error", bad_path]),
        (["--until", "5", cid_path, good_path, bad_path], [cid_path, good_path, "--until", "5", bad_path]),
    ]:
        reference_exit_code, _ = cli(*reference_args)
        exit_code, message = cli(*intermixed_args)
        is_violation = exit_code != reference_exit_code
        violations += is_violation
        shorten = lambda args: " ".join(os.path.basename(arg) for arg in args)  # noqa: E731
        print(
            "cutplace %s -> exit %d;   cutplace %s -> exit %d%s\n    %s"
            % (
                shorten(reference_args),
                reference_exit_code,
                shorten(intermixed_args),
                exit_code,
                "   <== VIOLATION" if is_violation else "",
                message,
            )
        )
print("violations: %d" % violations)
sys.exit(1 if violations else 0)
