"""
A check rule in which a field name is preceded or followed by a non ASCII blank (for example
the no-break space U+00A0 that spreadsheets and web pages like to produce) makes reading the
CID die with an AssertionError: exit code 4 instead of 1.
Related: a CID cell that contains a carriage return followed by a non ASCII character dies
with UnicodeDecodeError in Python 3.12's tokenizer: exit code 4 instead of 1.
"""
import os
import subprocess
import sys
import tempfile

ROOT = "/tmp/audit_C18"
sys.path.insert(0, ROOT)
import cutplace  # noqa: E402
from cutplace import errors  # noqa: E402


def cli(*args):
    code = (
        "import sys; sys.path.insert(0, %r); "
        "from cutplace.applications import main_for_script; main_for_script()" % ROOT
    )
    process = subprocess.run([sys.executable, "-c", code] + list(args), capture_output=True, text=True, cwd=ROOT)
    return process.returncode, (process.stderr.strip().splitlines() or [""])[-1]


NBSP = "\u00a0"
variants = [
    ("DistinctCount rule starting with NBSP", "d,format,delimited\nf,a\nc,chk,DistinctCount,%sa == 1\n" % NBSP),
    ("IsUnique rule with NBSP after the comma", 'd,format,delimited\nf,a\nf,b\nc,chk,IsUnique,"a,%sb"\n' % NBSP),
    ("IsUnique rule with trailing NBSP", "d,format,delimited\nf,a\nc,chk,IsUnique,a%s\n" % NBSP),
    ("IsUnique rule with ideographic space", "d,format,delimited\nf,a\nc,chk,IsUnique,\u3000a\n"),
    ("length with CR + umlaut", 'd,format,delimited\nf,a,,,"1...\r\u00e4"\n'),
    ("IsUnique rule with CR + umlaut", 'd,format,delimited\nf,a\nc,chk,IsUnique,"a\r\u00e4"\n'),
]
violations = 0
with tempfile.TemporaryDirectory() as folder:
    for index, (description, cid_text) in enumerate(variants):
        cid_path = os.path.join(folder, "cid%d.csv" % index)
        with open(cid_path, "w", encoding="utf-8", newline="") as cid_file:
            cid_file.write(cid_text)
        exit_code, message = cli(cid_path)
        try:
            cutplace.Cid(cid_path)
            api_result = "CID loads"
        except errors.CutplaceError as error:
            api_result = "CID rejected with %s" % type(error).__name__
        except Exception as error:
            api_result = "non cutplace error %s" % type(error).__name__
        expected_exit_code = 0 if api_result == "CID loads" else 1
        is_violation = exit_code != expected_exit_code
        violations += is_violation
        print(
            "%s: %r\n    'cutplace cid.csv' -> exit %d (expected %d); API: %s%s\n    %s"
            % (
                description,
                cid_text,
                exit_code,
                expected_exit_code,
                api_result,
                "   <== VIOLATION" if is_violation else "",
                message,
            )
        )
print("violations: %d" % violations)
sys.exit(1 if violations else 0)
