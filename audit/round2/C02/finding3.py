"""
DateTime accepts times that do not exist: seconds 60 and 61 at any time of any
day (time.strptime()'s %S takes 00..61). The returned time tuple has tm_sec 60 / 61.
"""
import sys

sys.path.insert(0, "/tmp/audit2_C02")
import datetime
import io
import warnings

warnings.simplefilter("ignore")

from cutplace import errors, interface, validio

CASES = [
    ("hh:mm:ss", "10:00:61"),
    ("hh:mm:ss", "10:00:60"),
    ("DD/MM/YYYY hh:mm:ss", "01/02/2000 23:59:61"),
    ("YYYY-MM-DD hh:mm:ss", "2021-03-04 12:30:60"),
]
violation_count = 0
for rule, cell in CASES:
    cid = interface.create_cid_from_string("D,Format,Delimited\nF,x,,,,DateTime,%s\n" % rule)
    field = cid.field_formats[0]
    print("DateTime field with rule %r; cell %r" % (rule, cell))
    try:
        result = field.validated(cell)
        violation_count += 1
        print("  ACCEPTED, result %r" % (tuple(result),))
        try:
            datetime.datetime(*result[:6])
        except ValueError as error:
            print("  datetime.datetime(*result[:6]) -> ValueError: %s" % error)
    except errors.FieldValueError as error:
        print("  rejected: %s" % error)

cid = interface.create_cid_from_string("D,Format,Delimited\nF,x,,,,DateTime,hh:mm:ss\n")
try:
    validio.validate(cid, io.StringIO("10:00:61\r\n"))
    violation_count += 1
    print("cutplace.validate() of row '10:00:61' with rule hh:mm:ss: ACCEPTED")
except errors.DataError as error:
    print("cutplace.validate(): rejected: %s" % error)

# Remark (not counted): without a year the tuple returned for 29.02 is 1900-02-29, a day that never existed.
cid = interface.create_cid_from_string("D,Format,Delimited\nF,x,,,,DateTime,DD.MM\n")
print("remark: rule 'DD.MM', cell '29.02' -> %r" % (tuple(cid.field_formats[0].validated("29.02")),))

if violation_count:
    print("VIOLATION: %d cells that are no real time of day are accepted" % violation_count)
    sys.exit(1)
print("ok")
sys.exit(0)
