"""
Integer: an integer literal with more than 4300 digits that lies inside the
rule's range is rejected as "must be an integer number" (CPython's limit for
str -> int conversion, sys.get_int_max_str_digits()).
"""
import sys

sys.path.insert(0, "/tmp/audit2_C02")
import warnings

warnings.simplefilter("ignore")

from cutplace import errors, interface

violation_count = 0
for rule, cell in [("0...", "1" * 4300), ("0...", "1" * 4301), ("...0", "-" + "9" * 5000), ("0...", "0" * 4400 + "7")]:
    cid = interface.create_cid_from_string("D,Format,Delimited\nF,x,,,,Integer,%s\n" % rule)
    field = cid.field_formats[0]
    cell_text = "%s...%s (%d characters)" % (cell[:4], cell[-3:], len(cell))
    print("Integer field with rule %r; cell %s" % (rule, cell_text))
    try:
        result = field.validated(cell)
        print("  accepted, result has %d bits" % result.bit_length())
    except errors.FieldValueError as error:
        violation_count += 1
        print("  REJECTED: %s" % (str(error)[:60] + "..."))

if violation_count:
    print("VIOLATION: %d integer literals inside the range of the rule are rejected" % violation_count)
    sys.exit(1)
print("ok")
sys.exit(0)
