"""
Integer field with only a length (no rule): integers whose text fits the length
but has leading zeros are rejected, because the length is turned into a numeric
range with a lower bound (length 3 -> -99...-10, 100...999).
"""
import sys

sys.path.insert(0, "/tmp/audit2_C02")
import io
import warnings

warnings.simplefilter("ignore")

from cutplace import errors, interface, validio

CASES = [
    # (length, cell)
    ("3", "007"),
    ("3", "-07"),
    ("3", "000"),
    ("2...3", "05"),
    ("2...3", "007"),
    ("3...", "0042"),
    ("1, 3", "-07"),
]

violation_count = 0
for length, cell in CASES:
    cid_text = "D,Format,Delimited\nF,x,,,%s,Integer,\n" % ('"%s"' % length)
    cid = interface.create_cid_from_string(cid_text)
    field = cid.field_formats[0]
    print("Integer field, length %r, no rule (derived range: %s); cell %r (%d characters, int() = %d)" % (
        length, field.valid_range, cell, len(cell), int(cell)))
    try:
        result = field.validated(cell)
        print("  accepted, result %r" % result)
    except errors.FieldValueError as error:
        violation_count += 1
        print("  REJECTED: %s" % error)

# Same through the reader.
cid = interface.create_cid_from_string("D,Format,Delimited\nF,x,,,3,Integer,\n")
try:
    validio.validate(cid, io.StringIO("100\r\n007\r\n"))
    print("cutplace.validate() of rows '100', '007' with length 3: accepted")
except errors.DataError as error:
    violation_count += 1
    print("cutplace.validate() of rows '100', '007' with length 3: REJECTED: %s" % error)

if violation_count:
    print("VIOLATION: %d integer literals whose text fits the length are rejected" % violation_count)
    sys.exit(1)
print("ok")
sys.exit(0)
