"""
DateTime does not hold the cell to the layout of the rule: one-digit parts are
taken for DD / MM / hh / mm / ss (ambiguous without separators), a blank in the
rule matches any run of any white space, letters of the rule match in either case.
"""
import sys

sys.path.insert(0, "/tmp/audit2_C02")
import warnings

warnings.simplefilter("ignore")

from cutplace import errors, interface

CASES = [
    # (rule, cell, why the cell is not in the layout)
    ("hhmmss", "123", "3 characters instead of 6"),
    ("DDMMYYYY", "112000", "6 characters instead of 8"),
    ("DDMMYYYY", "1122000", "7 characters; 11 February or 1 December?"),
    ("YYYYMMDD", "2000111", "7 characters; 1 November or 11 January?"),
    ("YYYY-MM-DD hh:mm", "2000-1-1 7:5", "one digit month, day, hour and minute"),
    ("YYYY-MM-DD hh:mm", "2000-01-01\n10:00", "line feed instead of the blank"),
    ("YYYY-MM-DD hh:mm", "2000-01-01 \t 　 10:00", "5 white space characters instead of the blank"),
    ("YYYY-MM-DDThh:mm:ssZ", "2000-01-01t10:00:00z", "lower case t and z"),
]
violation_count = 0
for rule, cell, remark in CASES:
    cid = interface.create_cid_from_string('D,Format,Delimited\nF,x,,,,DateTime,"%s"\n' % rule)
    field = cid.field_formats[0]
    print("DateTime field with rule %r; cell %r (%s)" % (rule, cell, remark))
    try:
        result = field.validated(cell)
        violation_count += 1
        print("  ACCEPTED, result %r" % (tuple(result)[:6],))
    except errors.FieldValueError as error:
        print("  rejected: %s" % error)

if violation_count:
    print("VIOLATION: %d cells that are not in the layout of the rule are accepted" % violation_count)
    sys.exit(1)
print("ok")
sys.exit(0)
