"""
The example cell of a Decimal field is validated while the field row is read,
i.e. with the decimal / thousands separator declared SO FAR, not with the ones of
the data format of the CID: a data format row after the field row is ignored.
"""
import sys

sys.path.insert(0, "/tmp/audit2_C02")
import io
import warnings

warnings.simplefilter("ignore")

from cutplace import errors, interface, validio

CID_GOOD_EXAMPLE = 'D,Format,Delimited\nD,Item delimiter,;\nF,amount,"1,5",,,Decimal,\nD,Decimal separator,","\n'
CID_BAD_EXAMPLE = 'D,Format,Delimited\nD,Item delimiter,;\nF,amount,1.5,,,Decimal,\nD,Decimal separator,","\n'
CID_REFERENCE = 'D,Format,Delimited\nD,Item delimiter,;\nD,Decimal separator,","\nF,amount,,,,Decimal,\n'

violation_count = 0

cid = interface.create_cid_from_string(CID_REFERENCE)
print("data format: delimited, decimal separator ','; Decimal field 'amount'")
for cell in ("1,5", "1.5"):
    try:
        print("  data cell %r -> accepted as %r" % (cell, cid.field_formats[0].validated(cell)))
    except errors.FieldValueError as error:
        print("  data cell %r -> rejected: %s" % (cell, error))

print("same CID, but the row 'D,Decimal separator' follows the field row, example cell '1,5':")
try:
    cid = interface.create_cid_from_string(CID_GOOD_EXAMPLE)
    print("  CID accepted, example %r" % cid.field_formats[0].example)
    validio.validate(cid, io.StringIO("1,5\r\n"))
except errors.InterfaceError as error:
    violation_count += 1
    print("  CID REFUSED: %s" % error)

print("same, example cell '1.5' (not a number written with the decimal separator ','):")
try:
    cid = interface.create_cid_from_string(CID_BAD_EXAMPLE)
    violation_count += 1
    print("  CID ACCEPTED, example %r" % cid.field_formats[0].example)
    try:
        validio.validate(cid, io.StringIO("1.5\r\n"))
        print("  the same cell as data: accepted")
    except errors.DataError as error:
        print("  the same cell as data: rejected: %s" % error)
except errors.InterfaceError as error:
    print("  CID refused: %s" % error)

if violation_count:
    print("VIOLATION: example cells are judged with separators that are not the ones of the data format")
    sys.exit(1)
print("ok")
sys.exit(0)
