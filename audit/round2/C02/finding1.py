"""
RegEx fields are compiled with re.MULTILINE, so "$" (and an inner "^") match at
every line break: a cell with a second line is accepted although the regular
expression of the rule does not match it.
"""
import sys

sys.path.insert(0, "/tmp/audit2_C02")
import io
import re
import warnings

warnings.simplefilter("ignore")

from cutplace import errors, interface, validio

RULE = "^[0-9]+$"
CID_TEXT = "D,Format,Delimited\nF,code,,,,RegEx,%s\n" % RULE
CELL = "123\nDROP TABLE x"
DATA_TEXT = '"%s"\r\n' % CELL

cid = interface.create_cid_from_string(CID_TEXT)
print("CID: delimited, field 'code' of type RegEx with rule %r" % RULE)
print("cell: %r" % CELL)
print(
    "re.compile(rule, re.IGNORECASE).match(cell) -> %r (the rule ignoring case, matched from the first character)"
    % re.compile(RULE, re.IGNORECASE).match(CELL)
)

is_accepted_by_field = True
try:
    result = cid.field_formats[0].validated(CELL)
    print("field.validated(cell) -> accepted, result %r" % result)
except errors.FieldValueError as error:
    is_accepted_by_field = False
    print("field.validated(cell) -> rejected: %s" % error)

is_accepted_by_reader = True
try:
    validio.validate(interface.create_cid_from_string(CID_TEXT), io.StringIO(DATA_TEXT))
    print("cutplace.validate() of the data %r -> accepted" % DATA_TEXT)
except errors.DataError as error:
    is_accepted_by_reader = False
    print("cutplace.validate() -> rejected: %s" % error)

if is_accepted_by_field or is_accepted_by_reader:
    print("VIOLATION: a cell the regular expression does not match is accepted")
    sys.exit(1)
print("ok: cell is rejected")
sys.exit(0)
