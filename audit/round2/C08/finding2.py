"""
Finding 2 (command line, NOT a carry-over of check state): "cutplace --until 0 CID DATA" cannot
report its result.  Reader.validate_rows() never requests a row when validate_until is 0, so
Reader.accepted_rows_count is still None when CutplaceApp.validate() logs
"  accepted %d rows" -> TypeError inside logging ("--- Logging error ---" and a traceback on
stderr for every data file, the "accepted ..." line is lost).

Exit code 1: defect present, 0: not present.
"""
import sys

sys.path.insert(0, "/tmp/audit2_C08")
import os
import subprocess

work = "/tmp/audit2_C08/out/work"
os.makedirs(work, exist_ok=True)
cid_path = os.path.join(work, "finding2_cid.csv")
data_path = os.path.join(work, "finding2_data.csv")
with open(cid_path, "w") as cid_file:
    cid_file.write("d,format,delimited\nf,id\nc,id_unique,IsUnique,id\n")
with open(data_path, "w") as data_file:
    data_file.write("1\n2\n")

violations = 0
for until in ("0", "1", "-1"):
    command = [sys.executable, "-W", "ignore", "-m", "cutplace.applications", "--until", until, cid_path, data_path]
    print("run:", " ".join(command))
    done = subprocess.run(command, cwd="/tmp/audit2_C08", capture_output=True, text=True)
    has_logging_error = "--- Logging error ---" in done.stderr
    accepted_lines = [line for line in done.stderr.splitlines() if "accepted" in line and line.startswith("INFO")]
    print("  exit code            :", done.returncode)
    print("  'accepted' log lines :", accepted_lines)
    print("  logging error/traceback on stderr:", has_logging_error)
    if has_logging_error or not accepted_lines:
        print("  DEFECT: expected a line 'accepted 0 rows' (or similar) and no traceback")
        violations += 1

# The same through the API the command line uses.
import io
import warnings

warnings.simplefilter("ignore")
from cutplace import interface, validio

cid = interface.create_cid_from_string("d,format,delimited\nf,id\n")
with validio.Reader(cid, io.StringIO("1\n2\n"), validate_until=0) as reader:
    reader.validate_rows()
print("API: Reader(validate_until=0).validate_rows(); accepted_rows_count = %r" % reader.accepted_rows_count)
if reader.accepted_rows_count is None:
    violations += 1

sys.exit(1 if violations else 0)
