"""
Finding 1: validate_row() of the validator base class never resets the checks of the CID.

Only Reader.rows(), Reader.close() (when no row was requested) and Writer.__init__() reset
the IsUnique / DistinctCount bookkeeping.  BaseValidator.validate_row() - the documented way
to "validate a single row" and the only thing a descendant of BaseValidator for another
source of rows has - uses whatever the previous data set left in the checks of the Cid.

Exit code 1: violation present, 0: not present.
"""
import sys

sys.path.insert(0, "/tmp/audit2_C08")
import io
import warnings

warnings.simplefilter("ignore")

from cutplace import errors, interface, validio

CID_TEXT = "d,format,delimited\nf,id\nc,id_unique,IsUnique,id\nc,few_ids,DistinctCount,id < 3\n"


class ListValidator(validio.BaseValidator):
    """A validator for rows that come from a Python list (descendant as described by BaseValidator)."""

    def __init__(self, cid, name):
        super().__init__(cid)
        self._location = errors.Location(name, has_cell=True)  # "has to be set by descendants"

    def outcome(self, rows):
        result = []
        for row in rows:
            try:
                self.validate_row(row)
                result.append("accepted %s" % row)
            except errors.DataError as error:
                result.append("rejected %s: %s" % (row, error))
            self.location.advance_line()
        try:
            self.close()
            result.append("end of data: ok")
        except errors.CheckError as error:
            result.append("end of data: %s" % error)
        return result


def list_run(cid, name, rows):
    return ListValidator(cid, name).outcome(rows)


def reader_validate_row_run(cid, rows):
    """Rows fed to Reader.validate_row() one by one, e.g. rows the application got from elsewhere."""
    reader = validio.Reader(cid, io.StringIO(""))
    result = []
    for row in rows:
        try:
            reader.validate_row(row)
            result.append("accepted %s" % row)
        except errors.DataError as error:
            result.append("rejected %s: %s" % (row, error))
    return result


violations = 0

print("--- A: descendant of BaseValidator, two data sets one after the other on one Cid")
used_cid = interface.create_cid_from_string(CID_TEXT)
first = list_run(used_cid, "first", [["1"], ["2"]])
print("first data set on used Cid  :", first)
second_used = list_run(used_cid, "second", [["1"], ["7"]])
second_fresh = list_run(interface.create_cid_from_string(CID_TEXT), "second", [["1"], ["7"]])
print("second data set on used Cid :", second_used)
print("second data set on fresh Cid:", second_fresh)
if second_used != second_fresh:
    print("VIOLATION: uniqueness / distinct count of the first data set carried over to the second one")
    violations += 1

print("--- B: Reader.validate_row() after a complete, closed validate() on the same Cid")
used_cid = interface.create_cid_from_string(CID_TEXT)
validio.validate(used_cid, io.StringIO("1\n2\n"))  # complete run, closed by validate()
on_used = reader_validate_row_run(used_cid, [["1"]])
on_fresh = reader_validate_row_run(interface.create_cid_from_string(CID_TEXT), [["1"]])
print("on used Cid :", on_used)
print("on fresh Cid:", on_fresh)
if on_used != on_fresh:
    print("VIOLATION: row rejected as duplicate of a row of the previous data set")
    violations += 1

print("--- C (informational, not counted: may be read as 'overlapping' because the Writer object exists early)")
print("    Writer constructed first, then a complete closed validate(), then the writer's first row")
used_cid = interface.create_cid_from_string(CID_TEXT)
writer = validio.Writer(used_cid, io.StringIO())  # resets the checks here, not before its first row
validio.validate(used_cid, io.StringIO("1\n2\n"))
try:
    writer.write_row(["1"])
    print("on used Cid : accepted ['1']")
except errors.DataError as error:
    print("on used Cid : rejected ['1']: %s" % error)
print("on fresh Cid: accepted ['1']  (a Reader constructed early and used later is not affected)")

sys.exit(1 if violations else 0)
