"""
C12 finding 1: after DelimitedRowWriter.write_row() has refused a row with a
DataFormatError ("cannot write data row", the documented error for cells the
encoding cannot store), the rows written AFTERWARDS with the same writer do not
read back: the failed attempt has changed the state of the text encoder of the
target file (shift state of iso2022_jp / hz, "BOM already written" of utf-16 /
utf-32).
Exit code 1 = violation present, 0 = not present.
"""
import sys

sys.path.insert(0, "/tmp/audit2_C12")
import os
import tempfile

from cutplace import errors, interface, rowio


def data_format_for(encoding):
    cid = interface.Cid()
    cid.read("inline", [["D", "Format", "Delimited"], ["D", "Encoding", encoding], ["F", "x"]])
    return cid.data_format


def check(encoding, unwritable_row, good_rows):
    data_format = data_format_for(encoding)
    target_path = os.path.join(tempfile.mkdtemp(), "data.csv")
    written_rows = []
    with rowio.DelimitedRowWriter(target_path, data_format) as writer:
        for row in [unwritable_row] + good_rows:
            try:
                writer.write_row(row)
                written_rows.append(row)
            except errors.DataFormatError as error:
                print("  write_row(%r) refused: %s" % (row, str(error)[:90]))
    with open(target_path, "rb") as target_file:
        print("  bytes written : %r" % target_file.read())
    try:
        read_rows = list(rowio.delimited_rows(target_path, data_format))
    except errors.DataFormatError as error:
        read_rows = "DataFormatError: %s" % error
    print("  rows accepted by write_row(): %r" % written_rows)
    print("  rows read back              : %r" % (read_rows,))
    is_ok = read_rows == written_rows
    print("  -> %s" % ("identical" if is_ok else "DIFFERENT"))
    return is_ok


all_ok = True
print("encoding iso2022_jp; first row has a cell with a EURO SIGN the codec cannot store")
all_ok &= check("iso2022_jp", ["あ€"], [["あ", "abc"], ["abc", "あ"]])
print("encoding hz; first row has a cell with a EURO SIGN the codec cannot store")
all_ok &= check("hz", ["中€"], [["中", "abc"]])
print("encoding utf-16; first row has a cell with a lone surrogate")
all_ok &= check("utf-16", ["\ud800"], [["abc", "def"]])
print("control: the same good rows without a refused row before them")
data_format = data_format_for("iso2022_jp")
control_path = os.path.join(tempfile.mkdtemp(), "control.csv")
control_rows = [["あ", "abc"], ["abc", "あ"]]
with rowio.DelimitedRowWriter(control_path, data_format) as writer:
    writer.write_rows(control_rows)
print("  control identical: %s" % (list(rowio.delimited_rows(control_path, data_format)) == control_rows))

if all_ok:
    print("OK: rows written after a refused row read back identically")
    sys.exit(0)
print("VIOLATION: rows written after a refused row do not read back identically")
sys.exit(1)
