"""
C12 finding 2: the CID loader accepts delimited data formats whose item
delimiter or quote character cannot be stored in the encoding the same CID
declares (or in any encoding at all: lone surrogates). For such a format no
table with two cells in a row / with a cell that needs quoting can be written
to a file, so it cannot be read back.
Exit code 1 = violation present, 0 = not present.
"""
import sys

sys.path.insert(0, "/tmp/audit2_C12")
import os
import tempfile

from cutplace import errors, interface, rowio

CASES = [
    # (description, data format rows after "Format", table)
    ("default encoding (cp1252), item delimiter U+0100", [["D", "Item delimiter", "0x100"]], [["a", "b"]]),
    ("default encoding (cp1252), item delimiter U+2028", [["D", "Item delimiter", "0x2028"]], [["a", "b"]]),
    (
        "encoding ascii, item delimiter 'é'",
        [["D", "Encoding", "ascii"], ["D", "Item delimiter", "é"]],
        [["a", "b"]],
    ),
    (
        "encoding cp864, quote character % (cp864 has no PERCENT SIGN)",
        [["D", "Encoding", "cp864"], ["D", "Quote character", "%"]],
        [["a,b", "line1\nline2"]],
    ),
    (
        "encoding utf-8, item delimiter 0xD800 (lone surrogate, no encoding can store it)",
        [["D", "Encoding", "utf-8"], ["D", "Item delimiter", "0xd800"]],
        [["a", "b"]],
    ),
]

violation_count = 0
for description, format_rows, table in CASES:
    print(description)
    cid = interface.Cid()
    try:
        cid.read("inline", [["D", "Format", "Delimited"]] + format_rows + [["F", "x"]])
    except errors.InterfaceError as error:
        print("  CID refused (fine): %s" % error)
        continue
    data_format = cid.data_format
    print("  CID accepted: %s" % data_format)
    target_path = os.path.join(tempfile.mkdtemp(), "data.csv")
    try:
        with rowio.DelimitedRowWriter(target_path, data_format) as writer:
            writer.write_rows(table)
        read_rows = list(rowio.delimited_rows(target_path, data_format))
    except errors.DataFormatError as error:
        read_rows = "DataFormatError: %s" % error
    print("  table     : %r" % table)
    print("  read back : %r" % (read_rows,))
    if read_rows != table:
        violation_count += 1
        print("  -> DIFFERENT")
    else:
        print("  -> identical")

if violation_count == 0:
    print("OK")
    sys.exit(0)
print("VIOLATION: %d accepted data formats cannot round trip any table with 2 cells / a quoted cell" % violation_count)
sys.exit(1)
