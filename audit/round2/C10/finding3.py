"""
finding3: a CID stored as ODS in which the text of a cell starts with a formatted part (text:span,
text:a, ...) makes rowio.ods_rows() deliver None for this cell; Cid.read() then fails with an
AttributeError and the command line exits with 4.
"""
import sys

sys.path.insert(0, "/tmp/audit2_C10")
import os
import subprocess
import tempfile
import warnings
import zipfile
from xml.sax.saxutils import escape

warnings.simplefilter("ignore")
from cutplace import errors, interface

NAMESPACES = (
    'xmlns:office="urn:oasis:names:tc:opendocument:xmlns:office:1.0" '
    'xmlns:table="urn:oasis:names:tc:opendocument:xmlns:table:1.0" '
    'xmlns:text="urn:oasis:names:tc:opendocument:xmlns:text:1.0"'
)


def plain(text):
    return '<table:table-cell office:value-type="string"><text:p>%s</text:p></table:table-cell>' % escape(text)


def formatted(text):
    # What LibreOffice writes if (part of) the text inside a cell is set to bold, italics, ...
    return (
        '<table:table-cell office:value-type="string"><text:p><text:span text:style-name="T1">%s</text:span>'
        "</text:p></table:table-cell>" % escape(text)
    )


def write_ods(path, rows):
    body = "".join("<table:table-row>%s</table:table-row>" % "".join(row) for row in rows)
    content = (
        '<?xml version="1.0" encoding="UTF-8"?><office:document-content %s><office:body><office:spreadsheet>'
        '<table:table table:name="cid">%s</table:table></office:spreadsheet></office:body>'
        "</office:document-content>" % (NAMESPACES, body)
    )
    with zipfile.ZipFile(path, "w") as ods_zip:
        ods_zip.writestr("mimetype", "application/vnd.oasis.opendocument.spreadsheet")
        ods_zip.writestr("content.xml", content)


folder = tempfile.mkdtemp()
violations = 0
launcher = (
    "import sys; sys.path.insert(0, '/tmp/audit2_C10'); "
    "from cutplace import applications; applications.main_for_script()"
)
data_path = os.path.join(folder, "data.csv")
with open(data_path, "w", encoding="utf-8") as data_file:
    data_file.write("1\n")

CASES = [
    ("row mark 'D' is formatted", [[formatted("D"), plain("Format"), plain("Delimited")], [plain("F"), plain("id")]]),
    ("field name 'id' is formatted", [[plain("D"), plain("Format"), plain("Delimited")], [plain("F"), formatted("id")]]),
    (
        "rule of a check is formatted",
        [
            [plain("D"), plain("Format"), plain("Delimited")],
            [plain("F"), plain("id")],
            [plain("C"), plain("id is unique"), plain("IsUnique"), formatted("id")],
        ],
    ),
]
for case_number, (description, rows) in enumerate(CASES, 1):
    cid_path = os.path.join(folder, "cid%d.ods" % case_number)
    write_ods(cid_path, rows)
    print("case %d: ODS CID where the %s (<text:p><text:span>...</text:span></text:p>)" % (case_number, description))
    try:
        interface.Cid(cid_path)
        print("  API: OK, CID has been read")
    except (errors.InterfaceError, errors.DataError) as error:
        print("  API: OK, raised %s: %s" % (type(error).__name__, error))
    except BaseException as error:
        print("  API: VIOLATION, %s escaped: %s" % (type(error).__name__, error))
        violations += 1
    completed = subprocess.run(
        [sys.executable, "-W", "ignore", "-c", launcher, cid_path, data_path], capture_output=True, text=True
    )
    print("  command line: cutplace cid%d.ods data.csv -> exit code %d" % (case_number, completed.returncode))
    if completed.returncode == 4:
        print("  command line: VIOLATION, exit code 4")
        violations += 1

sys.exit(1 if violations else 0)
