"""
finding4: cutplace.Writer for fixed data pads the cells of a row before it validates them, so a cell
that is not a str (None, int, bytes, ...) ends in a TypeError instead of the FieldValueError
("type must be str instead of ...") the same row gets from a Writer for delimited data.
"""
import sys

sys.path.insert(0, "/tmp/audit2_C10")
import io
import warnings

warnings.simplefilter("ignore")
from cutplace import errors, interface, validio

DELIMITED_CID = "d,format,delimited\nf,name\nf,size,,,,Integer\n"
FIXED_CID = "d,format,fixed\nf,name,,,5\nf,size,,,3,Integer\n"
ROWS = [[None, "1"], ["abc", 1], [b"abc", "1"], ["abc", 1.5]]

violations = 0
for cid_name, cid_text in (("delimited", DELIMITED_CID), ("fixed", FIXED_CID)):
    print("CID (%s): %r" % (cid_name, cid_text))
    cid = interface.create_cid_from_string(cid_text)
    for row in ROWS:
        for method_name in ("write_row", "write_rows"):
            with io.StringIO() as target:
                writer = validio.Writer(cid, target)
                try:
                    if method_name == "write_row":
                        writer.write_row(row)
                    else:
                        writer.write_rows([row])
                    print("  %s(%r): OK, written as %r" % (method_name, row, target.getvalue()))
                except errors.DataError as error:
                    print("  %s(%r): OK, raised %s: %s" % (method_name, row, type(error).__name__, error))
                except BaseException as error:
                    print("  %s(%r): VIOLATION, %s escaped: %s" % (method_name, row, type(error).__name__, error))
                    violations += 1
                finally:
                    writer.close()

sys.exit(1 if violations else 0)
