"""
finding1: a DistinctCount rule can hide calls inside a lambda; the names check only looks at the
top level code object, so the rule is accepted and evaluated with the builtins available.
``exit(4)`` then raises SystemExit: no CutplaceError at the API, exit code 4 at the command line.
"""
import sys

sys.path.insert(0, "/tmp/audit2_C10")
import io
import os
import subprocess
import tempfile
import warnings

warnings.simplefilter("ignore")
from cutplace import errors, interface, validio

CID_TEXT = "d,format,delimited\nf,id\nc,distinct ids,DistinctCount,id == 0 or (lambda: exit(4))()\n"
DATA_TEXT = "a\nb\n"

violations = 0

print("CID:")
print(CID_TEXT)
print("data: %r" % DATA_TEXT)

# 1. programmatic API
try:
    cid = interface.create_cid_from_string(CID_TEXT)
    validio.validate(cid, io.StringIO(DATA_TEXT, newline=""))
    print("API: validation succeeded")
except (errors.InterfaceError, errors.DataError) as error:
    print("API: OK, raised %s: %s" % (type(error).__name__, error))
except BaseException as error:
    print("API: VIOLATION, %s(%s) escaped instead of InterfaceError / DataError" % (type(error).__name__, error))
    violations += 1

# 2. command line
folder = tempfile.mkdtemp()
cid_path = os.path.join(folder, "cid.csv")
data_path = os.path.join(folder, "data.csv")
with open(cid_path, "w", encoding="utf-8") as cid_file:
    cid_file.write(CID_TEXT)
with open(data_path, "w", encoding="utf-8") as data_file:
    data_file.write(DATA_TEXT)
launcher = (
    "import sys; sys.path.insert(0, '/tmp/audit2_C10'); "
    "from cutplace import applications; applications.main_for_script()"
)
completed = subprocess.run(
    [sys.executable, "-W", "ignore", "-c", launcher, cid_path, data_path], capture_output=True, text=True
)
print("command line: cutplace %s %s -> exit code %d" % (cid_path, data_path, completed.returncode))
if completed.returncode == 4:
    print("command line: VIOLATION, exit code 4")
    violations += 1
else:
    print("command line: OK")

sys.exit(1 if violations else 0)
