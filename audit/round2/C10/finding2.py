"""
finding2: a number of rows to validate beyond sys.maxsize (--until 9223372036854775808 or
validate_until=2**63) ends in a ValueError from itertools.islice(): exit code 4 at the command line,
ValueError at cutplace.validate() and Reader.validate_rows().
"""
import sys

sys.path.insert(0, "/tmp/audit2_C10")
import io
import os
import subprocess
import tempfile
import warnings

warnings.simplefilter("ignore")
from cutplace import errors, interface, validio

CID_TEXT = "d,format,delimited\nf,id\n"
DATA_TEXT = "a\nb\n"
UNTIL = sys.maxsize + 1

violations = 0
print("CID: %r" % CID_TEXT)
print("data: %r" % DATA_TEXT)
print("rows to validate: %d (sys.maxsize + 1)" % UNTIL)


def attempt(name, function):
    global violations
    try:
        function()
        print("%s: OK, succeeded" % name)
    except (errors.InterfaceError, errors.DataError) as error:
        print("%s: OK, raised %s: %s" % (name, type(error).__name__, error))
    except BaseException as error:
        print("%s: VIOLATION, %s escaped: %s" % (name, type(error).__name__, error))
        violations += 1


cid = interface.create_cid_from_string(CID_TEXT)
attempt(
    "cutplace.validate(cid, data, validate_until=%d)" % UNTIL,
    lambda: validio.validate(cid, io.StringIO(DATA_TEXT, newline=""), validate_until=UNTIL),
)


def validate_rows():
    with validio.Reader(cid, io.StringIO(DATA_TEXT, newline=""), validate_until=UNTIL) as reader:
        reader.validate_rows()


attempt("Reader(cid, data, validate_until=%d).validate_rows()" % UNTIL, validate_rows)
attempt(
    "list(cutplace.rows(cid, data, validate_until=%d)) [for comparison]" % UNTIL,
    lambda: list(validio.rows(cid, io.StringIO(DATA_TEXT, newline=""), validate_until=UNTIL)),
)

folder = tempfile.mkdtemp()
cid_path = os.path.join(folder, "cid.csv")
data_path = os.path.join(folder, "data.csv")
with open(cid_path, "w", encoding="utf-8") as cid_file:
    cid_file.write(CID_TEXT)
with open(data_path, "w", encoding="utf-8") as data_file:
    data_file.write(DATA_TEXT)
launcher = (
    "import sys; sys.path.insert(0, '/tmp/audit2_C10'); "
    "from cutplace import applications; applications.main_for_script()"
)
completed = subprocess.run(
    [sys.executable, "-W", "ignore", "-c", launcher, "--until", str(UNTIL), cid_path, data_path],
    capture_output=True,
    text=True,
)
print("command line: cutplace --until %d cid.csv data.csv -> exit code %d" % (UNTIL, completed.returncode))
if completed.returncode == 4:
    print("command line: VIOLATION, exit code 4; last line of stderr: %s" % completed.stderr.strip().splitlines()[-1])
    violations += 1
else:
    print("command line: OK")

sys.exit(1 if violations else 0)
