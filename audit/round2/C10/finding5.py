"""
finding5: cutplace.Writer for fixed data with "header" >= 1 hands the header rows unvalidated to
rowio.FixedRowWriter, whose only guards are assert statements: a heading longer than its field or a
header row with another number of cells ends in an AssertionError (and, with python -O, in a
damaged file) instead of a data error.
"""
import sys

sys.path.insert(0, "/tmp/audit2_C10")
import io
import warnings

warnings.simplefilter("ignore")
from cutplace import errors, interface, validio

FIXED_CID = "d,format,fixed\nd,header,1\nf,id,,,3,Integer\nf,name,,,5\n"
HEADER_ROWS = [["id", "name"], ["customer_id", "name"], ["id"], ["id", "name", "remark"]]

print("CID: %r" % FIXED_CID)
violations = 0
for header_row in HEADER_ROWS:
    cid = interface.create_cid_from_string(FIXED_CID)
    with io.StringIO() as target:
        writer = validio.Writer(cid, target)
        try:
            writer.write_row(header_row)
            writer.write_row(["1", "Alice"])
            print("  header row %r: OK, written: %r" % (header_row, target.getvalue()))
        except errors.DataError as error:
            print("  header row %r: OK, raised %s: %s" % (header_row, type(error).__name__, error))
        except BaseException as error:
            print("  header row %r: VIOLATION, %s escaped: %s" % (header_row, type(error).__name__, error))
            violations += 1
        finally:
            writer.close()

sys.exit(1 if violations else 0)
