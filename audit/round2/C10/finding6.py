"""
finding6: a DistinctCount rule Python cannot compile for its depth (a few thousand chained operators)
raises RecursionError or MemoryError from compile(); DistinctCountCheck catches only SyntaxError and
ValueError, so the error escapes the API and the command line exits with 4.
"""
import sys

sys.path.insert(0, "/tmp/audit2_C10")
import os
import subprocess
import tempfile
import warnings

warnings.simplefilter("ignore")
from cutplace import errors, interface

RULES = [
    ("id" + "+1" * 5000 + " > 0", "'id' followed by 5000 times '+1' and ' > 0' (10 KB)"),
    ("id == " + "-" * 5000 + "1", "'id == ', 5000 minus signs, '1' (5 KB)"),
    ("id == " + "-" * 10000 + "1", "'id == ', 10000 minus signs, '1' (10 KB)"),
]
launcher = (
    "import sys; sys.path.insert(0, '/tmp/audit2_C10'); "
    "from cutplace import applications; applications.main_for_script()"
)
folder = tempfile.mkdtemp()
data_path = os.path.join(folder, "data.csv")
with open(data_path, "w", encoding="utf-8") as data_file:
    data_file.write("a\nb\n")

violations = 0
for rule_number, (rule, description) in enumerate(RULES, 1):
    cid_text = "d,format,delimited\nf,id\nc,distinct ids,DistinctCount,%s\n" % rule
    print("rule %d: %s" % (rule_number, description))
    try:
        interface.create_cid_from_string(cid_text)
        print("  API: OK, CID has been read")
    except (errors.InterfaceError, errors.DataError) as error:
        print("  API: OK, raised %s: %s..." % (type(error).__name__, str(error)[:80]))
    except BaseException as error:
        print("  API: VIOLATION, %s escaped: %s" % (type(error).__name__, error))
        violations += 1
    cid_path = os.path.join(folder, "cid%d.csv" % rule_number)
    with open(cid_path, "w", encoding="utf-8") as cid_file:
        cid_file.write(cid_text)
    completed = subprocess.run(
        [sys.executable, "-W", "ignore", "-c", launcher, cid_path, data_path], capture_output=True, text=True
    )
    print("  command line: cutplace cid%d.csv data.csv -> exit code %d" % (rule_number, completed.returncode))
    if completed.returncode == 4:
        print("  command line: VIOLATION, exit code 4")
        violations += 1

sys.exit(1 if violations else 0)
