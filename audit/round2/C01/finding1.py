"""
Finding 1: integers with more than 4300 decimal digits are not handled like
any other integer although ranges are supposed to be unbounded where a limit
is omitted and limits are plain decimal or 0x-hex integers of any size.

Exit code 1 if the violation is present, 0 if not.
"""
import sys

sys.path.insert(0, "/tmp/audit2_C01")
import warnings

warnings.simplefilter("ignore")

from cutplace import data, errors, fields, ranges

violations = 0
DIGITS = 4301  # one more than sys.get_int_max_str_digits() == 4300 in Python 3.11+
big_text = "1" + "0" * (DIGITS - 1)

# (a) A value inside the open item '0...' is refused.
print("(a) Integer field, rule '0...', value = 1 followed by %d zeros" % (DIGITS - 1))
integer_field = fields.IntegerFieldFormat("x", False, "", "0...", data.DataFormat("delimited"))
try:
    integer_field.validated(big_text)
    print("    accepted (as expected)")
except errors.FieldValueError as error:
    print("    VIOLATION: rejected: %s..." % str(error)[:60])
    violations += 1

# (b) A well-formed description with a long decimal limit is refused.
print("(b) Range('0...' + 1 followed by %d zeros)" % (DIGITS - 1))
try:
    big_range = ranges.Range("0..." + big_text)
    print("    accepted (as expected), upper limit has %d bits" % big_range.upper_limit.bit_length())
except errors.InterfaceError as error:
    print("    VIOLATION: refused: %s..." % str(error)[:70])
    violations += 1

# (c) The same limit written in hex is accepted, but a value outside of it is not
# rejected with a RangeValueError; validate() fails with a plain ValueError instead.
hex_text = "0x1" + "0" * 4000  # 16 ** 4000 has 4817 decimal digits
print("(c) Range('0...0x1' + 4000 zeros).validate('x', -1)")
hex_range = ranges.Range("0..." + hex_text)
try:
    hex_range.validate("x", 5)
    print("    5 accepted (as expected)")
except Exception as error:
    print("    VIOLATION: 5 not accepted: %s: %s" % (type(error).__name__, str(error)[:60]))
    violations += 1
try:
    hex_range.validate("x", -1)
    print("    VIOLATION: -1 accepted")
    violations += 1
except errors.RangeValueError:
    print("    -1 rejected with RangeValueError (as expected)")
except Exception as error:
    print("    VIOLATION: -1 not rejected properly but: %s: %s" % (type(error).__name__, str(error)[:60]))
    violations += 1

print("violations: %d" % violations)
sys.exit(1 if violations else 0)
