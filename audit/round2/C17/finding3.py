"""
Finding 3 (low priority, exotic input): a text cell in which "_xHHHH" (an underscore,
an x and four hex digits) is directly followed by a carriage return or another control
character comes back with a different text when the table is stored with cutplace's
own XlsxRowWriter and read under Format excel, while delimited returns it unchanged.
"""
import sys

sys.path.insert(0, "/tmp/audit2_C17")
import io
import os
import tempfile

from cutplace import data, interface, rowio, validio

work = tempfile.mkdtemp(prefix="finding3_")
table = [["_x0041\r\n"], ["a_x000D\r\n"], ["_x005F\x01"], ["_x0041_\r\n"]]

csv_path = os.path.join(work, "data.csv")
data_format = data.DataFormat(data.FORMAT_DELIMITED)
data_format.validate()
with rowio.DelimitedRowWriter(csv_path, data_format) as writer:
    writer.write_rows(table)
xlsx_path = os.path.join(work, "data.xlsx")
with rowio.XlsxRowWriter(xlsx_path) as writer:
    writer.write_rows(table)

result = {}
for format_name, path in (("delimited", csv_path), ("excel", xlsx_path)):
    cid = interface.create_cid_from_string("d,format,%s\nf,a,,,...9\n" % format_name)
    verdict = []
    with validio.Reader(cid, path, on_error="yield") as reader:
        for row in reader.rows():
            verdict.append("REJECTED" if isinstance(row, Exception) else "accepted %r" % row)
    result[format_name] = verdict

for index, row in enumerate(table):
    print("cell written: %r" % row[0])
    print("   delimited:", result["delimited"][index])
    print("   excel    :", result["excel"][index])

if result["delimited"] != result["excel"]:
    print("VIOLATION: returned values / verdicts differ between delimited and excel")
    sys.exit(1)
print("OK: no violation")
sys.exit(0)
