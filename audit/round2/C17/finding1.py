"""
Finding 1: excel_rows() pads every row of a sheet with empty cells up to the
width of the widest row of the whole sheet. The same cells stored as delimited
text or ODS keep the length they have, so the per-row verdicts (and the returned
rows) differ under CIDs that differ only in their Format property.
"""
import sys

sys.path.insert(0, "/tmp/audit2_C17")
import io
import os
import tempfile
import zipfile
from xml.sax.saxutils import escape

from cutplace import data, interface, rowio, validio

work = tempfile.mkdtemp(prefix="finding1_")


def write_delimited(path, rows):
    data_format = data.DataFormat(data.FORMAT_DELIMITED)
    data_format.validate()
    with rowio.DelimitedRowWriter(path, data_format) as writer:
        writer.write_rows(rows)


def write_excel(path, rows):
    with rowio.XlsxRowWriter(path) as writer:
        writer.write_rows(rows)


def write_ods(path, rows):
    xml = (
        '<?xml version="1.0" encoding="UTF-8"?>'
        '<office:document-content xmlns:office="urn:oasis:names:tc:opendocument:xmlns:office:1.0" '
        'xmlns:table="urn:oasis:names:tc:opendocument:xmlns:table:1.0" '
        'xmlns:text="urn:oasis:names:tc:opendocument:xmlns:text:1.0" office:version="1.2">'
        '<office:body><office:spreadsheet><table:table table:name="Sheet1">'
    )
    for row in rows:
        xml += "<table:table-row>"
        for cell in row:
            xml += '<table:table-cell office:value-type="string"><text:p>%s</text:p></table:table-cell>' % escape(cell)
        xml += "</table:table-row>"
    xml += "</table:table></office:spreadsheet></office:body></office:document-content>"
    with zipfile.ZipFile(path, "w") as ods_zip:
        ods_zip.writestr("mimetype", "application/vnd.oasis.opendocument.spreadsheet")
        ods_zip.writestr("content.xml", xml.encode("utf-8"))


WRITERS = (("delimited", "csv", write_delimited), ("excel", "xlsx", write_excel), ("ods", "ods", write_ods))


def verdicts(cid_rest, table, validate_until=None):
    result = {}
    for format_name, suffix, write in WRITERS:
        path = os.path.join(work, "data." + suffix)
        write(path, table)
        cid = interface.create_cid_from_string("d,format,%s\n%s" % (format_name, cid_rest))
        verdict = []
        with validio.Reader(cid, path, on_error="yield", validate_until=validate_until) as reader:
            for row in reader.rows():
                if isinstance(row, Exception):
                    verdict.append("REJECTED: " + row.message[:60])
                else:
                    verdict.append("accepted %r" % row)
        result[format_name] = verdict
    return result


def show(title, cid_rest, table, **keywords):
    print("---", title)
    print("CID (after the Format row):", repr(cid_rest))
    print("table:", table, keywords)
    result = verdicts(cid_rest, table, **keywords)
    for format_name, verdict in result.items():
        print("  %-10s" % format_name, verdict)
    is_same = result["delimited"] == result["excel"] == result["ods"]
    print("  same verdicts and rows:", is_same)
    return is_same


ok = True
ok &= show(
    "one row with a stray third cell",
    "f,a\nf,b\n",
    [["a1", "b1"], ["a2", "b2", "note"], ["a3", "b3"]],
)
ok &= show(
    "header row wider than the data rows",
    "d,header,1\nf,a\nf,b\n",
    [["title a", "title b", "remarks"], ["a2", "b2"], ["a3", "b3"]],
)
ok &= show(
    "row that lacks a field is completed by Excel only",
    "f,a\nf,b,,x\n",
    [["a1", "b1"], ["a2"]],
)
ok &= show(
    "wide row after the rows to validate (validate_until=1)",
    "f,a\nf,b\n",
    [["a1", "b1"], ["a2", "b2", "c2"]],
    validate_until=1,
)
if ok:
    print("OK: no violation")
    sys.exit(0)
print("VIOLATION: the Excel container yields other rows / verdicts than delimited and ODS")
sys.exit(1)
