"""
Finding 2: cutplace.validate(), cutplace.rows() and cutplace.Reader take "a filelike
object ready to read" instead of a path (docs/api.rst). This works for Format delimited,
fixed and ods, but under Format excel the very same table fails with a TypeError before
any row gets a verdict.
"""
import sys

sys.path.insert(0, "/tmp/audit2_C17")
import io
import os
import tempfile
import zipfile

import cutplace
from cutplace import data, rowio

work = tempfile.mkdtemp(prefix="finding2_")
table = [["a1", "b1"], ["a2", "b2"]]

csv_path = os.path.join(work, "data.csv")
data_format = data.DataFormat(data.FORMAT_DELIMITED)
data_format.validate()
with rowio.DelimitedRowWriter(csv_path, data_format) as writer:
    writer.write_rows(table)

xlsx_path = os.path.join(work, "data.xlsx")
with rowio.XlsxRowWriter(xlsx_path) as writer:
    writer.write_rows(table)

ods_path = os.path.join(work, "data.ods")
xml = (
    '<?xml version="1.0" encoding="UTF-8"?>'
    '<office:document-content xmlns:office="urn:oasis:names:tc:opendocument:xmlns:office:1.0" '
    'xmlns:table="urn:oasis:names:tc:opendocument:xmlns:table:1.0" '
    'xmlns:text="urn:oasis:names:tc:opendocument:xmlns:text:1.0" office:version="1.2">'
    '<office:body><office:spreadsheet><table:table table:name="Sheet1">'
    + "".join(
        "<table:table-row>"
        + "".join('<table:table-cell office:value-type="string"><text:p>%s</text:p></table:table-cell>' % c for c in row)
        + "</table:table-row>"
        for row in table
    )
    + "</table:table></office:spreadsheet></office:body></office:document-content>"
)
with zipfile.ZipFile(ods_path, "w") as ods_zip:
    ods_zip.writestr("content.xml", xml.encode("utf-8"))


def open_stream(format_name, use_memory):
    if format_name == "delimited":
        if use_memory:
            with io.open(csv_path, "r", encoding="cp1252", newline="") as f:
                return io.StringIO(f.read())
        return io.open(csv_path, "r", encoding="cp1252", newline="")
    path = xlsx_path if format_name == "excel" else ods_path
    if use_memory:
        with open(path, "rb") as f:
            return io.BytesIO(f.read())
    return open(path, "rb")


results = {}
for format_name in ("delimited", "ods", "excel"):
    cid = cutplace.interface.create_cid_from_string("d,format,%s\nf,a\nf,b\n" % format_name)
    for use_memory in (False, True):
        for entry_name in ("rows", "validate"):
            with open_stream(format_name, use_memory) as stream:
                try:
                    if entry_name == "rows":
                        outcome = list(cutplace.rows(cid, stream))
                    else:
                        cutplace.validate(cid, stream)
                        outcome = "valid"
                except Exception as error:
                    outcome = "%s: %s" % (type(error).__name__, error)
            key = (format_name, "in memory" if use_memory else "open file", entry_name)
            results[key] = outcome
            print("%-10s %-10s %-9s -> %s" % (key + (outcome,)))

is_violated = False
for (format_name, kind, entry_name), outcome in results.items():
    if outcome != results[("delimited", kind, entry_name)]:
        is_violated = True
        print("DIFFERS from delimited:", format_name, kind, entry_name)
if is_violated:
    print("VIOLATION: the same table handed over as filelike object gets no verdicts under Format excel")
    sys.exit(1)
print("OK: no violation")
sys.exit(0)
