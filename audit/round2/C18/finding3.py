"""
'--plugins ""' (empty folder name): not refused as unusable argument (exit 2) like an empty CID-FILE or
DATA-FILE; instead every *.py file of the CURRENT directory is imported and executed, exit code 0.
Also: '--plugins' naming a folder that does not exist is silently ignored.
"""
import os
import shutil
import subprocess
import sys
import tempfile

ROOT = "/tmp/audit2_C18"
sys.path.insert(0, ROOT)
OUT = os.path.join(ROOT, "out")
_MAIN = (
    "import sys, warnings; warnings.simplefilter('ignore'); sys.path.insert(0, %r); "
    "from cutplace import applications; applications.main_for_script()" % ROOT
)


def make_work_dir():
    """A fresh, EMPTY folder used both for the files and as current directory of the command."""
    return tempfile.mkdtemp(prefix="tmp_finding_", dir=OUT)


def write(folder, name, text):
    path = os.path.join(folder, name)
    with open(path, "w", encoding="utf-8", newline="") as target:
        target.write(text)
    return path


def cutplace(cwd, *args):
    """Run the cutplace command line in a subprocess; return (exit code, output)."""
    print("$ cutplace " + " ".join(repr(a) for a in args))
    done = subprocess.run(
        [sys.executable, "-W", "ignore", "-c", _MAIN] + list(args),
        cwd=cwd, capture_output=True, text=True, timeout=120,
    )
    output = (done.stdout + done.stderr).strip()
    for line in output.splitlines()[-6:]:
        print("    | " + line[:200])
    print("    exit code: %d" % done.returncode)
    return done.returncode, output


work = make_work_dir()
current_folder = make_work_dir()
try:
    cid = write(work, "cid.csv", "d,format,delimited\nf,a,,,,Integer\n")
    good = write(work, "good.csv", "1\n2\n")
    # A harmless script in the current directory of the command that leaves a trace when it is executed.
    write(
        current_folder,
        "not_a_plugin.py",
        "import os\n"
        "with open(os.path.join(os.path.dirname(os.path.abspath(__file__)), 'EXECUTED.txt'), 'w') as f:\n"
        "    f.write('executed')\n",
    )
    trace_path = os.path.join(current_folder, "EXECUTED.txt")

    print("Reference: an empty DATA-FILE is an unusable argument (exit 2)")
    reference_code, _ = cutplace(current_folder, cid, "")
    assert reference_code == 2

    print("Test: --plugins '' (expected: 2)")
    empty_code, _ = cutplace(current_folder, "--plugins", "", cid, good)
    was_executed = os.path.exists(trace_path)
    print("    script in the current directory was executed: %s" % was_executed)

    print("Observation: --plugins with a folder that does not exist (3 or 2 would be plausible)")
    missing_code, _ = cutplace(current_folder, "--plugins", os.path.join(work, "no_such_folder"), cid, good)

    violated = (empty_code != 2) or was_executed
    print("VIOLATION PRESENT" if violated else "no violation")
    sys.exit(1 if violated else 0)
finally:
    shutil.rmtree(work, ignore_errors=True)
    shutil.rmtree(current_folder, ignore_errors=True)
