"""
'--create CID-FILE DATA-FILE...': the data files are silently ignored; exit code 0 although a data
file is rejected by the API (expected 1), does not exist (expected 3), or the combination is refused (2).
"""
import os
import shutil
import subprocess
import sys
import tempfile

ROOT = "/tmp/audit2_C18"
sys.path.insert(0, ROOT)
OUT = os.path.join(ROOT, "out")
_MAIN = (
    "import sys, warnings; warnings.simplefilter('ignore'); sys.path.insert(0, %r); "
    "from cutplace import applications; applications.main_for_script()" % ROOT
)


def make_work_dir():
    """A fresh, EMPTY folder used both for the files and as current directory of the command."""
    return tempfile.mkdtemp(prefix="tmp_finding_", dir=OUT)


def write(folder, name, text):
    path = os.path.join(folder, name)
    with open(path, "w", encoding="utf-8", newline="") as target:
        target.write(text)
    return path


def cutplace(cwd, *args):
    """Run the cutplace command line in a subprocess; return (exit code, output)."""
    print("$ cutplace " + " ".join(repr(a) for a in args))
    done = subprocess.run(
        [sys.executable, "-W", "ignore", "-c", _MAIN] + list(args),
        cwd=cwd, capture_output=True, text=True, timeout=120,
    )
    output = (done.stdout + done.stderr).strip()
    for line in output.splitlines()[-6:]:
        print("    | " + line[:200])
    print("    exit code: %d" % done.returncode)
    return done.returncode, output


work = make_work_dir()
try:
    cid = write(work, "cid.csv", "d,format,delimited\nf,a,,,,Integer\n")
    bad = write(work, "bad.csv", "1\nx\n")
    missing = os.path.join(work, "no_such_file.csv")

    import warnings

    warnings.simplefilter("ignore")
    import cutplace as cutplace_api

    print("API: cutplace.validate(cid, bad)")
    try:
        cutplace_api.validate(cid, bad)
        api_accepts = True
        print("    accepted")
    except cutplace_api.errors.DataError as error:
        api_accepts = False
        print("    rejected: %s" % error)
    assert not api_accepts

    print("Reference: without --create")
    reference_bad, _ = cutplace(work, cid, bad)
    reference_missing, _ = cutplace(work, cid, missing)
    assert (reference_bad, reference_missing) == (1, 3)

    print("Test: --create and a data file the API rejects (expected: 1, or 2 if the combination is refused)")
    create_bad, _ = cutplace(work, "--create", cid, bad)
    print("Test: --create and a data file that does not exist (expected: 3, or 2)")
    create_missing, _ = cutplace(work, "--create", cid, missing)

    violated = (create_bad, create_missing) not in ((1, 3), (2, 2))
    print("VIOLATION PRESENT" if violated else "no violation")
    sys.exit(1 if violated else 0)
finally:
    shutil.rmtree(work, ignore_errors=True)
