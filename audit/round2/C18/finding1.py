"""
'--until 0': a data file that does not exist (or is a folder) is never opened; exit code 0 instead of 3.
"""
import os
import shutil
import subprocess
import sys
import tempfile

ROOT = "/tmp/audit2_C18"
sys.path.insert(0, ROOT)
OUT = os.path.join(ROOT, "out")
_MAIN = (
    "import sys, warnings; warnings.simplefilter('ignore'); sys.path.insert(0, %r); "
    "from cutplace import applications; applications.main_for_script()" % ROOT
)


def make_work_dir():
    """A fresh, EMPTY folder used both for the files and as current directory of the command."""
    return tempfile.mkdtemp(prefix="tmp_finding_", dir=OUT)


def write(folder, name, text):
    path = os.path.join(folder, name)
    with open(path, "w", encoding="utf-8", newline="") as target:
        target.write(text)
    return path


def cutplace(cwd, *args):
    """Run the cutplace command line in a subprocess; return (exit code, output)."""
    print("$ cutplace " + " ".join(repr(a) for a in args))
    done = subprocess.run(
        [sys.executable, "-W", "ignore", "-c", _MAIN] + list(args),
        cwd=cwd, capture_output=True, text=True, timeout=120,
    )
    output = (done.stdout + done.stderr).strip()
    for line in output.splitlines()[-6:]:
        print("    | " + line[:200])
    print("    exit code: %d" % done.returncode)
    return done.returncode, output


work = make_work_dir()
try:
    cid = write(work, "cid.csv", "d,format,delimited\nf,a,,,,Integer\n")
    cid_excel = write(work, "cid_excel.csv", "d,format,excel\nf,a,,,,Integer\n")
    missing = os.path.join(work, "no_such_file.csv")
    assert not os.path.exists(missing)

    print("Reference: without --until a missing data file exits 3")
    reference_code, _ = cutplace(work, cid, missing)
    print("Reference: '--until 1' and a missing data file exits 3")
    until_1_code, _ = cutplace(work, "--until", "1", cid, missing)

    print("Test: '--until 0' and a missing data file (expected: 3)")
    missing_code, missing_output = cutplace(work, "--until", "0", cid, missing)
    print("Test: '--until 0' and a folder as data file (expected: 3)")
    folder_code, _ = cutplace(work, "--until", "0", cid, work)
    print("Test: '--until 0', format excel and a missing data file (expected: 3)")
    excel_code, _ = cutplace(work, "--until", "0", cid_excel, os.path.join(work, "no_such_file.xls"))

    import warnings

    warnings.simplefilter("ignore")
    import cutplace as cutplace_api

    print("API: cutplace.validate(cid, missing, validate_until=0)")
    try:
        cutplace_api.validate(cid, missing, validate_until=0)
        api_result = "returned without error"
    except OSError as error:
        api_result = "OSError: %s" % error
    print("    " + api_result)

    has_logging_error = "Logging error" in missing_output
    print("side effect: '--- Logging error ---' (\"accepted %%d rows\" %% None) on stderr: %s" % has_logging_error)

    assert reference_code == 3 and until_1_code == 3, "reference runs must exit 3"
    violated = (missing_code != 3) or (folder_code != 3) or (excel_code != 3)
    print("VIOLATION PRESENT" if violated else "no violation")
    sys.exit(1 if violated else 0)
finally:
    shutil.rmtree(work, ignore_errors=True)
