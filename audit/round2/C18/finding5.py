"""
Second use of one cutplace.applications.CutplaceApp: set_options() ("Reset options and set them
again") does not reset all_validations_were_ok, so a rejected file of the first run makes every
later run of the same application object report a failure although all its files are accepted.
"""
import os
import shutil
import subprocess
import sys
import tempfile

ROOT = "/tmp/audit2_C18"
sys.path.insert(0, ROOT)
OUT = os.path.join(ROOT, "out")
_MAIN = (
    "import sys, warnings; warnings.simplefilter('ignore'); sys.path.insert(0, %r); "
    "from cutplace import applications; applications.main_for_script()" % ROOT
)


def make_work_dir():
    """A fresh, EMPTY folder used both for the files and as current directory of the command."""
    return tempfile.mkdtemp(prefix="tmp_finding_", dir=OUT)


def write(folder, name, text):
    path = os.path.join(folder, name)
    with open(path, "w", encoding="utf-8", newline="") as target:
        target.write(text)
    return path


def cutplace(cwd, *args):
    """Run the cutplace command line in a subprocess; return (exit code, output)."""
    print("$ cutplace " + " ".join(repr(a) for a in args))
    done = subprocess.run(
        [sys.executable, "-W", "ignore", "-c", _MAIN] + list(args),
        cwd=cwd, capture_output=True, text=True, timeout=120,
    )
    output = (done.stdout + done.stderr).strip()
    for line in output.splitlines()[-6:]:
        print("    | " + line[:200])
    print("    exit code: %d" % done.returncode)
    return done.returncode, output


import logging
import warnings

warnings.simplefilter("ignore")
logging.basicConfig(level=logging.INFO, stream=sys.stdout)
from cutplace import applications  # noqa: E402

work = make_work_dir()
try:
    cid = write(work, "cid.csv", "d,format,delimited\nf,a,,,,Integer\n")
    good = write(work, "good.csv", "1\n2\n")
    bad = write(work, "bad.csv", "1\nx\n")


    def run(app, argv):
        """Same steps as applications.process() but on a given application object."""
        print("set_options(%r) + validate() of each data file" % (argv[1:],))
        app.set_options(argv)
        for data_path in app.data_paths:
            app.validate(data_path)
        result = 0 if app.all_validations_were_ok else 1
        print("    result: %d" % result)
        return result


    fresh_app = applications.CutplaceApp()
    fresh_result = run(fresh_app, ["cutplace", cid, good])
    assert fresh_result == 0

    reused_app = applications.CutplaceApp()
    first_result = run(reused_app, ["cutplace", cid, bad])
    assert first_result == 1
    second_result = run(reused_app, ["cutplace", cid, good])
    print("second run on the same object with only the accepted file (expected: 0): %d" % second_result)

    violated = second_result != 0
    print("VIOLATION PRESENT" if violated else "no violation")
    sys.exit(1 if violated else 0)
finally:
    shutil.rmtree(work, ignore_errors=True)
