"""
'--until N' with N > sys.maxsize (for example 9223372036854775808): exit code 4 with a stack trace
instead of 0/1 (validate everything, as the API's limit means) or 2 (unusable argument).
"""
import os
import shutil
import subprocess
import sys
import tempfile

ROOT = "/tmp/audit2_C18"
sys.path.insert(0, ROOT)
OUT = os.path.join(ROOT, "out")
_MAIN = (
    "import sys, warnings; warnings.simplefilter('ignore'); sys.path.insert(0, %r); "
    "from cutplace import applications; applications.main_for_script()" % ROOT
)


def make_work_dir():
    """A fresh, EMPTY folder used both for the files and as current directory of the command."""
    return tempfile.mkdtemp(prefix="tmp_finding_", dir=OUT)


def write(folder, name, text):
    path = os.path.join(folder, name)
    with open(path, "w", encoding="utf-8", newline="") as target:
        target.write(text)
    return path


def cutplace(cwd, *args):
    """Run the cutplace command line in a subprocess; return (exit code, output)."""
    print("$ cutplace " + " ".join(repr(a) for a in args))
    done = subprocess.run(
        [sys.executable, "-W", "ignore", "-c", _MAIN] + list(args),
        cwd=cwd, capture_output=True, text=True, timeout=120,
    )
    output = (done.stdout + done.stderr).strip()
    for line in output.splitlines()[-6:]:
        print("    | " + line[:200])
    print("    exit code: %d" % done.returncode)
    return done.returncode, output


work = make_work_dir()
try:
    cid = write(work, "cid.csv", "d,format,delimited\nf,a,,,,Integer\n")
    good = write(work, "good.csv", "1\n2\n")
    bad = write(work, "bad.csv", "1\nx\n")
    big = str(sys.maxsize + 1)

    print("Reference: --until sys.maxsize works")
    ok_good, _ = cutplace(work, "--until", str(sys.maxsize), cid, good)
    ok_bad, _ = cutplace(work, "--until", str(sys.maxsize), cid, bad)
    assert (ok_good, ok_bad) == (0, 1), (ok_good, ok_bad)

    print("Test: --until sys.maxsize + 1, accepted data (expected: 0, or 2 if the option value is refused)")
    code_good, _ = cutplace(work, "--until", big, cid, good)
    print("Test: --until sys.maxsize + 1, rejected data (expected: 1, or 2 if the option value is refused)")
    code_bad, _ = cutplace(work, "--until", big, cid, bad)
    print("Test: --until 10**30, rejected and accepted data")
    code_both, _ = cutplace(work, "--until", str(10**30), cid, bad, good)

    import warnings

    warnings.simplefilter("ignore")
    import cutplace as cutplace_api

    print("API: cutplace.validate(cid, good, validate_until=sys.maxsize + 1)")
    try:
        cutplace_api.validate(cid, good, validate_until=sys.maxsize + 1)
        print("    accepted")
    except Exception as error:
        print("    %s: %s" % (type(error).__name__, error))
    print("API: all rows of Reader(cid, bad, validate_until=sys.maxsize + 1).rows() (the limit itself is fine)")
    try:
        with cutplace_api.Reader(cid, bad, validate_until=sys.maxsize + 1) as reader:
            for _ in reader.rows():
                pass
        print("    accepted")
    except cutplace_api.errors.DataError as error:
        print("    rejected: %s" % error)

    violated = not ((code_good, code_bad, code_both) in ((0, 1, 1), (2, 2, 2)))
    print("VIOLATION PRESENT" if violated else "no violation")
    sys.exit(1 if violated else 0)
finally:
    shutil.rmtree(work, ignore_errors=True)
