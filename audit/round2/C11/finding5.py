"""
Finding 5: DataFormat.set_property(KEY_LINE_DELIMITER, None) - a value the
method explicitly allows - ends in an AttributeError.
"""
import sys

sys.path.insert(0, "/tmp/audit2_C11")

from cutplace import data, errors  # noqa: E402

violations = 0
for format_name in [data.FORMAT_FIXED, data.FORMAT_DELIMITED]:
    data_format = data.DataFormat(format_name)
    print("DataFormat(%r).set_property(KEY_LINE_DELIMITER, None):" % format_name)
    try:
        data_format.set_property(data.KEY_LINE_DELIMITER, None)
        print("   accepted, line_delimiter=%r" % data_format.line_delimiter)
        if format_name != data.FORMAT_FIXED:
            violations += 1
            print("   VIOLATION: no line delimiter is possible only for fixed data")
    except errors.InterfaceError as error:
        print("   InterfaceError: %s" % error)
        if format_name == data.FORMAT_FIXED:
            print("   (refused; fine if None is not meant to be a value)")
    except Exception as error:
        violations += 1
        print("   VIOLATION: %s: %s" % (type(error).__name__, error))
# For comparison: the other property that may be None works.
data_format = data.DataFormat(data.FORMAT_FIXED)
data_format.set_property(data.KEY_ALLOWED_CHARACTERS, None)
print("set_property(KEY_ALLOWED_CHARACTERS, None) -> allowed_characters=%r" % data_format.allowed_characters)
data_format.set_property(data.KEY_LINE_DELIMITER, "none")
print("set_property(KEY_LINE_DELIMITER, 'none') -> line_delimiter=%r" % data_format.line_delimiter)
print("violations: %d" % violations)
sys.exit(1 if violations else 0)
