"""
Finding 2: the documented value "space character" for the data format property
"Thousands separator" is refused.
"""
import io
import sys

sys.path.insert(0, "/tmp/audit2_C11")

from cutplace import errors, interface, validio  # noqa: E402

violations = 0
for format_name, length in [("Delimited", ""), ("Fixed", "9")]:
    for separator in [",", ".", " "]:
        decimal_separator = "," if separator == "." else "."
        cid_text = "\r\n".join(
            [
                "D,Format,%s" % format_name,
                'D,Decimal separator,"%s"' % decimal_separator,
                'D,Thousands separator,"%s"' % separator,
                "F,amount,,,%s,Decimal" % length,
            ]
        )
        value = ("1%s234%s5" % (separator, decimal_separator)).ljust(9)
        print("%s, thousands separator %r, value %r:" % (format_name, separator, value))
        try:
            cid = interface.Cid(io.StringIO(cid_text, newline=""))
            data_text = '"%s"\r\n' % value if format_name == "Delimited" else value + "\r\n"
            rows = list(validio.rows(cid, io.StringIO(data_text, newline="")))
            print("    accepted: %r" % rows)
        except errors.InterfaceError as error:
            print("    CID refused: %s" % error)
            if separator == " ":
                violations += 1
                print("    VIOLATION: docs/writing-an-icd.rst documents the space character as value")
print("violations: %d" % violations)
sys.exit(1 if violations else 0)
