"""
Finding 4: data format rows that follow field rows come too late for what the
field rows have already checked: the fields (their examples) are checked
against the DEFAULT of a property that the completed CID sets to something else.
"""
import io
import sys

sys.path.insert(0, "/tmp/audit2_C11")

from cutplace import errors, interface, validio  # noqa: E402


def outcome(rows):
    try:
        return interface.Cid(io.StringIO("\r\n".join(rows) + "\r\n", newline=""))
    except errors.InterfaceError as error:
        return error


def show(title, rows):
    result = outcome(rows)
    print(title)
    for row in rows:
        print("      " + row)
    print("   -> %s" % ("accepted" if isinstance(result, interface.Cid) else "refused: %s" % result))
    return result


violations = 0
FORMAT = ["D,Format,Delimited", "D,Item delimiter,;"]
COMMA = ['D,Decimal separator,","', "D,Thousands separator,."]

good_field = 'F,amount,"1.234,5",,,Decimal'  # fine with decimal separator ","
bad_field = "F,amount,1.5,,,Decimal"  # "1.5" is 15 with decimal separator "," and thousands separator "."; with thousands separator unset it is refused

first = show("1) properties first, example fits them", FORMAT + COMMA + [good_field])
second = show("2) same rows, properties after the field", FORMAT + [good_field] + COMMA)
if isinstance(first, interface.Cid) != isinstance(second, interface.Cid):
    violations += 1
    print("   VIOLATION: the same CID is accepted or refused depending on the order of its rows")

COMMA_ONLY = ['D,Decimal separator,","']
third = show("3) properties first, example contradicts them", FORMAT + COMMA_ONLY + [bad_field])
fourth = show("4) same rows, properties after the field", FORMAT + [bad_field] + COMMA_ONLY)
if isinstance(fourth, interface.Cid):
    print("   completed CID: decimal separator %r" % fourth.data_format.decimal_separator)
    try:
        list(validio.rows(fourth, io.StringIO("1.5\r\n", newline="")))
        print("   the CID's own example '1.5' is accepted as data")
    except errors.DataError as error:
        violations += 1
        print("   VIOLATION: the completed CID rejects its own example: %s" % error)

print("violations: %d" % violations)
sys.exit(1 if violations else 0)
