"""
Finding 1: an item delimiter given literally is refused when the character is
a blank, a tabulator or any other character str.strip() removes, although the
same character given as code or as quoted string is accepted.
"""
import io
import sys

sys.path.insert(0, "/tmp/audit2_C11")

from cutplace import errors, interface, validio  # noqa: E402


def delimiter_of(value):
    """Item delimiter of a complete CID with 'Item delimiter' set to value, or the InterfaceError."""
    cid_text = "\r\n".join(
        [
            "D,Format,Delimited",
            'D,Item delimiter,"%s"' % value.replace('"', '""'),
            "F,first",
            "F,second",
        ]
    )
    try:
        cid = interface.Cid(io.StringIO(cid_text, newline=""))
    except errors.InterfaceError as error:
        return error
    return cid.data_format.item_delimiter


violations = 0
# (literal spelling, spellings documented to be the same character)
for literal, same_as in [
    (" ", ["32", "0x20", '" "']),
    ("\t", ["9", "0x09", '"\\t"', "Tab"]),
    ("\x1f", ["31", "0x1f", '"\\x1f"']),  # ASCII "unit separator", made to delimit items
    ("\xa0", ["160", '"\\xa0"']),
    (";", ["59", "0x3b", '";"']),  # control: works
]:
    literal_result = delimiter_of(literal)
    print("item delimiter given literally as %r -> %r" % (literal, literal_result))
    for other in same_as:
        other_result = delimiter_of(other)
        print("    given as %-8s -> %r" % (other, other_result))
        if other_result != literal:
            print("    (unexpected: the reference spelling does not work either)")
    if literal_result != literal:
        violations += 1
        print("  VIOLATION: the literal spelling does not denote %r" % literal)

# The data themselves are fine with such a delimiter.
cid = interface.Cid(io.StringIO("D,Format,Delimited\r\nD,Item delimiter,32\r\nF,first\r\nF,second\r\n", newline=""))
print("rows with delimiter 32:", list(validio.rows(cid, io.StringIO("a b\r\n", newline=""))))

print("violations: %d" % violations)
sys.exit(1 if violations else 0)
