"""
Finding 3: values / properties outside the documented sets are accepted:
 a) escape character backslash (documented: double quote only)
 b) line delimiter "none" for fixed data (documented: LF, CR, CRLF, Any)
 c) property "Encoding" for Excel and ODS (documented: Header and Sheet only); it is silently ignored
"""
import io
import os
import sys
import tempfile

sys.path.insert(0, "/tmp/audit2_C11")

from cutplace import errors, interface, rowio, validio  # noqa: E402


def cid_or_error(*rows):
    try:
        return interface.Cid(io.StringIO("\r\n".join(rows) + "\r\n", newline=""))
    except errors.InterfaceError as error:
        return error


violations = 0

print("a) escape character")
cid = cid_or_error("D,Format,Delimited", "D,Escape character,\\", "F,first", "F,second")
if isinstance(cid, errors.InterfaceError):
    print("   backslash refused: %s" % cid)
else:
    violations += 1
    rows = list(validio.rows(cid, io.StringIO("C:\\temp,x\r\n", newline="")))
    print("   VIOLATION: backslash accepted; data 'C:\\temp,x' are read as %r" % rows)

print("b) line delimiter")
cid = cid_or_error("D,Format,Fixed", "D,Line delimiter,None", "F,first,,,1", "F,second,,,1")
if isinstance(cid, errors.InterfaceError):
    print("   'None' refused: %s" % cid)
else:
    violations += 1
    rows = list(validio.rows(cid, io.StringIO("abcd", newline="")))
    print("   VIOLATION: 'None' accepted (line_delimiter=%r); data 'abcd' are read as %r" % (cid.data_format.line_delimiter, rows))

print("c) encoding for spreadsheet formats")
folder = tempfile.mkdtemp()
xlsx_path = os.path.join(folder, "data.xlsx")
with rowio.XlsxRowWriter(xlsx_path) as xlsx_writer:
    xlsx_writer.write_row(["\u20ac\u4e2d", "x"])  # neither character exists in ASCII
for format_name in ["Excel", "ODS"]:
    cid = cid_or_error("D,Format,%s" % format_name, "D,Encoding,ascii", "F,first", "F,second")
    if isinstance(cid, errors.InterfaceError):
        print("   %s: encoding refused: %s" % (format_name, cid))
    else:
        violations += 1
        print("   VIOLATION: %s: property 'Encoding' accepted (encoding=%r)" % (format_name, cid.data_format.encoding))
        if format_name == "Excel":
            rows = list(validio.rows(cid, xlsx_path))
            print("      ... and ignored: with encoding 'ascii' the workbook is read as %r" % rows)
    for other in ["Line delimiter,LF", "Decimal separator,.", "Item delimiter,;"]:
        other_cid = cid_or_error("D,Format,%s" % format_name, "D," + other, "F,first", "F,second")
        print("      (for comparison, %s: %s)" % (other, "accepted" if isinstance(other_cid, interface.Cid) else "refused"))

print("violations: %d" % violations)
sys.exit(1 if violations else 0)
