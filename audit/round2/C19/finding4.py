"""
Finding 4: the "PL/SQL" (Oracle) dialect does not regard the reserved words of
Oracle SQL as keywords - not even the type names it emits itself (number,
varchar2) - so fields with such names are written unquoted, e.g.
``number number(5, 2)``, ``user varchar2(30)``, ``column int``.

The words below are all flagged "reserved" in Oracle's SQL Language Reference
("Oracle SQL Reserved Words") and cannot be used as unquoted column names
(ORA-00904). This cannot be executed against Oracle here; what is reproduced is
that cutplace leaves them unquoted for the PL/SQL dialect.
"""
import sys

sys.path.insert(0, "/tmp/audit2_C19")
import warnings

warnings.simplefilter("ignore")

from cutplace import interface, sql

ORACLE_SQL_RESERVED = [
    "access", "audit", "column", "file", "increment", "initial", "integer", "number", "offline",
    "online", "rowid", "rownum", "rows", "session", "smallint", "successful", "sysdate", "trigger",
    "uid", "user", "validate", "varchar", "varchar2", "whenever",
]
rows = [["D", "Format", "delimited"]]
for word in ORACLE_SQL_RESERVED:
    if word == "number":
        rows.append(["F", word, "", "", "", "Decimal", "0...299.99"])
    else:
        rows.append(["F", word, "", "", "...30", "Text"])
cid = interface.Cid()
cid.read("x", rows)
factory = sql.SqlFactory(cid, "t", sql.PL_SQL_DIALECT)
statement = factory.create_table_statement()
print(statement)
unquoted = [row[0] for row in factory.sql_fields() if not row[0].startswith('"')]
print("Oracle SQL reserved words left unquoted by dialect %s: %s" % (sql.PL_SQL_DIALECT, unquoted))
emitted_types = sorted(set(row[1] for row in factory.sql_fields()))
not_keywords = [name for name in emitted_types if not sql.PL_SQL_DIALECT.is_keyword(name)]
print("type names the dialect emits itself but does not know as keywords: %s" % not_keywords)
violations = len(unquoted)
print("violations: %d" % violations)
sys.exit(1 if violations else 0)
