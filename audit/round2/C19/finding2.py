"""
Finding 2: a field whose ``empty_value`` is not '' / None makes the generated
statement carry a raw, unescaped "default <str(empty_value)>" clause, or makes
the generation crash with TypeError - so no valid CREATE TABLE statement
exists for such a CID.

Shown with (a) the plugin field format documented in docs/api.rst and shipped
as examples/plugins.py + examples/cid_colors.ods through the command line and
(b) the built-in field formats, whose constructors take ``empty_value``.
"""
import sys

sys.path.insert(0, "/tmp/audit2_C19")
import warnings

warnings.simplefilter("ignore")
import decimal
import logging
import os
import re
import shutil
import sqlite3
import tempfile

from cutplace import applications, data, fields, interface, sql

logging.basicConfig(level=logging.WARNING)
violations = 0


def sqlite_error(statement):
    try:
        sqlite3.connect(":memory:").execute(statement)
        return None
    except sqlite3.Error as error:
        return str(error)


def one_column_per_field(statement, cid):
    lines = statement.split("\n")[1:-1]
    names = [line.strip().split(" ")[0].strip('"') for line in lines]
    return names == cid.field_names


# (a) documented plugin example, command line
with tempfile.TemporaryDirectory(dir="/tmp/audit2_C19/out") as folder:
    cid_path = os.path.join(folder, "cid_colors.ods")
    shutil.copy("/tmp/audit2_C19/examples/cid_colors.ods", cid_path)
    plugins_folder = os.path.join(folder, "plugins")
    os.mkdir(plugins_folder)
    shutil.copy("/tmp/audit2_C19/examples/plugins.py", plugins_folder)
    exit_code = applications.main(["cutplace", "--create", "--plugins", plugins_folder, cid_path])
    print("cutplace --create --plugins examples cid_colors.ods -> exit code %d" % exit_code)
    statement = None
    create_path = os.path.join(folder, "cid_colors_create.sql")
    if os.path.exists(create_path):
        with open(create_path, encoding="utf-8") as sql_file:
            statement = sql_file.read()
        print(statement)
    error = sqlite_error(statement) if statement else "no statement written"
    if exit_code != 0 or error is not None or re.search(r"default \(0\.0", statement):
        print("  VIOLATION: documented example CID gives an unusable statement (%s)" % error)
        violations += 1

# (b) built-in field formats created through the API
delimited = data.DataFormat(data.FORMAT_DELIMITED)
candidates = [
    ("IntegerFieldFormat(empty_value=0)", fields.IntegerFieldFormat("n", True, "", "0...9", delimited, empty_value=0)),
    (
        "DecimalFieldFormat(empty_value=Decimal(0))",
        fields.DecimalFieldFormat("n", True, "", "0...9.5", delimited, empty_value=decimal.Decimal(0)),
    ),
    ("TextFieldFormat(empty_value='n/a')", fields.TextFieldFormat("n", True, "...5", "", delimited, empty_value="n/a")),
    ("TextFieldFormat(empty_value=\"it's\")", fields.TextFieldFormat("n", True, "...5", "", delimited, empty_value="it's")),
]
for description, field_format in candidates:
    cid = interface.Cid()
    cid.add_data_format_row(["Format", "delimited"])
    cid.add_field_format(field_format)
    print("%s: validated('') = %r" % (description, field_format.validated("")))
    try:
        statement = sql.SqlFactory(cid, "t").create_table_statement()
    except Exception as error:
        print("  VIOLATION: no statement, create_table_statement() raises %s: %s" % (type(error).__name__, error))
        violations += 1
        continue
    print("  " + statement.replace("\n", " "))
    error = sqlite_error(statement)
    if error is not None or not one_column_per_field(statement, cid):
        print("  VIOLATION: statement is not valid SQL: %s" % error)
        violations += 1

print("violations: %d" % violations)
sys.exit(1 if violations else 0)
