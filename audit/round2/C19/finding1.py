"""
Finding 1: the table name is never quoted, although it can be a keyword of the
chosen dialect (clause: "quotes names that are keywords of the chosen dialect").

``cutplace --create order.csv`` derives the table name from the file name and
writes ``create table order (``, which no SQL database accepts.
"""
import sys

sys.path.insert(0, "/tmp/audit2_C19")
import warnings

warnings.simplefilter("ignore")
import logging
import os
import re
import sqlite3
import tempfile

from cutplace import applications, interface, sql

logging.basicConfig(level=logging.WARNING)

CID_TEXT = "D,Format,delimited\nF,id,,,,Integer,0...99999\nF,name,,X,...60,Text\n"
violations = 0


def table_token(statement):
    match = re.match(r"\s*create\s+table\s+(\S+)\s*\(", statement, re.IGNORECASE)
    return match.group(1) if match else None


def sqlite_accepts(statement):
    try:
        sqlite3.connect(":memory:").execute(statement)
        return True
    except sqlite3.Error as error:
        print("    sqlite3 refuses the statement: %s" % error)
        return False


# 1. command line
with tempfile.TemporaryDirectory(dir="/tmp/audit2_C19/out") as folder:
    cid_path = os.path.join(folder, "order.csv")
    with open(cid_path, "w", encoding="utf-8") as cid_file:
        cid_file.write(CID_TEXT)
    exit_code = applications.main(["cutplace", "--create", cid_path])
    print("cutplace --create order.csv -> exit code %d" % exit_code)
    with open(os.path.join(folder, "order_create.sql"), encoding="utf-8") as sql_file:
        statement = sql_file.read()
    print(statement)
    token = table_token(statement)
    print("  table name as written: %r; 'order' is keyword of ANSI dialect: %s"
          % (token, sql.ANSI_SQL_DIALECT.is_keyword("order")))
    accepted = sqlite_accepts(statement)
    if token == "order" or not accepted:
        print("  VIOLATION: keyword used as table name is not quoted")
        violations += 1

# 2. API, all dialects
cid = interface.Cid()
cid.read("order", [["D", "Format", "delimited"], ["F", "id", "", "", "", "Integer", "0...99999"]])
for dialect_name, dialect in sorted(sql.SQL_NAME_TO_DIALECT_MAP.items()):
    statement = sql.SqlFactory(cid, "order", dialect).create_table_statement()
    token = table_token(statement)
    print("%-12s SqlFactory(cid, 'order') -> %r" % (dialect_name, statement.split("\n")[0]))
    if dialect.is_keyword("order") and token == "order":
        print("  VIOLATION: 'order' is a keyword of %s but the table name is not quoted" % dialect_name)
        violations += 1

print("violations: %d" % violations)
sys.exit(1 if violations else 0)
