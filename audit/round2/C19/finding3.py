"""
Finding 3: a CID may declare fields whose names differ only in upper/lower
case ("Name", "name"). They are written as unquoted SQL identifiers, which
are case-insensitive in every dialect: the statement declares the same column
twice instead of "exactly one column per field".
"""
import sys

sys.path.insert(0, "/tmp/audit2_C19")
import warnings

warnings.simplefilter("ignore")
import sqlite3

from cutplace import errors, interface, sql

violations = 0
rows = [
    ["D", "Format", "delimited"],
    ["F", "Name", "", "", "...20", "Text"],
    ["F", "name", "", "X", "...30", "Text"],
    ["F", "NAME", "", "", "", "Integer", "0...9"],
]
print("CID rows: %r" % rows)
cid = interface.Cid()
try:
    cid.read("people", rows)
except errors.InterfaceError as error:
    print("CID is refused: %s" % error)
    print("violations: 0")
    sys.exit(0)
print("CID accepted with fields %r" % cid.field_names)
for dialect_name, dialect in sorted(sql.SQL_NAME_TO_DIALECT_MAP.items()):
    factory = sql.SqlFactory(cid, "people", dialect)
    statement = factory.create_table_statement()
    print("%s:\n%s" % (dialect_name, statement))
    unquoted_names = [row[0].lower() for row in factory.sql_fields() if not row[0].startswith('"')]
    duplicates = sorted(set(name for name in unquoted_names if unquoted_names.count(name) > 1))
    if duplicates:
        print("  VIOLATION: unquoted (case-insensitive) column name declared more than once: %s" % duplicates)
        violations += 1
    if dialect_name == sql.ANSI:
        try:
            sqlite3.connect(":memory:").execute(statement)
        except sqlite3.Error as error:
            print("  sqlite3 refuses the statement: %s" % error)

print("violations: %d" % violations)
sys.exit(1 if violations else 0)
