"""
Finding 5: for Integer ranges beyond the largest int type of the dialect the
range LIMIT itself is written where the dialect expects the NUMBER OF DIGITS:
PL/SQL already for 33 bit ranges ("0...2147483648" -> number(2147483648, 0)),
DB2 / Transact-SQL beyond 64 bit (decimal(9223372036854775808)). No dialect
has such a type (Oracle: precision 1..38, SQL Server: 1..38, DB2: 1..31), so
the column type cannot store the range limits.

NOTE: possibly the same root cause as the already known "huge decimal(p,s)".
"""
import sys

sys.path.insert(0, "/tmp/audit2_C19")
import warnings

warnings.simplefilter("ignore")
import re

from cutplace import interface, sql

MAX_PRECISION = {sql.PL: 38, sql.TRANSACT: 38, sql.DB2: 31, sql.ANSI: 38}
cases = [
    (sql.PL, "0...2147483648"),
    (sql.PL, "-2147483649...0"),
    (sql.PL, "0...99999999999"),
    (sql.DB2, "0...9223372036854775808"),
    (sql.TRANSACT, "0...9223372036854775808"),
    (sql.TRANSACT, "-99999999999999999999...99999999999999999999"),
]
violations = 0
for dialect_name, rule in cases:
    cid = interface.Cid()
    cid.read("x", [["D", "Format", "delimited"], ["F", "n", "", "", "", "Integer", rule]])
    valid_range = cid.field_formats[0].valid_range
    statement = sql.SqlFactory(cid, "t", sql.SQL_NAME_TO_DIALECT_MAP[dialect_name]).create_table_statement()
    column = statement.split("\n")[1].strip()
    print("%-12s Integer %-48s -> %s" % (dialect_name, rule, column))
    match = re.match(r"n (number|decimal|numeric)\((\d+)(?:, *(\d+))?\)", column)
    if match:
        precision = int(match.group(2))
        scale = int(match.group(3) or 0)
        biggest = max(abs(valid_range.lower_limit), abs(valid_range.upper_limit))
        needed = len(str(biggest))
        if precision > MAX_PRECISION[dialect_name] or (precision - scale) < needed:
            print("  VIOLATION: %s(%d, %d) is no type of %s (max. precision %d); %d digits are needed"
                  % (match.group(1), precision, scale, dialect_name, MAX_PRECISION[dialect_name], needed))
            violations += 1
print("violations: %d" % violations)
sys.exit(1 if violations else 0)
