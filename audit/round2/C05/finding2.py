"""
Finding 2: after Reader.close() a further pass over the same Reader (rows() / validate_rows(), which
reset the checks and validate every row again) can no longer be finished: close() is a no-op for the
rest of the Reader's life, so the DistinctCount check is never evaluated for that pass.

Exit code 1 = violation present, 0 = not present.
"""
import sys

sys.path.insert(0, "/tmp/audit2_C05")
import os
import tempfile
import warnings

warnings.simplefilter("ignore")

from cutplace import errors, interface, validio

CID_TEXT = """d,format,delimited
d,encoding,utf-8
f,a
c,at_most_2_distinct_a,DistinctCount,a <= 2
"""


def finish(reader):
    try:
        reader.close()
        return "close() did not fail"
    except errors.CheckError as error:
        return "close() failed: %s" % error


violation = False
folder = tempfile.mkdtemp()
data_path = os.path.join(folder, "data.csv")

print("case A: the same data (3 distinct values, rule a <= 2) validated twice with one Reader")
with open(data_path, "w", encoding="utf-8", newline="") as data_file:
    data_file.write("x\r\ny\r\nz\r\n")
cid = interface.create_cid_from_string(CID_TEXT)
reader = validio.Reader(cid, data_path)
reader.validate_rows()
first = finish(reader)
print("  pass 1: accepted %d rows, %s" % (reader.accepted_rows_count, first))
reader.validate_rows()
second = finish(reader)
print("  pass 2: accepted %d rows, %s" % (reader.accepted_rows_count, second))
if "failed" in first and "failed" not in second:
    violation = True

print("case B: pass 1 over valid data, then the file gets a third distinct value, pass 2 with the same Reader")
with open(data_path, "w", encoding="utf-8", newline="") as data_file:
    data_file.write("x\r\ny\r\n")
cid = interface.create_cid_from_string(CID_TEXT)
reader = validio.Reader(cid, data_path)
reader.validate_rows()
print("  pass 1: accepted %d rows, %s" % (reader.accepted_rows_count, finish(reader)))
with open(data_path, "a", encoding="utf-8", newline="") as data_file:
    data_file.write("z\r\n")
reader.validate_rows()
second = finish(reader)
print("  pass 2: accepted %d rows, %s" % (reader.accepted_rows_count, second))
distinct_count = len(cid.check_for("at_most_2_distinct_a")._distinct_value_to_count_map)
print("  distinct values that reached the check in pass 2: %d" % distinct_count)
if distinct_count == 3 and "failed" not in second:
    violation = True

if violation:
    print("VIOLATION: 3 distinct values reached DistinctCount 'a <= 2' but finishing the validation did not fail")
    sys.exit(1)
print("no violation")
sys.exit(0)
