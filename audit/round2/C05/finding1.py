"""
Finding 1: Reader.validate_row() used directly (public, documented method inherited from
BaseValidator) works on the check state a PREVIOUS, completely finished validation left in
the Cid, and Reader.close() then throws away the rows validated that way.

Exit code 1 = violation present, 0 = not present.
"""
import sys

sys.path.insert(0, "/tmp/audit2_C05")
import io
import warnings

warnings.simplefilter("ignore")

from cutplace import errors, interface, validio

CID_TEXT = """d,format,delimited
f,a
c,a_must_be_unique,IsUnique,a
c,at_most_2_distinct_a,DistinctCount,a <= 2
"""

cid = interface.create_cid_from_string(CID_TEXT)
violations = []

# Run 1: a complete, properly closed validation of a first data set.
print("run 1: cutplace.validate(cid, 'x', 'y') - completes and closes")
validio.validate(cid, io.StringIO("x\r\ny\r\n", newline=""))

# Run 2: strictly AFTER run 1 a new Reader validates rows one by one with validate_row().
print("run 2: new Reader on the same Cid, rows passed to reader.validate_row()")
reader = validio.Reader(cid, io.StringIO("", newline=""))
rows_of_second_data_set = [["x"], ["p"], ["q"]]
for row in rows_of_second_data_set:
    try:
        reader.validate_row(row)
        print("  %r accepted" % row)
    except errors.CheckError as error:
        print("  %r rejected: %s" % (row, error))
        if row == ["x"]:
            violations.append(
                "IsUnique rejected the first row of data set 2 because of a row of data set 1 "
                "(no earlier row of the SAME data set has a == 'x')"
            )
    reader.location.advance_line()

# Three rows reached the DistinctCount check in run 2 (or two if 'x' was rejected); in a clean
# run 'x', 'p', 'q' are 3 distinct values and 'a <= 2' must make close() fail.
reader2 = validio.Reader(interface.create_cid_from_string(CID_TEXT), io.StringIO("", newline=""))
for row in rows_of_second_data_set:
    reader2.validate_row(row)
    reader2.location.advance_line()
print("run 3: fresh Cid, 3 rows with 3 distinct values through validate_row(), rule a <= 2, then close()")
try:
    reader2.close()
    print("  close() did not fail")
    violations.append(
        "3 distinct values reached DistinctCount 'a <= 2' through validate_row() but close() did not fail "
        "(Reader.close() reset the checks because rows() was never used)"
    )
except errors.CheckError as error:
    print("  close() failed as expected: %s" % error)

if violations:
    print("VIOLATION:")
    for violation in violations:
        print(" - " + violation)
    sys.exit(1)
print("no violation")
sys.exit(0)
