"""
C06 finding 2: Reader.validate_rows() with validate_until counts the items produced by rows()
instead of the rows read, so 'continue' reads further than 'yield' for the same CID and data.
"""
import sys

sys.path.insert(0, "/tmp/audit2_C06")
import io

from cutplace import errors, interface, validio

CID_TEXT = "d,format,delimited\nf,a,,,,Integer\n"
# Row 1 is rejected, row 2 is accepted, row 3 starts a quote that never ends.
DATA_TEXT = 'x\n1\n"unterminated\n'
VALIDATE_UNTIL = 2

cid = interface.create_cid_from_string(CID_TEXT)
print("CID:\n" + CID_TEXT)
print("data: %r, validate_until=%d" % (DATA_TEXT, VALIDATE_UNTIL))

outcome = {}
for on_error in ("yield", "continue"):
    reader = validio.Reader(cid, io.StringIO(DATA_TEXT), on_error=on_error, validate_until=VALIDATE_UNTIL)
    try:
        reader.validate_rows()
        result = "no error"
    except errors.DataError as error:
        result = "%s: %s" % (type(error).__name__, error)
    outcome[on_error] = (result, reader.accepted_rows_count, reader.rejected_rows_count)
    print(
        "%-8s -> validate_rows(): %s; accepted=%r, rejected=%r"
        % (on_error, result, reader.accepted_rows_count, reader.rejected_rows_count)
    )
    reader.close()

# Second variant without malformed container: the number of rows read / accepted differs.
DATA_TEXT_2 = "x\n1\n2\n3\n"
counts = {}
for on_error in ("yield", "continue"):
    reader = validio.Reader(cid, io.StringIO(DATA_TEXT_2), on_error=on_error, validate_until=VALIDATE_UNTIL)
    reader.validate_rows()
    counts[on_error] = (reader.accepted_rows_count, reader.rejected_rows_count)
    reader.close()
print("data %r: (accepted, rejected) yield=%r continue=%r" % (DATA_TEXT_2, counts["yield"], counts["continue"]))

if (outcome["yield"] != outcome["continue"]) or (counts["yield"] != counts["continue"]):
    print("VIOLATION: 'yield' and 'continue' differ in more than presentation "
          "(rows read, counters, data-format error only in one mode)")
    sys.exit(1)
sys.exit(0)
