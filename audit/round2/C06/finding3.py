"""
C06 finding 3: after Reader.validate_rows() with validate_until=0 (command line: --until 0) the
counters are None instead of numbers; the command line fails to log "accepted N rows".
"""
import sys

sys.path.insert(0, "/tmp/audit2_C06")
import io
import logging
import os
import tempfile

from cutplace import applications, interface, validio

CID_TEXT = "d,format,delimited\nf,a,,,,Integer\n"
DATA_TEXT = "1\n2\n3\n"
cid = interface.create_cid_from_string(CID_TEXT)
violations = 0

with validio.Reader(cid, io.StringIO(DATA_TEXT), validate_until=0) as reader:
    reader.validate_rows()
print("API: validate_until=0, validate_rows() done: accepted=%r rejected=%r"
      % (reader.accepted_rows_count, reader.rejected_rows_count))
try:
    total = reader.accepted_rows_count + reader.rejected_rows_count
    print("accepted + rejected = %d" % total)
except TypeError as error:
    print("VIOLATION: counters cannot be added: %s" % error)
    violations += 1

# For comparison validate_until=1 gives numbers.
with validio.Reader(cid, io.StringIO(DATA_TEXT), validate_until=1) as reader:
    reader.validate_rows()
print("API: validate_until=1: accepted=%r rejected=%r" % (reader.accepted_rows_count, reader.rejected_rows_count))

# Command line.
folder = tempfile.mkdtemp()
cid_path = os.path.join(folder, "cid.csv")
data_path = os.path.join(folder, "data.csv")
with open(cid_path, "w") as cid_file:
    cid_file.write(CID_TEXT)
with open(data_path, "w") as data_file:
    data_file.write(DATA_TEXT)


class CollectingHandler(logging.Handler):
    def __init__(self):
        super().__init__()
        self.messages = []
        self.failures = []

    def emit(self, record):
        try:
            self.messages.append(record.getMessage())
        except Exception as error:
            self.failures.append("%s %% %r -> %s: %s" % (record.msg, record.args, type(error).__name__, error))


handler = CollectingHandler()
logging.getLogger("cutplace").addHandler(handler)
logging.getLogger("cutplace").setLevel(logging.INFO)
logging.getLogger("cutplace").propagate = False
exit_code = applications.main(["cutplace", "--until", "0", cid_path, data_path])
logging.getLogger("cutplace").removeHandler(handler)
print("command line --until 0: exit code %d, messages %r" % (exit_code, handler.messages))
if handler.failures:
    print("VIOLATION: log message cannot be formatted: %s" % handler.failures)
    violations += 1
sys.exit(1 if violations else 0)
