"""
C06 finding 4: data read from a stream whose ``name`` is no str (tempfile.TemporaryFile: an int,
open(fd), open(b"...")): the DataFormatError of a malformed container cannot be turned into text;
tempfile.SpooledTemporaryFile (name None) cannot be read at all.
"""
import sys

sys.path.insert(0, "/tmp/audit2_C06")
import tempfile

from cutplace import errors, interface, validio

violations = 0

delimited_cid = interface.create_cid_from_string("d,format,delimited\nf,a,,,,Integer\n")
fixed_cid = interface.create_cid_from_string("d,format,fixed\nf,a,,,3,Integer\n")
cases = [
    ("delimited, unterminated quote", delimited_cid, '1\n"2\n'),
    ("fixed, short record", fixed_cid, "  1\n 2"),
]
for description, cid, data_text in cases:
    for on_error in ("yield", "continue", "raise"):
        data_stream = tempfile.TemporaryFile("w+", newline="")
        data_stream.write(data_text)
        data_stream.seek(0)
        produced = []
        try:
            for item in validio.rows(cid, data_stream, on_error=on_error):
                produced.append(item)
            print("%s, %s: no error, produced %r" % (description, on_error, produced))
        except errors.DataFormatError as error:
            try:
                print("%s, %s (stream.name=%r): DataFormatError: %s" % (description, on_error, data_stream.name, error))
            except TypeError as text_error:
                print(
                    "VIOLATION: %s, %s (stream.name=%r): DataFormatError raised but str(error) fails: %s"
                    % (description, on_error, data_stream.name, text_error)
                )
                violations += 1
        finally:
            data_stream.close()

# A row error (not a container error) on the same kind of stream works, so this is not a precondition.
data_stream = tempfile.TemporaryFile("w+", newline="")
data_stream.write("1\nx\n")
data_stream.seek(0)
print("row error on the same kind of stream:", [str(item) for item in validio.rows(delimited_cid, data_stream, "yield")])

# SpooledTemporaryFile: name is None.
data_stream = tempfile.SpooledTemporaryFile(mode="w+", newline="")
data_stream.write("1\n2\n")
data_stream.seek(0)
try:
    print("SpooledTemporaryFile:", list(validio.rows(delimited_cid, data_stream)))
except AssertionError as error:
    print("VIOLATION: valid data in a SpooledTemporaryFile (name=%r) cannot be read: AssertionError %s"
          % (data_stream.name, error))
    violations += 1
sys.exit(1 if violations else 0)
