"""
C06 finding 1: in 'raise' mode the data error of the first rejected row is replaced by an
InterfaceError raised by close() (DistinctCount expression that fails for the final count).
"""
import sys

sys.path.insert(0, "/tmp/audit2_C06")
import io
import logging
import os
import tempfile

from cutplace import applications, errors, interface, validio

CID_TEXT = "d,format,delimited\nf,a,,,,Integer\nc,distinct_a,DistinctCount,a\n"
DATA_TEXT = "1\n2\nx\n"  # rows 1 and 2 are accepted, row 3 is rejected (not an integer)

cid = interface.create_cid_from_string(CID_TEXT)
print("CID:\n" + CID_TEXT)
print("data: %r" % DATA_TEXT)

# Reference: what 'yield' says about row 3 (Reader.rows() without the closing checks).
reader = validio.Reader(cid, io.StringIO(DATA_TEXT), on_error="yield")
yielded = list(reader.rows())
print("yield  ->", [item if isinstance(item, list) else "%s: %s" % (type(item).__name__, item) for item in yielded])
first_error = [item for item in yielded if isinstance(item, Exception)][0]
try:
    reader.close()
except errors.CutplaceError as error:
    print("         close(): %s: %s" % (type(error).__name__, error))

violations = 0

# 'raise' through the documented entry point cutplace.rows().
rows_before_error = []
raised = None
try:
    for row in validio.rows(cid, io.StringIO(DATA_TEXT), on_error="raise"):
        rows_before_error.append(row)
except Exception as error:
    raised = error
print("raise  -> rows %s then %s: %s" % (rows_before_error, type(raised).__name__, raised))
if (type(raised) is not type(first_error)) or (str(raised) != str(first_error)):
    print("VIOLATION: 'raise' must raise the same error as the one 'yield' produced: %s: %s"
          % (type(first_error).__name__, first_error))
    violations += 1

# Same with Reader used as context manager.
raised = None
try:
    with validio.Reader(cid, io.StringIO(DATA_TEXT), on_error="raise") as reader:
        for _ in reader.rows():
            pass
except Exception as error:
    raised = error
print("with Reader(...) -> %s: %s" % (type(raised).__name__, raised))
if not isinstance(raised, errors.DataError):
    print("VIOLATION: the with block ended with a DataError which must prevail")
    violations += 1

# Command line: the message logged is the one of close(), not the rejected row.
folder = tempfile.mkdtemp()
cid_path = os.path.join(folder, "cid.csv")
data_path = os.path.join(folder, "data.csv")
with open(cid_path, "w") as cid_file:
    cid_file.write(CID_TEXT)
with open(data_path, "w") as data_file:
    data_file.write(DATA_TEXT)
log_stream = io.StringIO()
handler = logging.StreamHandler(log_stream)
logging.getLogger("cutplace").addHandler(handler)
logging.getLogger("cutplace").setLevel(logging.INFO)
exit_code = applications.main(["cutplace", cid_path, data_path])
logging.getLogger("cutplace").removeHandler(handler)
print("command line -> exit code %d, log:\n%s" % (exit_code, log_stream.getvalue()))
if "must be an integer number" not in log_stream.getvalue():
    print("VIOLATION: command line does not report the rejected row 3")
    violations += 1

sys.exit(1 if violations else 0)
