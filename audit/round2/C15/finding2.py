"""
Finding 2: ODS data supplied as a binary stream whose ``name`` is not a text
(tempfile.SpooledTemporaryFile: None; tempfile.TemporaryFile / open(fd): an int):
a missing sheet or a broken archive ends in AssertionError, or in a DataFormatError
that cannot be printed (TypeError in __str__), and validio.Reader cannot even be
created for a perfectly valid ODS.
"""
import sys

sys.path.insert(0, "/tmp/audit2_C15")
import io
import tempfile
import zipfile

from cutplace import errors, interface, rowio, validio

NS = (
    'xmlns:office="urn:oasis:names:tc:opendocument:xmlns:office:1.0" '
    'xmlns:table="urn:oasis:names:tc:opendocument:xmlns:table:1.0" '
    'xmlns:text="urn:oasis:names:tc:opendocument:xmlns:text:1.0"'
)
CONTENT = (
    '<?xml version="1.0" encoding="UTF-8"?>'
    "<office:document-content %s><office:body><office:spreadsheet>"
    '<table:table table:name="one"><table:table-row><table:table-cell><text:p>a</text:p></table:table-cell>'
    "</table:table-row></table:table>"
    "</office:spreadsheet></office:body></office:document-content>" % NS
)
ods_bytes_io = io.BytesIO()
with zipfile.ZipFile(ods_bytes_io, "w") as ods_zip:
    ods_zip.writestr("content.xml", CONTENT.encode("utf-8"))
ODS_BYTES = ods_bytes_io.getvalue()

violations = 0


def check(label, action, expected_rows=None):
    """Run action(); it must either return expected_rows or fail with a printable DataFormatError."""
    global violations
    try:
        result = action()
    except errors.DataFormatError as error:
        try:
            text = str(error)
        except Exception as str_error:
            print("%s: DataFormatError whose str() fails with %s: %s  <-- VIOLATION"
                  % (label, type(str_error).__name__, str_error))
            violations += 1
            return
        if expected_rows is None:
            print("%s: DataFormatError: %s" % (label, text))
        else:
            print("%s: unexpected DataFormatError: %s  <-- VIOLATION" % (label, text))
            violations += 1
    except BaseException as error:
        print("%s: %s %s  <-- VIOLATION" % (label, type(error).__name__, error))
        violations += 1
    else:
        if result == expected_rows:
            print("%s: rows %r" % (label, result))
        else:
            print("%s: rows %r instead of %r  <-- VIOLATION" % (label, result, expected_rows))
            violations += 1


def cid_for_sheet(sheet):
    cid = interface.Cid()
    cid.read("inline", [["D", "Format", "ods"], ["D", "Sheet", str(sheet)], ["F", "name"]])
    return cid


def reader_rows(stream, sheet):
    with validio.Reader(cid_for_sheet(sheet), stream) as reader:
        return list(reader.rows())


STREAM_FACTORIES = [
    ("io.BytesIO (no name; works)", io.BytesIO),
    ("tempfile.SpooledTemporaryFile (name None)", tempfile.SpooledTemporaryFile),
    ("tempfile.TemporaryFile (name is an int)", tempfile.TemporaryFile),
]
for stream_label, factory in STREAM_FACTORIES:
    for content_label, content in (("valid ods", ODS_BYTES), ("not a zip", b"a,b\n")):
        for sheet in (1, 2):
            if content_label == "not a zip" and sheet == 2:
                continue
            expected = [["a"]] if (content_label == "valid ods" and sheet == 1) else None
            for api_label, api in (("rowio.ods_rows", lambda s, k: list(rowio.ods_rows(s, k))),
                                   ("validio.Reader", reader_rows)):
                with factory() as stream:
                    stream.write(content)
                    stream.seek(0)
                    check("%s, %s, sheet %d, %s" % (stream_label, content_label, sheet, api_label),
                          lambda: api(stream, sheet), expected)

sys.exit(1 if violations else 0)
