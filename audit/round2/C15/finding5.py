"""
Finding 5: with "validate until 0" (command line: --until 0; API: validate(..., validate_until=0),
Reader.validate_rows()) the ODS file is never opened: a file that is not a zip archive, or a CID
that requests a sheet the file does not have, is reported as valid (exit code 0).
"""
import sys

sys.path.insert(0, "/tmp/audit2_C15")
import io
import logging
import os
import tempfile
import zipfile

from cutplace import applications, errors, validio

NS = (
    'xmlns:office="urn:oasis:names:tc:opendocument:xmlns:office:1.0" '
    'xmlns:table="urn:oasis:names:tc:opendocument:xmlns:table:1.0" '
    'xmlns:text="urn:oasis:names:tc:opendocument:xmlns:text:1.0"'
)
folder = tempfile.mkdtemp()
cid_path = os.path.join(folder, "cid_sheet5.csv")
with io.open(cid_path, "w", encoding="utf-8") as cid_file:
    cid_file.write("D,Format,ods\nD,Sheet,5\nF,name\n")
not_a_zip_path = os.path.join(folder, "not_a_zip.ods")
with io.open(not_a_zip_path, "w", encoding="utf-8") as not_a_zip_file:
    not_a_zip_file.write("a,b\n")
one_sheet_path = os.path.join(folder, "one_sheet.ods")
with zipfile.ZipFile(one_sheet_path, "w") as ods_zip:
    ods_zip.writestr(
        "content.xml",
        '<?xml version="1.0" encoding="UTF-8"?><office:document-content %s><office:body><office:spreadsheet>'
        '<table:table table:name="one"><table:table-row><table:table-cell><text:p>a</text:p></table:table-cell>'
        "</table:table-row></table:table></office:spreadsheet></office:body></office:document-content>" % NS,
    )

logging.basicConfig(level=logging.CRITICAL)
logging.raiseExceptions = False  # keep the '%d' % None logging error of applications.validate() quiet
violations = 0
for label, data_path in (("not a zip archive", not_a_zip_path), ("sheet 5 of a one-sheet file", one_sheet_path)):
    for until in ("1", "0"):
        exit_code = applications.main(["cutplace", "--until", until, cid_path, data_path])
        is_violation = exit_code == 0
        print("cutplace --until %s cid_sheet5.csv %s  [%s]: exit code %d%s"
              % (until, os.path.basename(data_path), label, exit_code, "  <-- VIOLATION" if is_violation else ""))
        violations += is_violation
    try:
        validio.validate(cid_path, data_path, validate_until=0)
        print("validio.validate(cid, %s, validate_until=0): no error  <-- VIOLATION" % os.path.basename(data_path))
        violations += 1
    except errors.DataFormatError as error:
        print("validio.validate(cid, %s, validate_until=0): DataFormatError: %s" % (os.path.basename(data_path), error))
    # For comparison: rows() with validate_until=0 does read the file (rows are passed on unvalidated).
    try:
        list(validio.rows(cid_path, data_path, validate_until=0))
        print("   (comparison) validio.rows(..., validate_until=0): no error")
    except errors.DataFormatError as error:
        print("   (comparison) validio.rows(..., validate_until=0): DataFormatError")
sys.exit(1 if violations else 0)
