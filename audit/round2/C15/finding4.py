"""
Finding 4: a file that holds a non-positive / non-numeric repeat count anywhere but on a
table:table-cell of the requested sheet is read without error:
 a) table:number-columns-repeated on table:table-column of the requested sheet,
 b) table:number-columns-repeated on a cell of ANOTHER sheet than the one requested.
"""
import sys

sys.path.insert(0, "/tmp/audit2_C15")
import os
import tempfile
import zipfile

from cutplace import errors, rowio

NS = (
    'xmlns:office="urn:oasis:names:tc:opendocument:xmlns:office:1.0" '
    'xmlns:table="urn:oasis:names:tc:opendocument:xmlns:table:1.0" '
    'xmlns:text="urn:oasis:names:tc:opendocument:xmlns:text:1.0"'
)


def write_ods(path, spreadsheet_body):
    content = (
        '<?xml version="1.0" encoding="UTF-8"?>'
        "<office:document-content %s><office:body><office:spreadsheet>%s"
        "</office:spreadsheet></office:body></office:document-content>" % (NS, spreadsheet_body)
    )
    with zipfile.ZipFile(path, "w") as ods_zip:
        ods_zip.writestr("content.xml", content.encode("utf-8"))


GOOD_ROW = "<table:table-row><table:table-cell><text:p>a</text:p></table:table-cell></table:table-row>"
violations = 0
folder = tempfile.mkdtemp()
ods_path = os.path.join(folder, "repeat.ods")

for count in ("0", "-1", "abc"):
    # a) on the column description of the sheet that is read
    write_ods(
        ods_path,
        '<table:table table:name="one"><table:table-column table:number-columns-repeated="%s"/>%s</table:table>'
        % (count, GOOD_ROW),
    )
    try:
        rows = list(rowio.ods_rows(ods_path, 1))
        print("a) table:table-column number-columns-repeated=%r, read sheet 1: no error, rows=%r  <-- VIOLATION"
              % (count, rows))
        violations += 1
    except errors.DataFormatError as error:
        print("a) table:table-column number-columns-repeated=%r: DataFormatError: %s" % (count, error))

    # b) on a cell of sheet 1 while sheet 2 is read
    write_ods(
        ods_path,
        '<table:table table:name="one"><table:table-row>'
        '<table:table-cell table:number-columns-repeated="%s"><text:p>x</text:p></table:table-cell>'
        '</table:table-row></table:table><table:table table:name="two">%s</table:table>' % (count, GOOD_ROW),
    )
    try:
        rows = list(rowio.ods_rows(ods_path, 2))
        print("b) cell of sheet 1 number-columns-repeated=%r, read sheet 2: no error, rows=%r  <-- VIOLATION"
              % (count, rows))
        violations += 1
    except errors.DataFormatError as error:
        print("b) cell of sheet 1 number-columns-repeated=%r, read sheet 2: DataFormatError: %s" % (count, error))
    try:
        list(rowio.ods_rows(ods_path, 1))
        print("   (same file, read sheet 1: no error)")
    except errors.DataFormatError as error:
        print("   (same file, read sheet 1: DataFormatError: %s)" % error)

sys.exit(1 if violations else 0)
