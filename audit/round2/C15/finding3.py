"""
Finding 3: literal white space in a paragraph (blanks, tabs, line breaks in the XML
text, for example in an indented / pretty printed content.xml) is returned as is
instead of being collapsed the way ODF 1.2 part 1, 6.1.2 defines the text of a paragraph.
"""
import sys

sys.path.insert(0, "/tmp/audit2_C15")
import os
import tempfile
import zipfile

from cutplace import rowio

NS = (
    'xmlns:office="urn:oasis:names:tc:opendocument:xmlns:office:1.0" '
    'xmlns:table="urn:oasis:names:tc:opendocument:xmlns:table:1.0" '
    'xmlns:text="urn:oasis:names:tc:opendocument:xmlns:text:1.0"'
)


def write_ods(path, paragraph_text):
    content = (
        '<?xml version="1.0" encoding="UTF-8"?>\n'
        "<office:document-content %s>\n <office:body>\n  <office:spreadsheet>\n"
        '   <table:table table:name="s">\n    <table:table-row>\n'
        '     <table:table-cell office:value-type="string">\n      <text:p>%s</text:p>\n     </table:table-cell>\n'
        "    </table:table-row>\n   </table:table>\n"
        "  </office:spreadsheet>\n </office:body>\n</office:document-content>\n" % (NS, paragraph_text)
    )
    with zipfile.ZipFile(path, "w") as ods_zip:
        ods_zip.writestr("content.xml", content.encode("utf-8"))


# (XML text of the paragraph, text of the cell according to ODF)
CASES = [
    ("\n       John Doe\n      ", "John Doe"),  # indented by a pretty printer
    ("John\n       Doe", "John Doe"),  # line wrapped by a pretty printer
    ("a  b", "a b"),  # two literal blanks are ONE blank (two would be ' <text:s/>')
    ("a\tb", "a b"),  # a literal tab is a blank (a tab would be <text:tab/>)
    ("a&#10;b", "a b"),  # a line feed is a blank (a line break would be <text:line-break/>)
    (" ", ""),  # only white space: empty cell
]
violations = 0
ods_path = os.path.join(tempfile.mkdtemp(), "white_space.ods")
for xml_text, expected in CASES:
    write_ods(ods_path, xml_text)
    rows = list(rowio.ods_rows(ods_path, 1))
    ok = rows == [[expected]]
    print("<text:p>%r</text:p>: expected %r, got %r%s" % (xml_text, [[expected]], rows, "" if ok else "  <-- VIOLATION"))
    if not ok:
        violations += 1
sys.exit(1 if violations else 0)
