"""
Finding 1: a non-positive or non-numeric table:number-rows-repeated is accepted
silently instead of failing with a DataFormatError.
"""
import sys

sys.path.insert(0, "/tmp/audit2_C15")
import os
import tempfile
import zipfile

from cutplace import errors, rowio

NS = (
    'xmlns:office="urn:oasis:names:tc:opendocument:xmlns:office:1.0" '
    'xmlns:table="urn:oasis:names:tc:opendocument:xmlns:table:1.0" '
    'xmlns:text="urn:oasis:names:tc:opendocument:xmlns:text:1.0"'
)


def write_ods(path, spreadsheet_body):
    content = (
        '<?xml version="1.0" encoding="UTF-8"?>'
        "<office:document-content %s><office:body><office:spreadsheet>%s"
        "</office:spreadsheet></office:body></office:document-content>" % (NS, spreadsheet_body)
    )
    with zipfile.ZipFile(path, "w") as ods_zip:
        ods_zip.writestr("mimetype", "application/vnd.oasis.opendocument.spreadsheet")
        ods_zip.writestr("content.xml", content.encode("utf-8"))


violations = 0
folder = tempfile.mkdtemp()
for count in ("0", "-3", "abc", "", "1.5"):
    ods_path = os.path.join(folder, "rows_repeated.ods")
    write_ods(
        ods_path,
        '<table:table table:name="s"><table:table-row table:number-rows-repeated="%s">'
        "<table:table-cell><text:p>a</text:p></table:table-cell></table:table-row></table:table>" % count,
    )
    try:
        rows = list(rowio.ods_rows(ods_path, 1))
        print("table:number-rows-repeated=%r: no error, rows=%r  <-- VIOLATION" % (count, rows))
        violations += 1
    except errors.DataFormatError as error:
        print("table:number-rows-repeated=%r: DataFormatError: %s" % (count, error))

# For comparison: the same counts on a cell are refused.
ods_path = os.path.join(folder, "columns_repeated.ods")
write_ods(
    ods_path,
    '<table:table table:name="s"><table:table-row>'
    '<table:table-cell table:number-columns-repeated="0"><text:p>a</text:p></table:table-cell>'
    "</table:table-row></table:table>",
)
try:
    list(rowio.ods_rows(ods_path, 1))
    print("table:number-columns-repeated='0': no error")
except errors.DataFormatError as error:
    print("(comparison) table:number-columns-repeated='0': DataFormatError: %s" % error)

sys.exit(1 if violations else 0)
