"""
Finding 2: for data format "fixed" a Constant field can never be marked as
allowed to be empty, because the documented always-empty Constant (empty rule,
mark X) is refused when it has a width.
Exit code 1 if the violation is present, 0 otherwise.
"""
import sys

sys.path.insert(0, "/tmp/audit2_C03")
import io

from cutplace import errors, interface, validio

violated = False

# The documented always-empty Constant works for delimited data ...
DELIMITED_CID = "d,format,delimited\nf,name,,,,Text\nf,always_empty,,X,,Constant\n"
cid = interface.create_cid_from_string(DELIMITED_CID)
with validio.Reader(cid, io.StringIO("abc,\n", newline="")) as reader:
    print("delimited: always-empty Constant accepts", list(reader.rows()))

# ... but cannot be declared for fixed data, where every field needs a width.
FIXED_CID = "d,format,fixed\nf,name,,,3,Text\nf,filler,,X,2,Constant\n"
print("fixed CID:\n" + FIXED_CID)
try:
    cid = interface.create_cid_from_string(FIXED_CID)
except errors.InterfaceError as error:
    print("CID refused:", error)
    violated = True
else:
    results = []
    with validio.Reader(cid, io.StringIO("abc  \nabcxy\n", newline=""), on_error="yield") as reader:
        for row_or_error in reader.rows():
            results.append(row_or_error)
    print("fixed rows:", [str(r) for r in results])
    # Blank cell must be accepted with the empty value, 'xy' must be rejected.
    if isinstance(results[0], Exception) or not isinstance(results[1], Exception):
        violated = True
    if cid.field_formats[1].validated("  ") != "":
        violated = True

# Same root cause: a constant shorter than the width, padded with blanks.
FIXED_CID_2 = 'd,format,fixed\nf,kind,,,3,Constant,"ab"\n'
try:
    cid = interface.create_cid_from_string(FIXED_CID_2)
    print("fixed Constant 'ab' in width 3: validated('ab ') ->", repr(cid.field_formats[0].validated("ab ")))
except errors.InterfaceError as error:
    print("fixed Constant 'ab' in width 3 refused (information only, same root cause):", error)

print("VIOLATION PRESENT" if violated else "no violation")
sys.exit(1 if violated else 0)
