"""
Finding 3 (API only): a field format added to a Cid with Cid.add_field_format()
- "it can be copied from existing Cid.field_formats" - keeps consulting the data
format it was created with: blank handling, width and allowed characters of
the Cid that actually validates the data are ignored.
Exit code 1 if the violation is present, 0 otherwise.
"""
import sys

sys.path.insert(0, "/tmp/audit2_C03")
import io

from cutplace import interface, validio

# An existing CID for delimited data: lower case letters only.
source_cid = interface.create_cid_from_string(
    "d,format,delimited\n" "d,allowed characters,97...122\n" "f,code,,,3,Text\n"
)

# A CID for fixed data built in the code, reusing the field of the CID above.
# Its data format allows digits only and the field is NOT marked as allowed to be empty.
fixed_cid = interface.Cid()
fixed_cid.add_data_format_row(["format", "fixed"])
fixed_cid.add_data_format_row(["allowed characters", "48...57, 32"])
for field_format in source_cid.field_formats:
    fixed_cid.add_field_format(field_format)
fixed_cid.data_format.validate()
print("data format of the CID in use:", fixed_cid.data_format)
print("field: %s, allowed to be empty: %s" % (fixed_cid.field_formats[0], fixed_cid.field_formats[0].is_allowed_to_be_empty))

DATA = "   \nabc\n123\n"
print("data: %r" % DATA)
expected = {"   ": False, "abc": False, "123": True}  # cell -> accepted?
violated = False
with validio.Reader(fixed_cid, io.StringIO(DATA, newline=""), on_error="yield") as reader:
    for cell, row_or_error in zip(["   ", "abc", "123"], reader.rows()):
        accepted = not isinstance(row_or_error, Exception)
        print("cell %r: expected accepted=%s, observed accepted=%s (%s)" % (cell, expected[cell], accepted, row_or_error))
        if accepted != expected[cell]:
            violated = True

# The blank cell is "rejected", but only by accident (blank is no lower case letter);
# without the foreign restriction the mandatory field accepts the blank cell:
source_cid_2 = interface.create_cid_from_string("d,format,delimited\nf,code,,,3,Text\n")
fixed_cid_2 = interface.Cid()
fixed_cid_2.add_data_format_row(["format", "fixed"])
fixed_cid_2.add_field_format(source_cid_2.field_formats[0])
fixed_cid_2.data_format.validate()
with validio.Reader(fixed_cid_2, io.StringIO("   \n", newline=""), on_error="yield") as reader:
    for row_or_error in reader.rows():
        accepted = not isinstance(row_or_error, Exception)
        print("mandatory field, fixed data, blank cell: expected accepted=False, observed accepted=%s (%s)" % (accepted, row_or_error))
        if accepted:
            violated = True

print("VIOLATION PRESENT" if violated else "no violation")
sys.exit(1 if violated else 0)
