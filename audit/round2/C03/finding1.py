"""
Finding 1: in delimited data with a single field that is marked as allowed to
be empty, a row whose only cell is empty (= an empty line) is rejected.
Exit code 1 if the violation is present, 0 otherwise.
"""
import sys

sys.path.insert(0, "/tmp/audit2_C03")
import io
import os
import tempfile

from cutplace import applications, errors, interface, validio

CID_TEXT = "d,format,delimited\nf,comment,,X,,Text\n"
DATA_TEXT = "first\n\nthird\n"  # row 2 holds one cell and that cell is empty

print("CID:\n" + CID_TEXT)
print("data: %r" % DATA_TEXT)

violated = False

# 1. API, every error mode.
for on_error in ("raise", "yield", "continue"):
    cid = interface.create_cid_from_string(CID_TEXT)
    results = []
    try:
        with validio.Reader(cid, io.StringIO(DATA_TEXT, newline=""), on_error=on_error) as reader:
            for row_or_error in reader.rows():
                results.append(row_or_error)
            rejected = reader.rejected_rows_count
    except errors.DataError as error:
        results.append(error)
        rejected = 1
    print("on_error=%-8s -> %s (rejected rows: %s)" % (on_error, [str(r) for r in results], rejected))
    if rejected or any(isinstance(r, Exception) for r in results):
        violated = True

# 2. The same cell is accepted once the file has a second column or the cell is quoted.
cid = interface.create_cid_from_string(CID_TEXT)
with validio.Reader(cid, io.StringIO('first\n""\nthird\n', newline="")) as reader:
    print('quoted empty cell ("") ->', list(reader.rows()))
field = cid.field_formats[0]
print("field.validated('') -> %r (the field itself accepts the empty cell)" % field.validated(""))

# 3. Command line.
with tempfile.TemporaryDirectory() as folder:
    cid_path = os.path.join(folder, "cid.csv")
    data_path = os.path.join(folder, "data.csv")
    with open(cid_path, "w", encoding="utf-8", newline="") as f:
        f.write(CID_TEXT)
    with open(data_path, "w", encoding="cp1252", newline="") as f:
        f.write(DATA_TEXT)
    exit_code = applications.main(["cutplace", cid_path, data_path])
    print("command line exit code: %d (expected 0)" % exit_code)
    if exit_code != 0:
        violated = True

print("VIOLATION PRESENT" if violated else "no violation")
sys.exit(1 if violated else 0)
