"""
Delimited data with an explicit 'Line delimiter' (LF): a header row that contains a
bare carriage return is split into two rows by the reader, which ignores the line
delimiter of the CID; the second half of the header row is then validated as data.
"""
import sys

sys.path.insert(0, "/tmp/audit2_C07")
import os
import tempfile

from cutplace import errors, interface, validio

CID_TEXT = "D,Format,Delimited\nD,Line delimiter,LF\nD,Header,1\nF,id,,,,Integer\n"
DATA = "id\rnumber\n1\n2\n"  # with LF as line delimiter: header row 'id\rnumber', data rows '1' and '2'

folder = tempfile.mkdtemp(prefix="finding3_", dir=os.path.dirname(os.path.abspath(__file__)))
data_path = os.path.join(folder, "data.csv")
with open(data_path, "w", newline="", encoding="cp1252") as data_file:
    data_file.write(DATA)

print("CID: %r" % CID_TEXT)
print("data file: %r" % DATA)
cid = interface.create_cid_from_string(CID_TEXT)
violation = False
try:
    rows = list(validio.rows(cid, data_path))
    print("rows() -> %r" % rows)
    if rows != [["1"], ["2"]]:
        print("VIOLATION: expected [['1'], ['2']]")
        violation = True
except errors.DataError as error:
    print("rows() -> %s: %s" % (type(error).__name__, error))
    print("VIOLATION: (part of) the header row was validated; expected [['1'], ['2']]")
    violation = True
with validio.Reader(cid, data_path, validate_until=0) as reader:
    rows = list(reader.rows())
print("rows(validate_until=0) -> %r" % rows)
if rows != [["1"], ["2"]]:
    print("VIOLATION: part of the header row is returned as data row; expected [['1'], ['2']]")
    violation = True
sys.exit(1 if violation else 0)
