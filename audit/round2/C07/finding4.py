"""
A validation limit of 2**63 or more (a perfectly legal "validate everything" limit)
makes the validate-only API fail with ValueError and the command line exit with 4,
while the row-reading API handles it.
"""
import sys

sys.path.insert(0, "/tmp/audit2_C07")
import io
import logging
import os
import tempfile

from cutplace import applications, errors, interface, validio

logging.basicConfig(level=logging.INFO)
CID_TEXT = "D,Format,Delimited\nD,Header,1\nF,id,,,,Integer\n"
GOOD = "id\n1\n2\n"
BAD = "id\n1\nx\n"
N = 2**63  # sys.maxsize + 1 on 64 bit
violations = 0
cid = interface.create_cid_from_string(CID_TEXT)

print("rows(..., validate_until=2**63) on good data:")
print("  %r" % list(validio.rows(cid, io.StringIO(GOOD), validate_until=N)))

for title, action in (
    ("validate(cid, good, validate_until=2**63)", lambda: validio.validate(cid, io.StringIO(GOOD), validate_until=N)),
    (
        "Reader(cid, good, validate_until=2**63).validate_rows()",
        lambda: validio.Reader(cid, io.StringIO(GOOD), validate_until=N).validate_rows(),
    ),
):
    try:
        action()
        print("%s -> ok" % title)
    except errors.DataError as error:
        print("%s -> %s" % (title, error))
        violations += 1
    except Exception as error:
        print("%s -> %s: %s" % (title, type(error).__name__, error))
        print("  VIOLATION: all rows are fine, nothing must be raised")
        violations += 1

try:
    validio.validate(cid, io.StringIO(BAD), validate_until=N)
    print("validate(cid, bad, 2**63) -> ok;  VIOLATION: row 3 <= N must be rejected")
    violations += 1
except errors.DataError as error:
    print("validate(cid, bad, 2**63) -> rejected as expected: %s" % error)
except Exception as error:
    print("validate(cid, bad, 2**63) -> %s: %s" % (type(error).__name__, error))
    print("  VIOLATION: row 3 <= N must be reported as DataError")
    violations += 1

folder = tempfile.mkdtemp(prefix="finding4_", dir=os.path.dirname(os.path.abspath(__file__)))
cid_path = os.path.join(folder, "cid.csv")
data_path = os.path.join(folder, "data.csv")
with open(cid_path, "w") as cid_file:
    cid_file.write(CID_TEXT)
with open(data_path, "w") as data_file:
    data_file.write(GOOD)
exit_code = applications.main(["cutplace", "--until", str(N), cid_path, data_path])
print("cutplace --until %d cid.csv data.csv (good data) -> exit code %d" % (N, exit_code))
if exit_code != 0:
    print("  VIOLATION: expected exit code 0")
    violations += 1
print("violations: %d" % violations)
sys.exit(1 if violations else 0)
