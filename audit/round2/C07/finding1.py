"""
Excel: the cells of a header row / of a row behind the validation limit decide
whether the rows to validate are accepted, because excel_rows() pads every row
to the width of the widest row of the sheet.
"""
import sys

sys.path.insert(0, "/tmp/audit2_C07")
import os
import tempfile

import xlsxwriter

from cutplace import errors, interface, validio

CID_TEXT = "D,Format,Excel\nD,Header,1\nF,id,,,,Integer\nF,name\n"


def write_xlsx(path, rows):
    workbook = xlsxwriter.Workbook(path)
    worksheet = workbook.add_worksheet()
    for y, row in enumerate(rows):
        for x, cell in enumerate(row):
            worksheet.write_string(y, x, cell)
    workbook.close()


def attempt(title, action):
    try:
        result = action()
        print("  %s -> ok: %r" % (title, result))
        return True
    except errors.DataError as error:
        print("  %s -> REJECTED: %s" % (title, error))
        return False


violations = 0
folder = tempfile.mkdtemp(prefix="finding1_", dir=os.path.dirname(os.path.abspath(__file__)))
cid = interface.create_cid_from_string(CID_TEXT)

print("A) header row (row 1, Header=1) has a third cell, the data rows 2 and 3 have exactly the 2 declared cells")
path_a = os.path.join(folder, "wide_header.xlsx")
write_xlsx(path_a, [["id", "name", "exported 2024-01-01"], ["1", "x"], ["2", "y"]])
if not attempt("rows(cid, data)", lambda: list(validio.rows(cid, path_a))):
    print("  VIOLATION: the content of the header row made (valid) data row 2 fail")
    violations += 1
if not attempt("validate(cid, data)", lambda: validio.validate(cid, path_a)):
    violations += 1

print("B) same file with a 2 cell header row as control")
path_b = os.path.join(folder, "plain_header.xlsx")
write_xlsx(path_b, [["id", "name"], ["1", "x"], ["2", "y"]])
if not attempt("rows(cid, data)", lambda: list(validio.rows(cid, path_b))):
    print("  (control failed; environment problem?)")

print("C) rows 2..3 are fine, row 4 (behind the limit) has a third cell")
path_c = os.path.join(folder, "wide_late_row.xlsx")
write_xlsx(path_c, [["id", "name"], ["1", "x"], ["2", "y"], ["3", "z", "extra"]])
if not attempt("rows(cid, data, validate_until=3)", lambda: list(validio.rows(cid, path_c, validate_until=3))):
    print("  VIOLATION: the only offending row is row 4 > N=3 but a rejection is reported (for row 2)")
    violations += 1
if not attempt("validate(cid, data, validate_until=2)", lambda: validio.validate(cid, path_c, validate_until=2)):
    print("  VIOLATION: validate() must stop after 2 data rows (rows 2, 3), both are fine")
    violations += 1
with validio.Reader(cid, path_c, validate_until=0) as reader:
    unvalidated_rows = list(reader.rows())
print("  rows(validate_until=0) -> %r" % unvalidated_rows)
if unvalidated_rows[:2] != [["1", "x"], ["2", "y"]]:
    print("  VIOLATION: rows 2 and 3 are not returned unchanged (they hold 2 cells in the file)")
    violations += 1

print("violations: %d" % violations)
sys.exit(1 if violations else 0)
