"""
Reader.validate_rows() (the validate-only entry point of Reader, also used by the
command line) with on_error='continue' does not stop after N data rows: rows that
were rejected are not counted, so it reads on and reports broken data behind N.
"""
import sys

sys.path.insert(0, "/tmp/audit2_C07")
import io

from cutplace import errors, interface, validio

violations = 0


def check(title, cid_text, data_text, validate_until, expected_end_position):
    global violations
    print(title)
    print("  data=%r, validate_until=%d" % (data_text, validate_until))
    results = {}
    for on_error in ("yield", "continue"):
        cid = interface.create_cid_from_string(cid_text)
        data_stream = io.StringIO(data_text)
        reader = validio.Reader(cid, data_stream, on_error=on_error, validate_until=validate_until)
        try:
            reader.validate_rows()
            outcome = "no error; accepted=%r, rejected=%r, stream read up to offset %d" % (
                reader.accepted_rows_count,
                reader.rejected_rows_count,
                data_stream.tell(),
            )
            failed = data_stream.tell() > expected_end_position
        except errors.DataError as error:
            outcome = "%s: %s" % (type(error).__name__, error)
            failed = True
        finally:
            reader.close()
        print("  on_error=%-8r -> %s" % (on_error, outcome))
        if failed:
            print("  VIOLATION: with N=%d the validate-only API must stop after data row %d" % (validate_until, validate_until))
            violations += 1


# Fixed data: row 1 is rejected (not a number), row 2 is cut off. N=1.
check(
    "fixed: row 1 rejected, row 2 (behind N=1) is cut off",
    "D,Format,Fixed\nD,Line delimiter,LF\nF,a,,,2,Integer\n",
    "xx\n1",
    1,
    3,
)
# Delimited data: row 1 rejected, row 2 fine, row 3 has an unterminated quote. N=2.
check(
    "delimited: row 1 rejected, row 2 fine, row 3 (behind N=2) has an unterminated quote",
    "D,Format,Delimited\nD,Line delimiter,LF\nF,a,,,,Integer\n",
    'x\n2\n"3\n',
    2,
    4,
)
print("violations: %d" % violations)
sys.exit(1 if violations else 0)
