"""
Command line: 'cutplace --until 0 CID DATA' (N = 0, documented as "disables validation for
the whole file") ends in a logging failure (traceback on stderr) because
Reader.accepted_rows_count still is None after Reader.validate_rows().
"""
import sys

sys.path.insert(0, "/tmp/audit2_C07")
import io
import logging
import os
import tempfile

from cutplace import applications, interface, validio

CID_TEXT = "D,Format,Delimited\nD,Header,1\nF,id,,,,Integer\n"
DATA = "id\n1\nx\n"

folder = tempfile.mkdtemp(prefix="finding5_", dir=os.path.dirname(os.path.abspath(__file__)))
cid_path = os.path.join(folder, "cid.csv")
data_path = os.path.join(folder, "data.csv")
with open(cid_path, "w") as cid_file:
    cid_file.write(CID_TEXT)
with open(data_path, "w") as data_file:
    data_file.write(DATA)

log_stream = io.StringIO()
stderr_stream = io.StringIO()
logging.basicConfig(level=logging.INFO, stream=log_stream)
actual_stderr = sys.stderr
sys.stderr = stderr_stream  # logging prints "--- Logging error ---" and the traceback here
try:
    exit_code = applications.main(["cutplace", "--until", "0", cid_path, data_path])
finally:
    sys.stderr = actual_stderr

print("cutplace --until 0 cid.csv data.csv -> exit code %d" % exit_code)
print("log:\n  " + log_stream.getvalue().replace("\n", "\n  "))
print("stderr:\n  " + stderr_stream.getvalue().replace("\n", "\n  "))

cid = interface.create_cid_from_string(CID_TEXT)
with validio.Reader(cid, io.StringIO(DATA), validate_until=0) as reader:
    reader.validate_rows()
print("Reader(..., validate_until=0).validate_rows(); accepted_rows_count=%r, rejected_rows_count=%r"
      % (reader.accepted_rows_count, reader.rejected_rows_count))

violation = False
if "Logging error" in stderr_stream.getvalue() or "Traceback" in stderr_stream.getvalue():
    print("VIOLATION: N = 0 must quietly validate nothing; instead the run ends with a traceback")
    violation = True
if "accepted 0 rows" not in log_stream.getvalue():
    print("VIOLATION: the summary '  accepted 0 rows' is missing from the log")
    violation = True
if exit_code != 0:
    print("VIOLATION: exit code must be 0")
    violation = True
sys.exit(1 if violation else 0)
