"""
Reading an Excel workbook from a binary stream (documented as "filelike object
or str" for cutplace.validate(), cutplace.rows(), cutplace.Reader) fails with
a TypeError, while the same call works for ODS and delimited data.
"""
import sys

sys.path.insert(0, "/tmp/audit2_C16")
import io
import os
import tempfile
import warnings

warnings.simplefilter("ignore")

import cutplace
from cutplace import rowio

target_path = os.path.join(tempfile.mkdtemp(), "finding4.xlsx")
table = [["name", "size"], ["anna", "17"]]
with rowio.XlsxRowWriter(target_path) as writer:
    writer.write_rows(table)

cid = cutplace.Cid()
cid.read(
    "inline",
    [["d", "format", "excel"], ["f", "name", "", "", "1...10"], ["f", "size", "", "", "1...10"]],
)
print("rows from path:           %r" % list(cutplace.rows(cid, target_path)))

has_violation = False
with open(target_path, "rb") as xlsx_file:
    xlsx_bytes = xlsx_file.read()
for description, open_stream in (
    ("open(path, 'rb')", lambda: open(target_path, "rb")),
    ("io.BytesIO(data)", lambda: io.BytesIO(xlsx_bytes)),
):
    with open_stream() as stream:
        try:
            rows_read = list(cutplace.rows(cid, stream))
            print("rows from %s: %r" % (description, rows_read))
            if rows_read != table:
                has_violation = True
        except Exception as error:
            print("rows from %s: %s: %s" % (description, type(error).__name__, error))
            has_violation = True
if has_violation:
    print("VIOLATION: an Excel workbook passed as stream cannot be read")
    sys.exit(1)
print("OK: Excel workbook can be read from a stream")
sys.exit(0)
