"""
XlsxRowWriter: a row that is refused (DataFormatError) leaves its first cells
in the sheet and the column counter where it stopped, so the rows written
afterwards are glued to the leftovers and shifted to the right.
"""
import sys

sys.path.insert(0, "/tmp/audit2_C16")
import os
import tempfile
import warnings

warnings.simplefilter("ignore")

from cutplace import errors, rowio

target_path = os.path.join(tempfile.mkdtemp(), "finding1.xlsx")
good_rows = [["a1", "b1", "c1"], ["a3", "b3", "c3"], ["a4", "b4", "c4"]]
bad_row = ["a2", "x" * 40000, "c2"]  # cell 2 exceeds Excel's limit of 32767 characters

writer = rowio.XlsxRowWriter(target_path)
writer.write_row(good_rows[0])
try:
    writer.write_row(bad_row)
    print("bad row was accepted (unexpected)")
except errors.DataFormatError as error:
    print("bad row refused as expected: %s..." % str(error)[:70])
print("location after refused row: %s" % writer.location)
writer.write_row(good_rows[1])
writer.write_row(good_rows[2])
writer.close()

rows_read = list(rowio.excel_rows(target_path))
print("accepted rows written:", good_rows)
print("rows read back:       ", rows_read)

# Tolerate a repair that leaves an empty row where the refused row would have been.
rows_read_without_empty = [row for row in rows_read if any(item != "" for item in row)]
if rows_read_without_empty == good_rows:
    print("OK: the accepted rows read back identically")
    sys.exit(0)
print("VIOLATION: accepted rows do not read back identically (leftovers of the refused row, shifted cells)")
sys.exit(1)
