"""
XlsxRowWriter: a string Excel cannot store (lone surrogate, as produced by
errors='surrogateescape' or by JSON '\\ud800') is accepted by write_row() and
blows up later in close() with a bare UnicodeEncodeError; no workbook is
written at all, so none of the rows can be read back.
"""
import sys

sys.path.insert(0, "/tmp/audit2_C16")
import os
import tempfile
import warnings

warnings.simplefilter("ignore")

from cutplace import errors, rowio

target_path = os.path.join(tempfile.mkdtemp(), "finding6.xlsx")
broken_text = b"caf\xe9".decode("utf-8", errors="surrogateescape")  # 'caf\udce9'
table = [["a", "b"], ["c", broken_text], ["e", "f"]]

writer = rowio.XlsxRowWriter(target_path)
refused_rows = []
for row in table:
    try:
        writer.write_row(row)
        print("write_row(%r): accepted" % (row,))
    except errors.DataFormatError as error:
        print("write_row(%r): refused with DataFormatError" % (row,))
        refused_rows.append(row)
close_error = None
try:
    writer.close()
    print("close(): ok")
except Exception as error:
    close_error = error
    print("close(): %s: %s" % (type(error).__name__, error))

rows_read = None
if os.path.exists(target_path):
    try:
        rows_read = list(rowio.excel_rows(target_path))
    except errors.DataFormatError as error:
        print("cannot read back: %s" % error)
print("target file exists: %s; rows read back: %r" % (os.path.exists(target_path), rows_read))

accepted_rows = [row for row in table if row not in refused_rows]
if (close_error is None) and (rows_read is not None) and ([r for r in rows_read if any(r)] == accepted_rows):
    print("OK: every accepted row reads back identically")
    sys.exit(0)
print("VIOLATION: rows accepted by write_row() cannot be read back; error is no CutplaceError and comes from close()")
sys.exit(1)
