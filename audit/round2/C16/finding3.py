"""
XlsxRowWriter: float items are stored with 16 significant digits only, so
numbers that need 17 digits read back as a DIFFERENT value (0.1 + 0.2 -> '0.3',
the largest float -> 'inf').
"""
import sys

sys.path.insert(0, "/tmp/audit2_C16")
import os
import tempfile
import warnings

warnings.simplefilter("ignore")

from cutplace import rowio

target_path = os.path.join(tempfile.mkdtemp(), "finding3.xlsx")
numbers = [0.1 + 0.2, 123456789.12345679, 1.7976931348623157e308, 2.675, 0.5]

with rowio.XlsxRowWriter(target_path) as writer:
    for number in numbers:
        writer.write_row([number, "x"])
rows_read = list(rowio.excel_rows(target_path))
has_violation = False
for number, row_read in zip(numbers, rows_read):
    text_read = row_read[0]
    is_same_value = float(text_read) == number
    print("written %r -> read %r: %s" % (number, text_read, "same value" if is_same_value else "DIFFERENT VALUE"))
    if not is_same_value:
        has_violation = True
if has_violation:
    print("VIOLATION: numbers written with XlsxRowWriter read back as text denoting a different value")
    sys.exit(1)
print("OK: all numbers read back with the value written")
sys.exit(0)
