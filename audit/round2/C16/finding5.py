"""
Sheet property: chart sheets (and other non-worksheet tabs) are not counted, so
in a workbook with the tabs [data1, chart, data2] "Sheet 3" - the third tab,
which holds data - is refused as missing and "Sheet 2" - a chart - silently
delivers the data of the third tab.
"""
import sys

sys.path.insert(0, "/tmp/audit2_C16")
import os
import tempfile
import warnings

warnings.simplefilter("ignore")

import xlsxwriter

import cutplace
from cutplace import errors, rowio
import xlrd

work_folder = tempfile.mkdtemp()
target_path = os.path.join(work_folder, "finding5.xlsx")
workbook = xlsxwriter.Workbook(target_path)
data1 = workbook.add_worksheet("data1")
chart_sheet = workbook.add_chartsheet("chart")
data2 = workbook.add_worksheet("data2")
for row_index, value in enumerate((3, 1, 2)):
    data1.write_number(row_index, 0, value)
data2.write_string(0, 0, "second data")
chart = workbook.add_chart({"type": "line"})
chart.add_series({"values": "=data1!$A$1:$A$3"})
chart_sheet.set_chart(chart)
workbook.close()
print("tabs of the workbook in the order Excel shows them: 1=data1, 2=chart (chart sheet), 3=data2")


def rows_for_sheet(sheet):
    cid = cutplace.Cid()
    cid.read("inline", [["d", "format", "excel"], ["d", "sheet", str(sheet)], ["f", "item", "", "", "1...20"]])
    try:
        return list(cutplace.rows(cid, target_path))
    except errors.CutplaceError as error:
        return "%s: %s" % (type(error).__name__, error)


result2 = rows_for_sheet(2)
result3 = rows_for_sheet(3)
print("Sheet=2 (a chart, no data) -> %r" % (result2,))
print("Sheet=3 (data2)            -> %r" % (result3,))
if result3 == [["second data"]]:
    print("OK: Sheet 3 delivers the third sheet of the workbook")
    sys.exit(0)
print("VIOLATION: the sheet read is not the one the Sheet property requests")
sys.exit(1)
