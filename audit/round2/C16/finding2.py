"""
XlsxRowWriter: datetime / date / time items are stored as bare numbers (no date
number format), so they read back as Excel serial numbers instead of
'YYYY-MM-DD hh:mm:ss' / 'hh:mm:ss'.
"""
import sys

sys.path.insert(0, "/tmp/audit2_C16")
import datetime
import os
import tempfile
import warnings

warnings.simplefilter("ignore")

from cutplace import rowio

target_path = os.path.join(tempfile.mkdtemp(), "finding2.xlsx")
row_to_write = [
    datetime.datetime(2023, 3, 15, 12, 34, 56),
    datetime.date(2023, 3, 15),
    datetime.time(12, 34, 56),
    "text",
    17,
]
expected_row = ["2023-03-15 12:34:56", "2023-03-15 00:00:00", "12:34:56", "text", "17"]

with rowio.XlsxRowWriter(target_path) as writer:
    writer.write_row(row_to_write)
rows_read = list(rowio.excel_rows(target_path))
print("row written: %r" % row_to_write)
print("expected   : %r" % expected_row)
print("row read   : %r" % rows_read[0])
if rows_read == [expected_row]:
    print("OK: dates and times read back as dates and times")
    sys.exit(0)
print("VIOLATION: dates / times written with XlsxRowWriter come back as serial numbers")
sys.exit(1)
