"""
Finding 3: Reader.rows() restarts the whole protocol every time it is called, without looking at
the state of the run:
  A) a second rows() on the same (partly read) stream resets all checks in the middle of the data
     set and skips the next data row as "header" (no calls for a row that is neither in the header
     nor beyond the validation limit);
  B) rows() after close() resets the checks again and feeds them rows after their end-of-data
     verdict and their cleanup; no further verdict / cleanup follows.
Exit 1 if a violation is present, 0 otherwise.
"""
import sys

sys.path.insert(0, "/tmp/audit2_C20")
import io

from cutplace import checks, errors, fields, interface, validio

LOG = []


class RecordedFieldFormat(fields.AbstractFieldFormat):
    def __init__(self, field_name, is_allowed_to_be_empty, length, rule, data_format):
        super().__init__(field_name, is_allowed_to_be_empty, length, rule, data_format, empty_value="")

    def validated_value(self, value):
        LOG.append(("field", value))
        return value


class RecordedCheck(checks.AbstractCheck):
    def reset(self):
        LOG.append(("reset",))

    def check_row(self, field_name_to_value_map, location):
        LOG.append(("row", tuple(field_name_to_value_map.values())))

    def check_at_end(self, location):
        LOG.append(("end",))

    def cleanup(self):
        LOG.append(("cleanup",))


CID_TEXT = "d,format,delimited\nd,header,1\nf,a,,,,Recorded\nc,a_is_unique,IsUnique,a\nc,recorded,Recorded,\n"
DATA = "header\nx\ny\nx\n"  # the second 'x' is a duplicate

has_violation = False

print("A) peek at the first row with next(reader.rows()), then read the rest with reader.rows()")
cid = interface.create_cid_from_string(CID_TEXT)
del LOG[:]
duplicate_was_rejected = False
try:
    with validio.Reader(cid, io.StringIO(DATA)) as reader:
        first_row = next(reader.rows())
        remaining_rows = list(reader.rows())
    print("   rows: %r + %r" % (first_row, remaining_rows))
except errors.CheckError as error:
    duplicate_was_rejected = True
    print("   duplicate rejected: %s" % error)
print("   calls: %r" % LOG)
reset_count = LOG.count(("reset",))
rows_seen = [entry[1] for entry in LOG if entry[0] == "row"]
if reset_count != 1:
    print("   VIOLATION: check was reset %d times for one data set (second time after it had seen a row)" % reset_count)
    has_violation = True
if ("y",) not in rows_seen:
    print("   VIOLATION: data row ['y'] caused no calls at all (treated as header row a second time)")
    has_violation = True
if not duplicate_was_rejected:
    print("   consequence: the duplicate 'x' went through IsUnique unnoticed")

print("B) reader.close(), then reader.rows() again")
cid = interface.create_cid_from_string(CID_TEXT)
del LOG[:]
reader = validio.Reader(cid, io.StringIO("header\nx\ny\n"))
reader.close()
calls_until_close = list(LOG)
try:
    rows_after_close = list(reader.rows())
    print("   rows() after close() delivered: %r" % rows_after_close)
except Exception as error:
    print("   rows() after close() refused: %s: %s" % (type(error).__name__, error))
reader.close()
calls_after_close = LOG[len(calls_until_close):]
print("   calls until close(): %r" % calls_until_close)
print("   calls after close(): %r" % calls_after_close)
if calls_after_close:
    print("   VIOLATION: checks and value hooks are called after the end-of-data verdict and cleanup of the run")
    has_violation = True

sys.exit(1 if has_violation else 0)
