"""
Finding 2: the value hook of a field format is called for the example of a field before the data
format is complete, i.e. with characters the CID does not allow ("allowed characters" declared
after the field row); the CID is accepted although its own example violates it.
Exit 1 if the violation is present, 0 otherwise.
"""
import sys

sys.path.insert(0, "/tmp/audit2_C20")
from cutplace import errors, fields, interface

HOOK_CALLS = []


class RecordedFieldFormat(fields.AbstractFieldFormat):
    def __init__(self, field_name, is_allowed_to_be_empty, length, rule, data_format):
        super().__init__(field_name, is_allowed_to_be_empty, length, rule, data_format, empty_value="")

    def validated_value(self, value):
        HOOK_CALLS.append(value)
        return value


def hook_calls_for(cid_text):
    del HOOK_CALLS[:]
    try:
        interface.create_cid_from_string(cid_text)
        result = "CID accepted"
    except errors.InterfaceError as error:
        result = "CID refused: %s" % error
    return result, list(HOOK_CALLS)


CID_ALLOWED_FIRST = "d,format,delimited\nd,allowed characters,32...126\nf,name,Müller,,,Recorded\n"
CID_ALLOWED_LAST = "d,format,delimited\nf,name,Müller,,,Recorded\nd,allowed characters,32...126\n"

print("example 'Müller', allowed characters 32...126 (so 'ü' is not allowed)")
result_first, calls_first = hook_calls_for(CID_ALLOWED_FIRST)
print("  D row before F row: %s; hook calls: %r" % (result_first, calls_first))
result_last, calls_last = hook_calls_for(CID_ALLOWED_LAST)
print("  D row after F row : %s; hook calls: %r" % (result_last, calls_last))

has_violation = any(any(ord(character) > 126 for character in value) for value in calls_first + calls_last)
if has_violation:
    print("VIOLATION: validated_value() was called with a value that contains characters that are not allowed")
    sys.exit(1)
print("OK: validated_value() was never called with characters that are not allowed")
sys.exit(0)
