"""
Finding 1: two DIFFERENT plugin classes with the same class name (same module file name in two
plugin folders) are silently treated as "duplicates"; one of them is picked arbitrarily instead
of the clash being reported like any other clash of class names.
Exit 1 if the violation is present, 0 otherwise.
"""
import sys

sys.path.insert(0, "/tmp/audit2_C20")
import os
import tempfile

from cutplace import errors, interface

PLUGIN = '''
from cutplace import errors, fields
class ColorFieldFormat(fields.AbstractFieldFormat):
    """Accepts only %(color)r."""
    def validated_value(self, value):
        if value != %(color)r:
            raise errors.FieldValueError("folder %(folder)s accepts only %(color)s")
        return value
'''

base = tempfile.mkdtemp(prefix="finding1_")
for folder, color in (("pa", "red"), ("pb", "blue")):
    os.mkdir(os.path.join(base, folder))
    with open(os.path.join(base, folder, "myplugins.py"), "w") as plugin_file:
        plugin_file.write(PLUGIN % {"color": color, "folder": folder})

print("import_plugins(pa) and import_plugins(pb); both contain myplugins.py with a DIFFERENT ColorFieldFormat")
interface.import_plugins(os.path.join(base, "pa"))
interface.import_plugins(os.path.join(base, "pb"))

try:
    cid = interface.create_cid_from_string("d,format,delimited\nf,color,,,,Color\n")
except errors.CutplaceError as error:
    print("OK: clash is reported: %s" % error)
    sys.exit(0)

color_format = cid.field_formats[0]
print("VIOLATION: CID was read without any error; field type 'Color' silently resolved to: %s" % color_format.__class__.__doc__)
for value in ("red", "blue"):
    try:
        color_format.validated(value)
        print("  value %r: accepted" % value)
    except errors.FieldValueError as error:
        print("  value %r: rejected (%s)" % (value, error))
print("(a built-in / any other pair of equally named classes gives: 'clashing plugin class names must be resolved')")
sys.exit(1)
