"""
Finding 2: with Format fixed, Writer.write_row() lays out the row (padding,
header rows) before / instead of validating it. Rows a delimited Writer
rejects with a CutplaceError (after which writing may go on, see docs/api.rst)
end in TypeError or AssertionError, and with ``python -O`` a header row that
does not fit is emitted as is, which makes the whole output unreadable.

Exits 1 if the violation is present, 0 if not. Run it with and without -O.
"""
import sys

sys.path.insert(0, "/tmp/audit2_C14")

import io
import warnings

warnings.simplefilter("ignore")

from cutplace import errors, interface, validio  # noqa: E402


def create_cid(data_format, header):
    is_fixed = data_format == "fixed"
    cid_rows = [
        ["d", "format", data_format],
        ["d", "header", str(header)],
        ["f", "name", "", "X", "4" if is_fixed else "", "Text"],
        ["f", "size", "", "X", "3" if is_fixed else "", "Integer"],
    ]
    if is_fixed:
        cid_rows.insert(2, ["d", "line delimiter", "lf"])
    cid = interface.Cid()
    cid.read("inline", cid_rows)
    return cid


def outcome_of_write(writer, row):
    try:
        writer.write_row(row)
        result = "accepted"
    except errors.CutplaceError as error:
        result = "rejected with %s" % type(error).__name__
    except Exception as error:
        result = "FAILED with %s: %s" % (type(error).__name__, str(error)[:70])
    print("    write_row(%r): %s" % (row, result))
    return result


def main():
    has_violation = False

    print("1. data rows with an item that is not a str (header = 0)")
    for data_format in ("delimited", "fixed"):
        print("  format=%s" % data_format)
        cid = create_cid(data_format, 0)
        target = io.StringIO()
        with validio.Writer(cid, target) as writer:
            for row in (["abc", 5], ["abc", None], [b"ab", "1"]):
                if not outcome_of_write(writer, row).startswith("rejected"):
                    has_violation = True
            outcome_of_write(writer, ["abc", "5"])
        print("    output: %r" % target.getvalue())

    print("2. header row that does not fit the fixed fields (header = 1)")
    cid = create_cid("fixed", 1)
    for header_row in (["customer", "size"], ["only one title"]):
        target = io.StringIO()
        with validio.Writer(cid, target) as writer:
            header_outcome = outcome_of_write(writer, header_row)
            if header_outcome.startswith("accepted"):
                outcome_of_write(writer, ["ab", "1"])
            else:
                # Nothing has been emitted, so the header is still due.
                outcome_of_write(writer, ["name", "siz"])
                outcome_of_write(writer, ["ab", "1"])
        print("    output: %r" % target.getvalue())
        if header_outcome.startswith("FAILED"):
            # Neither accepted nor rejected the way a Writer rejects rows.
            has_violation = True
        try:
            rows_read = list(validio.rows(cid, io.StringIO(target.getvalue())))
            print("    rows read back: %r" % rows_read)
            if rows_read != [["ab  ", "1  "]]:
                has_violation = True
        except errors.CutplaceError as error:
            print("    cannot read back: %s" % error)
            has_violation = True

    print("violation present" if has_violation else "no violation")
    return 1 if has_violation else 0


if __name__ == "__main__":
    sys.exit(main())
