"""
Finding 1: after a Writer rejected a row because it cannot be encoded, the
output stream is left in a broken state (stateful encoder: ISO-2022-JP shift
state, UTF-16/UTF-32/UTF-8-SIG byte order mark). Rows that are accepted
afterwards are emitted as garbage or the whole file cannot be read back.

Exits 1 if the violation is present, 0 if not.
"""
import sys

sys.path.insert(0, "/tmp/audit2_C14")

import os
import tempfile
import warnings

warnings.simplefilter("ignore")

from cutplace import errors, interface, validio  # noqa: E402


def create_cid(data_format, encoding):
    cid_rows = [
        ["d", "format", data_format],
        ["d", "encoding", encoding],
    ]
    if data_format == "fixed":
        cid_rows.append(["d", "line delimiter", "lf"])
        cid_rows.append(["f", "name", "", "", "4", "Text"])
    else:
        cid_rows.append(["f", "name", "", "", "", "Text"])
    cid = interface.Cid()
    cid.read("inline", cid_rows)
    return cid


def check(data_format, encoding, rows_to_write):
    """
    Write ``rows_to_write``, continue after rejections (as docs/api.rst allows
    after a CutplaceError), read back; True if the property holds.
    """
    cid = create_cid(data_format, encoding)
    target_path = os.path.join(tempfile.mkdtemp(), "written.dat")
    accepted_rows = []
    with validio.Writer(cid, target_path) as writer:
        for row in rows_to_write:
            try:
                writer.write_row(row)
                accepted_rows.append(row)
            except errors.CutplaceError as error:
                print("    rejected %r: %s: %s" % (row, type(error).__name__, str(error)[:70]))
    with open(target_path, "rb") as target_file:
        print("    accepted rows: %r" % accepted_rows)
        print("    bytes written: %r" % target_file.read())
    if data_format == "fixed":
        expected_rows = [[item.ljust(4) for item in row] for row in accepted_rows]
    else:
        expected_rows = accepted_rows
    try:
        actual_rows = list(validio.rows(cid, target_path))
    except errors.CutplaceError as error:
        print("    VIOLATION: cannot read back: %s" % error)
        return False
    print("    rows read back: %r" % actual_rows)
    if actual_rows != expected_rows:
        print("    VIOLATION: expected %r" % expected_rows)
        return False
    print("    ok")
    return True


def main():
    # The euro sign and a lone surrogate cannot be encoded, the rest can.
    scenarios = [
        ("iso2022_jp", [["あ€"], ["あ"]]),
        ("utf-16", [["a\ud800"], ["b"]]),
        ("utf-32", [["a\ud800"], ["b"]]),
        ("utf-8-sig", [["a\ud800"], ["﻿b"]]),
    ]
    has_violation = False
    for data_format in ("delimited", "fixed"):
        for encoding, rows_to_write in scenarios:
            print("format=%s, encoding=%s, rows to write=%r" % (data_format, encoding, rows_to_write))
            if not check(data_format, encoding, rows_to_write):
                has_violation = True
    print("violation present" if has_violation else "no violation")
    return 1 if has_violation else 0


if __name__ == "__main__":
    sys.exit(main())
