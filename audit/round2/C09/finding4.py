"""
C09 finding 4: a C row whose check class raises an InterfaceError without a
location (any plugin check that parses its rule with cutplace.ranges.Range, for
example FullNameLengthIsInRangeCheck from the project's own examples/plugins.py)
is rejected with a text that names no row at all. F rows get the row added by
Cid.add_field_format_row(); Cid.add_check_row() does not do that.
"""
import re
import sys

sys.path.insert(0, "/tmp/audit2_C09")

from cutplace import errors, interface  # noqa: E402

print("import plugins from /tmp/audit2_C09/examples (examples/plugins.py)")
interface.import_plugins("/tmp/audit2_C09/examples")

violations = 0
BASE = "d,format,delimited\nf,first_name\nf,last_name\n"
for rule in ["60...5", "abc", "1...2...3"]:
    cid_text = BASE + "c,full name must fit,FullNameLengthIsInRange,%s\n" % rule
    print("CID: %r" % cid_text)
    try:
        interface.create_cid_from_string(cid_text)
        print("  accepted (unexpected)")
        violations += 1
    except errors.InterfaceError as error:
        text = str(error)
        print("  rejected: %s" % text)
        print("  error.location = %r" % error.location)
        if not re.search(r"R4C\d", text):
            print("  VIOLATION: text does not name the offending row 4")
            violations += 1

# Control: the same kind of defect in an F row names its row.
try:
    interface.create_cid_from_string("d,format,delimited\nf,a,,,60...5\n")
except errors.InterfaceError as error:
    print("control (F row): %s" % error)

print("violations: %d" % violations)
sys.exit(1 if violations else 0)
