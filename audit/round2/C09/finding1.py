"""
C09 finding 1: the example of a field is checked against the data format as it
stands when the F row is read, not against the data format of the finished CID.
D rows that follow the field (decimal/thousands separator, allowed characters)
are legal and do change what the field accepts, so

 (a) a CID is accepted although its own field rejects the example, and
 (b) a CID is rejected although its own field would accept the example.
"""
import sys

sys.path.insert(0, "/tmp/audit2_C09")

from cutplace import errors, interface  # noqa: E402

violations = 0


def read(cid_text):
    print("CID:")
    for line in cid_text.splitlines():
        print("    " + line)
    try:
        result = interface.create_cid_from_string(cid_text)
        print("  -> accepted")
    except errors.InterfaceError as error:
        result = None
        print("  -> rejected: %s" % error)
    return result


def field_accepts(cid, value):
    try:
        cid.field_formats[0].validated(value)
        return True
    except errors.FieldValueError as error:
        print("  field %r rejects %r: %s" % (cid.field_names[0], value, error))
        return False


# (a) accepted, but the example is not accepted by its own field
for cid_text, example in [
    ('d,format,delimited\nf,amount,1.5,,,Decimal\nd,decimal separator,","\n', "1.5"),
    ('d,format,delimited\nf,name,abc\nd,allowed characters,"65...90"\n', "abc"),
]:
    cid = read(cid_text)
    if cid is not None:
        if not field_accepts(cid, example):
            print("  VIOLATION: CID accepted with an example its own field rejects")
            violations += 1
        else:
            print("  ok: field accepts its example")

# (b) rejected, although the field of the finished CID accepts the example
late = 'd,format,delimited\nf,amount,"1,5",,,Decimal\nd,decimal separator,","\n'
early = 'd,format,delimited\nd,decimal separator,","\nf,amount,"1,5",,,Decimal\n'
cid_early = read(early)
cid_late = read(late)
if (cid_early is not None) and field_accepts(cid_early, "1,5") and (cid_late is None):
    print("  VIOLATION: same rows in another (legal) order are rejected because of the example")
    violations += 1

print("violations: %d" % violations)
sys.exit(1 if violations else 0)
