"""
C09 finding 6: lengths that are not well-formed are accepted.

 (a) The test "a length must not be negative" in Cid.add_field_format_row()
     looks only at the aggregated lower/upper limit of the range, so a
     negative part goes through as soon as another part hides it.
 (b) A length consisting only of a comma is accepted and yields a field that
     rejects every value.
 (c) Overlapping parts are refused or accepted depending on their order.
"""
import sys

sys.path.insert(0, "/tmp/audit2_C09")

from cutplace import errors, interface  # noqa: E402

violations = 0


def is_accepted(length, data_format="delimited"):
    cid_text = 'd,format,%s\nf,a,,,"%s"\n' % (data_format, length)
    try:
        cid = interface.create_cid_from_string(cid_text)
        print("  length %-12r -> accepted, length.items=%s" % (length, cid.field_formats[0].length.items))
        return cid
    except errors.InterfaceError as error:
        print("  length %-12r -> rejected: %s" % (length, error))
        return None


print("(a) negative lengths")
for control in ["-1", "...-1", "-5...-1", "-5...-1, 3"]:
    if is_accepted(control) is not None:
        print("  VIOLATION: negative length accepted")
        violations += 1
for length in ["...-1, 3", "3, ...-1", "...-7, -5...-1, 3"]:
    if is_accepted(length) is not None:
        print("  VIOLATION: length with a negative part accepted")
        violations += 1

print("(b) length without any number")
cid = is_accepted(",")
if cid is not None:
    rejected_all = True
    for value in ["", "x", "xx"]:
        try:
            cid.field_formats[0].validated(value)
            rejected_all = False
        except errors.FieldValueError as error:
            print("    value %r: %s" % (value, error))
    print("  VIOLATION: length ',' accepted%s" % (" and the field rejects every value" if rejected_all else ""))
    violations += 1

print("(c) overlapping parts")
first = is_accepted("1...10, 5")
second = is_accepted("5, 1...10")
if (first is None) != (second is None):
    print("  VIOLATION: the same overlapping parts are refused in one order and accepted in the other")
    violations += 1

print("violations: %d" % violations)
sys.exit(1 if violations else 0)
