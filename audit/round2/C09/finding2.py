"""
C09 finding 2: a CID whose container cannot be parsed (stray quote in a CSV
CID, CSV CID that is not UTF-8, damaged *.xlsx / *.ods CID) is rejected with
errors.DataFormatError - a DataError, not an InterfaceError - and for CSV the
text names the row AFTER the offending one.
"""
import os
import sys
import tempfile

sys.path.insert(0, "/tmp/audit2_C09")

from cutplace import errors, interface, validio  # noqa: E402

violations = 0


def check(label, action, offending_row=None):
    global violations
    print(label)
    try:
        action()
        print("  accepted (unexpected)")
        violations += 1
    except errors.InterfaceError as error:
        text = str(error)
        print("  InterfaceError: %s" % text)
        if (offending_row is not None) and (("R%dC" % offending_row) not in text):
            print("  VIOLATION: text does not name row %d" % offending_row)
            violations += 1
    except errors.CutplaceError as error:
        print("  %s (InterfaceError expected): %s" % (type(error).__name__, error))
        print("  VIOLATION: rejection is not an interface error")
        violations += 1
        if offending_row is not None:
            location_text = str(error).split(":")[0]
            names_row = ("(%d)" % offending_row in location_text) or ("R%dC" % offending_row in location_text)
            if not names_row:
                print("  VIOLATION: location %r does not name offending row %d" % (location_text, offending_row))
                violations += 1


# Row 2 has a stray quote; rows 1 and 3 are fine.
stray_quote_cid = 'd,format,delimited\nf,"a"b\nf,c\n'
check("CSV CID with stray quote in row 2: %r" % stray_quote_cid,
      lambda: interface.create_cid_from_string(stray_quote_cid), 2)

# Row 1 is broken.
check("CSV CID with stray quote in row 1",
      lambda: interface.create_cid_from_string('d,format,"deli"mited\nf,a\n'), 1)

folder = tempfile.mkdtemp(prefix="c09_finding2_")
latin_path = os.path.join(folder, "latin1.csv")
with open(latin_path, "wb") as latin_file:
    latin_file.write("d,format,delimited\nf,a\n,comment: caf\xe9\n".encode("latin-1"))
check("CSV CID with a Latin-1 byte in a comment row (first cell empty, row 3)", lambda: interface.Cid(latin_path))

bad_xlsx_path = os.path.join(folder, "bad.xlsx")
with open(bad_xlsx_path, "wb") as bad_file:
    bad_file.write(b"PK\x03\x04 not really a workbook")
check("damaged *.xlsx CID", lambda: interface.Cid(bad_xlsx_path))

bad_ods_path = os.path.join(folder, "bad.ods")
with open(bad_ods_path, "wb") as bad_file:
    bad_file.write(b"not a zip archive")
check("damaged *.ods CID", lambda: interface.Cid(bad_ods_path))

# validio.validate() documents ":raises cutplace.errors.InterfaceError: on a broken CID".
stray_path = os.path.join(folder, "stray.csv")
with open(stray_path, "w", encoding="utf-8") as stray_file:
    stray_file.write(stray_quote_cid)
data_path = os.path.join(folder, "data.csv")
with open(data_path, "w", encoding="utf-8") as data_file:
    data_file.write("x,y\n")
check("validio.validate(broken_cid_path, data_path)", lambda: validio.validate(stray_path, data_path), 2)

print("violations: %d" % violations)
sys.exit(1 if violations else 0)
