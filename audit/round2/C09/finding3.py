"""
C09 finding 3: DistinctCount rules are checked against the internal name
"count" instead of the declared field names:

 (a) a rule naming the undeclared name "count" is accepted,
 (b) a rule that names only the (declared) field, but twice, is rejected.
"""
import sys

sys.path.insert(0, "/tmp/audit2_C09")

from cutplace import errors, interface  # noqa: E402

violations = 0


def read(cid_text):
    print("CID: %r" % cid_text)
    try:
        result = interface.create_cid_from_string(cid_text)
        print("  -> accepted, fields=%s, checks=%s" % (result.field_names, result.check_names))
    except errors.InterfaceError as error:
        result = None
        print("  -> rejected: %s" % error)
    return result


# (a) "count" is no declared field (the only field is "branch_id").
cid = read("d,format,delimited\nf,branch_id\nc,distinct branches,DistinctCount,branch_id < count\n")
if cid is not None:
    print("  VIOLATION: rule names 'count', which is not a declared field, but the CID is accepted")
    violations += 1
# Control: any other undeclared name is refused.
if read("d,format,delimited\nf,branch_id\nc,distinct branches,DistinctCount,branch_id < limit\n") is not None:
    print("  VIOLATION: rule names undeclared 'limit' but the CID is accepted")
    violations += 1

# (b) only declared fields are named.
cid = read("d,format,delimited\nf,branch_id\nc,distinct branches,DistinctCount,branch_id >= 1 and branch_id < 5\n")
if cid is None:
    print("  VIOLATION: rule names only the declared field 'branch_id' but the CID is rejected")
    violations += 1

print("violations: %d" % violations)
sys.exit(1 if violations else 0)
