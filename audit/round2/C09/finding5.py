"""
C09 finding 5: contradicting data format properties are reported for a row
that does not exist (one past the last row of the CID) instead of the D row
that causes the contradiction.
"""
import re
import sys

sys.path.insert(0, "/tmp/audit2_C09")

from cutplace import errors, interface  # noqa: E402

violations = 0
CASES = [
    # (CID, rows that may be called "offending")
    ('d,format,delimited\nd,item delimiter,";"\nd,quote character,";"\nf,a\nf,b\n,a comment row\n', (2, 3)),
    ('d,format,fixed\nd,decimal separator,","\nf,a,,,3\nd,thousands separator,","\nf,b,,,3\nc,u,IsUnique,a\n', (2, 4)),
    ('d,format,delimited\nd,item delimiter,cr\nf,a\n', (2,)),
]
for cid_text, offending_rows in CASES:
    row_count = len(cid_text.splitlines())
    print("CID (%d rows): %r" % (row_count, cid_text))
    try:
        interface.create_cid_from_string(cid_text)
        print("  accepted (unexpected)")
        violations += 1
    except errors.InterfaceError as error:
        text = str(error)
        print("  rejected: %s" % text)
        row_match = re.search(r"\(R(\d+)C\d+\)", text)
        named_row = int(row_match.group(1)) if row_match else None
        if named_row not in offending_rows:
            print("  VIOLATION: text names row %s (the CID has only %d rows); offending row is one of %s"
                  % (named_row, row_count, offending_rows))
            violations += 1

print("violations: %d" % violations)
sys.exit(1 if violations else 0)
