"""
C13 finding 3: validio.Reader on a text stream whose ``name`` is 0 - which is what open(0, ...) / os.fdopen(0)
give for standard input - fails with an AssertionError before a single character is read, although the stream
holds perfectly well-formed fixed data. rowio.fixed_rows() on the same stream works.

Exit code 1 if the violation is present, 0 otherwise.
"""
import subprocess
import sys

child_code = r"""
import sys
sys.path.insert(0, "/tmp/audit2_C13")
from cutplace import errors, interface, rowio, validio
cid = interface.Cid()
cid.read("cid", [["d", "format", "fixed"], ["d", "line delimiter", "lf"], ["f", "a", "", "", "3"], ["f", "b", "", "", "2"]])
stream = open(0, "r", encoding="utf-8", newline="", closefd=False)   # standard input by file descriptor
assert stream.name == 0
try:
    if sys.argv[1] == "reader":
        print("rows=%r" % list(validio.Reader(cid, stream).rows()))
    else:
        print("rows=%r" % list(rowio.fixed_rows(stream, "utf-8", [("a", 3), ("b", 2)], "\n")))
except errors.DataFormatError as error:
    print("DataFormatError: %s" % error)
except Exception as error:
    print("%s: %s" % (type(error).__name__, error))
"""
violated = False
for mode in ("rowio", "reader"):
    completed = subprocess.run(
        [sys.executable, "-W", "ignore", "-c", child_code, mode],
        input="abcde\nfghij\n",
        capture_output=True,
        text=True,
        timeout=60,
    )
    output = completed.stdout.strip() or completed.stderr.strip()[-300:]
    what = "rowio.fixed_rows(open(0, newline=''), ...)" if mode == "rowio" else "validio.Reader(cid, open(0, newline='')).rows()"
    print("stdin 'abcde\\nfghij\\n'  %s  ->  %s" % (what, output))
    if output != "rows=[['abc', 'de'], ['fgh', 'ij']]":
        print("  VIOLATION: expected rows=[['abc', 'de'], ['fgh', 'ij']]")
        violated = True
print("violation present" if violated else "no violation")
sys.exit(1 if violated else 0)
