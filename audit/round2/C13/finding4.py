"""
C13 finding 4: DataFormat.set_property('line_delimiter', None) - a value the method explicitly admits for this
property (its entry assertion lets None pass for KEY_LINE_DELIMITER, None being the internal spelling of "no line
delimiter" for fixed data) - ends in an AttributeError instead of setting "no line delimiter" or raising an
InterfaceError.

Exit code 1 if the violation is present, 0 otherwise.
"""
import sys

sys.path.insert(0, "/tmp/audit2_C13")
import io

from cutplace import data, errors, rowio

violated = False
data_format = data.DataFormat(data.FORMAT_FIXED)
print("DataFormat('fixed').set_property(KEY_LINE_DELIMITER, None)")
try:
    data_format.set_property(data.KEY_LINE_DELIMITER, None)
    print("  -> line_delimiter=%r" % data_format.line_delimiter)
    if data_format.line_delimiter is not None:
        print("  VIOLATION: None must mean 'no line delimiter'")
        violated = True
    else:
        data_format.validate()
        rows = list(rowio.fixed_rows(io.StringIO("abcd"), "utf-8", [("a", 2)], data_format.line_delimiter))
        print("  -> rows of 'abcd': %r" % rows)
        violated = rows != [["ab"], ["cd"]]
except errors.InterfaceError as error:
    print("  -> refused properly: InterfaceError: %s" % error)
except AssertionError as error:
    print("  -> refused as broken precondition: AssertionError: %s" % error)
except Exception as error:
    print("  -> VIOLATION: %s: %s" % (type(error).__name__, error))
    violated = True

print("violation present" if violated else "no violation")
sys.exit(1 if violated else 0)
