"""
C13 finding 1: fixed_rows() with an EMPTY list of field widths.

 - line_delimiter=None: never terminates (neither an error nor rows), whatever the input, even "".
 - any other line delimiter setting: input consisting only of line delimiters ("\n\n\n") is accepted and
   yields no rows at all, so the rows cannot reproduce the input.

Exit code 1 if the violation is present, 0 otherwise.
"""
import sys

sys.path.insert(0, "/tmp/audit2_C13")
import io
import subprocess

violated = False

# Part A: the hang (run in a child process so a time-out can be applied).
child_code = r"""
import sys
sys.path.insert(0, "/tmp/audit2_C13")
import io
from cutplace import rowio, errors
try:
    rows = list(rowio.fixed_rows(io.StringIO(%r), "utf-8", [], None))
    print("rows=%%r" %% rows)
except (errors.DataFormatError, AssertionError, ValueError) as error:
    print("refused: %%s: %%s" %% (type(error).__name__, error))
"""
for text in ["", "abc"]:
    print("fixed_rows(StringIO(%r), 'utf-8', [], line_delimiter=None)" % text)
    try:
        completed = subprocess.run(
            [sys.executable, "-W", "ignore", "-c", child_code % text], capture_output=True, text=True, timeout=10
        )
        output = completed.stdout.strip()
        print("  ->", output)
        if output.startswith("rows=") and text != "":
            print("  VIOLATION: non empty input accepted without any row")
            violated = True
    except subprocess.TimeoutExpired:
        print("  -> VIOLATION: no result after 10 seconds (endless loop: neither a data format error nor rows)")
        violated = True

# Part B: delimiters only, no rows.
from cutplace import errors, rowio

for line_delimiter, text in [("any", "\n\r\n\r"), ("\n", "\n\n\n"), ("\r\n", "\r\n\r\n")]:
    print("fixed_rows(StringIO(%r), 'utf-8', [], line_delimiter=%r)" % (text, line_delimiter))
    try:
        rows = list(rowio.fixed_rows(io.StringIO(text), "utf-8", [], line_delimiter))
        print("  -> rows=%r" % rows)
        if rows == []:
            print("  VIOLATION: input %r accepted, but zero rows cannot reproduce it" % text)
            violated = True
    except (errors.DataFormatError, AssertionError, ValueError) as error:
        print("  -> refused: %s: %s" % (type(error).__name__, error))

print("violation present" if violated else "no violation")
sys.exit(1 if violated else 0)
