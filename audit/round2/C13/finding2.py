"""
C13 finding 2: under line delimiter 'any' fixed_rows() consumes one character of the NEXT record before it hands
out a row that ends with a lone CR. A caller that stops after a row (Reader.validate_rows() with validate_until,
itertools.islice, break) and goes on reading the same stream gets a record that silently lacks its first character.

Exit code 1 if the violation is present, 0 otherwise.
"""
import sys

sys.path.insert(0, "/tmp/audit2_C13")
import io

from cutplace import errors, interface, rowio, validio

violated = False
fields = [("a", 2)]


def rest_of(stream):
    try:
        return list(rowio.fixed_rows(stream, "utf-8", fields, "any"))
    except errors.DataFormatError as error:
        return "DataFormatError: %s" % error


for delimiter in ["\n", "\r\n", "\r"]:
    text = delimiter.join(["ab", "cd", "ef"])
    stream = io.StringIO(text)
    first_reader = rowio.fixed_rows(stream, "utf-8", fields, "any")
    first_row = next(first_reader)
    first_reader.close()
    position = stream.tell()
    rest = rest_of(stream)
    print("input %r: first row %r, stream position afterwards %d, second fixed_rows() on the stream: %r" % (text, first_row, position, rest))
    if rest != [["cd"], ["ef"]]:
        print("  VIOLATION: expected [['cd'], ['ef']] - the 'c' was swallowed as look-ahead behind the CR")
        violated = True

# Silent variant: width 1, the second reader reports nothing at all.
stream = io.StringIO("a\rb")
first_reader = rowio.fixed_rows(stream, "utf-8", [("a", 1)], "any")
first_row = next(first_reader)
first_reader.close()
try:
    rest = list(rowio.fixed_rows(stream, "utf-8", [("a", 1)], "any"))
except errors.DataFormatError as error:
    rest = "DataFormatError: %s" % error
print("input 'a\\rb', width 1: first row %r, second fixed_rows() on the stream: %r" % (first_row, rest))
if rest != [["b"]]:
    print("  VIOLATION: expected [['b']] - record 'b' is lost without any error")
    violated = True

# The same through the documented API: validate only the first row, then process the remainder.
cid = interface.Cid()
cid.read("cid", [["d", "format", "fixed"], ["d", "line delimiter", "any"], ["f", "a", "", "", "2"]])
stream = io.StringIO("ab\rcd\ref")
with validio.Reader(cid, stream, validate_until=1) as reader:
    reader.validate_rows()
remainder = stream.read()
print("Reader(cid, StringIO('ab\\rcd\\ref'), validate_until=1).validate_rows(); remaining stream: %r" % remainder)
if remainder != "cd\ref":
    print("  VIOLATION: expected 'cd\\ref'")
    violated = True

print("violation present" if violated else "no violation")
sys.exit(1 if violated else 0)
