"""
Reading from (or writing to) a stream whose ``name`` attribute exists but is
empty - ``tempfile.SpooledTemporaryFile`` (None), ``open(0)`` (0) - fails with
an AssertionError before any row is accepted or rejected.
"""
import io
import sys
import tempfile
import warnings

warnings.filterwarnings("ignore")
sys.path.insert(0, "/tmp/audit2_C04")

from cutplace import errors, interface, validio  # noqa: E402

CID_TEXT = """d,format,delimited
f,a,,,,Integer
"""
DATA_TEXT = "1\r\nx\r\n2\r\n"


class UnnamedStringIO(io.StringIO):
    name = ""


def spooled():
    result = tempfile.SpooledTemporaryFile(mode="w+", newline="", encoding="utf-8")
    result.write(DATA_TEXT)
    result.seek(0)
    return result


violations = 0
for description, stream in [
    ("tempfile.SpooledTemporaryFile (name is None)", spooled()),
    ("StringIO with name ''", UnnamedStringIO(DATA_TEXT)),
]:
    print("read from %s; name=%r" % (description, stream.name))
    cid = interface.create_cid_from_string(CID_TEXT)
    try:
        results = []
        with validio.Reader(cid, stream, on_error="yield") as reader:
            for row_or_error in reader.rows():
                results.append(row_or_error)
                print("   ", repr(row_or_error) if isinstance(row_or_error, list) else str(row_or_error))
        is_ok = (
            len(results) == 3
            and results[0] == ["1"]
            and isinstance(results[1], errors.DataError)
            and results[1].location.line == 1
            and results[2] == ["2"]
        )
        if not is_ok:
            print("    unexpected result")
            violations += 1
    except errors.DataError as error:
        print("    unexpected %s: %s" % (type(error).__name__, error))
        violations += 1
    except Exception as error:
        print("    %s: %r (instead of rows ['1'], DataError at row 2, ['2'])" % (type(error).__name__, error))
        violations += 1

print("write to tempfile.SpooledTemporaryFile")
cid = interface.create_cid_from_string(CID_TEXT)
try:
    with tempfile.SpooledTemporaryFile(mode="w+", newline="", encoding="utf-8") as target:
        with validio.Writer(cid, target) as writer:
            writer.write_row(["1"])
    print("    ok")
except Exception as error:
    print("    %s: %r" % (type(error).__name__, error))
    violations += 1

if violations:
    print("VIOLATION: %d case(s)" % violations)
    sys.exit(1)
print("ok")
sys.exit(0)
