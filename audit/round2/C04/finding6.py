"""
Excel data cannot be read from a stream: Reader / validate() / rows() accept
"a filelike object or a path", ODS data are read from a binary stream, Excel
data end in a TypeError.
"""
import os
import sys
import tempfile
import warnings

warnings.filterwarnings("ignore")
sys.path.insert(0, "/tmp/audit2_C04")

import xlsxwriter  # noqa: E402

from cutplace import errors, interface, validio  # noqa: E402

folder = tempfile.mkdtemp()
xlsx_path = os.path.join(folder, "data.xlsx")
workbook = xlsxwriter.Workbook(xlsx_path)
worksheet = workbook.add_worksheet()
for row_index, row in enumerate([["id", "name"], [1, "Alice"], ["x", "Bob"], [3, "Carol"]]):
    worksheet.write_row(row_index, 0, row)
workbook.close()

CID_TEXT = "d,format,excel\nd,header,1\nf,id,,,,Integer\nf,name\n"


def results_for(source):
    cid = interface.create_cid_from_string(CID_TEXT)
    with validio.Reader(cid, source, on_error="yield") as reader:
        return [item if isinstance(item, list) else str(item) for item in reader.rows()]


expected = results_for(xlsx_path)
print("from path  :", expected)
violation = False
with open(xlsx_path, "rb") as xlsx_stream:
    try:
        actual = results_for(xlsx_stream)
        print("from stream:", actual)
        violation = actual != expected
    except errors.DataError as error:
        print("from stream: %s: %s" % (type(error).__name__, error))
        violation = True
    except Exception as error:
        print("from stream: %s: %s" % (type(error).__name__, error))
        violation = True
if violation:
    print("VIOLATION: rows of an Excel stream are neither accepted nor rejected with a data error")
    sys.exit(1)
print("ok")
sys.exit(0)
