"""
Writer for fixed data: a row with an item that is no string is not rejected
with a data error naming the field but ends in a TypeError (the same row is
rejected properly by a Writer for delimited data).
"""
import io
import sys
import warnings

warnings.filterwarnings("ignore")
sys.path.insert(0, "/tmp/audit2_C04")

from cutplace import errors, interface, validio  # noqa: E402

FIELDS = "f,name,,,5\nf,size,,,3,Integer\n"
violations = 0
for format_name in ("delimited", "fixed"):
    cid = interface.create_cid_from_string("d,format,%s\n%s" % (format_name, FIELDS))
    for row in (["Alice", 180], [None, "180"]):
        print("%s: write_row(%r)" % (format_name, row))
        target = io.StringIO()
        writer = validio.Writer(cid, target)
        try:
            writer.write_row(row)
            print("    accepted; written: %r" % target.getvalue())
            violations += 1
        except errors.DataError as error:
            print("    %s: %s" % (type(error).__name__, error))
        except Exception as error:
            print("    %s: %s   <-- no data error, no location, no field name" % (type(error).__name__, error))
            violations += 1
if violations:
    print("VIOLATION: %d row(s) not reported as data error" % violations)
    sys.exit(1)
print("ok")
sys.exit(0)
