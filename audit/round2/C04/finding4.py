"""
A row rejected by a row check is always reported at column 1, whatever field
the check is about.
"""
import io
import sys
import warnings

warnings.filterwarnings("ignore")
sys.path.insert(0, "/tmp/audit2_C04")

from cutplace import errors, interface, validio  # noqa: E402

CID_TEXT = """d,format,delimited
d,header,1
f,surname
f,first_name
f,customer_id,,,,Integer
c,customer_id must be unique,IsUnique,customer_id
"""
DATA_TEXT = "surname,first_name,customer_id\r\nMiller,John,1\r\nDoe,Jane,2\r\nSmith,Bob,1\r\n"

cid = interface.create_cid_from_string(CID_TEXT)
with validio.Reader(cid, io.StringIO(DATA_TEXT), on_error="yield") as reader:
    results = list(reader.rows())
for result in results:
    print(repr(result) if isinstance(result, list) else "%s: %s" % (type(result).__name__, result))

error = results[2]
assert isinstance(error, errors.CheckError), error
expected_column = cid.field_index("customer_id") + 1
reported_column = error.location.cell + 1
see_also_column = error.see_also_location.cell + 1
print("offending field 'customer_id' is column %d" % expected_column)
print("    reported column: %d, column of the first occurrence: %d" % (reported_column, see_also_column))
if reported_column != expected_column:
    print("VIOLATION: the duplicate value is in column %d but the error points to column %d"
          % (expected_column, reported_column))
    sys.exit(1)
print("ok")
sys.exit(0)
