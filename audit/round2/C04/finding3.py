"""
A row with too few or too many items is reported at column 1 and the message
does not name the field that is missing.
"""
import io
import sys
import warnings

warnings.filterwarnings("ignore")
sys.path.insert(0, "/tmp/audit2_C04")

from cutplace import errors, interface, validio  # noqa: E402

CID_TEXT = """d,format,delimited
d,header,1
f,customer_id,,,,Integer
f,surname
f,branch
"""
DATA_TEXT = "customer_id,surname,branch\r\n1,Miller,x\r\n2,Doe\r\n3,Smith,y,z\r\n"

cid = interface.create_cid_from_string(CID_TEXT)
with validio.Reader(cid, io.StringIO(DATA_TEXT), on_error="yield") as reader:
    results = list(reader.rows())
for result in results:
    print(repr(result) if isinstance(result, list) else "%s: %s" % (type(result).__name__, result))

violations = 0
too_few, too_many = results[1], results[2]
assert isinstance(too_few, errors.DataError)
assert isinstance(too_many, errors.DataError)

print("row 3 = ['2', 'Doe']: first column without an item is 3 (field 'branch')")
print("    reported column: %d" % (too_few.location.cell + 1))
if too_few.location.cell + 1 != 3:
    violations += 1
names_field = "branch" in too_few.message
print("    message names 'branch': %s" % names_field)
if not names_field:
    violations += 1

print("row 4 = ['3', 'Smith', 'y', 'z']: first column without a field is 4")
print("    reported column: %d" % (too_many.location.cell + 1))
if too_many.location.cell + 1 != 4:
    violations += 1

if violations:
    print("VIOLATION: %d deviation(s)" % violations)
    sys.exit(1)
print("ok")
sys.exit(0)
