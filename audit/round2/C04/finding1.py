"""
A delimited row the container parser rejects is reported with the wrong row
number (one too high, and counted in physical lines instead of rows) and
without any column.
"""
import io
import sys
import warnings

warnings.filterwarnings("ignore")
sys.path.insert(0, "/tmp/audit2_C04")

from cutplace import errors, interface, validio  # noqa: E402

CID_TEXT = """d,format,delimited
d,header,1
f,a
f,b
"""

# (description, data, 1-based number of the broken row)
CASES = [
    ("broken quote in row 3 (= line 3)", 'a,b\r\n1,2\r\n"x"y,2\r\n3,4\r\n', 3),
    ("row 2 spans two lines, broken quote in row 3 (= line 4)", 'a,b\r\n"1\r\n1",2\r\n"x"y,2\r\n3,4\r\n', 3),
    ("unterminated quote starting in row 3", 'a,b\r\n1,2\r\n3,"4\r\n', 3),
]

violations = 0
for description, data_text, broken_row in CASES:
    cid = interface.create_cid_from_string(CID_TEXT)
    print("case: %s; data=%r" % (description, data_text))
    try:
        with validio.Reader(cid, io.StringIO(data_text), on_error="yield") as reader:
            for row_or_error in reader.rows():
                print("   ", row_or_error)
        print("    no error at all")
        violations += 1
    except errors.DataError as error:
        reported_row = error.location.line + 1
        print("    %s: %s" % (type(error).__name__, error))
        print("    broken row is %d, location says %d" % (broken_row, reported_row))
        if reported_row != broken_row:
            violations += 1
if violations:
    print("VIOLATION: %d case(s) report the wrong row number" % violations)
    sys.exit(1)
print("ok")
sys.exit(0)
