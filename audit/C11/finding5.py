"""
Finding 5: escape character backslash is accepted although the documented set
of escape characters consists of the double quote only.
Exit 1 if the violation is present, 0 otherwise.
"""
import re
import sys

sys.path.insert(0, "/tmp/audit_C11")
import warnings

warnings.simplefilter("ignore")
from cutplace import errors, interface

with open("/tmp/audit_C11/docs/writing-an-icd.rst", encoding="utf-8") as docs_file:
    docs_text = docs_file.read()
match = re.search(r"Escape character\n(.*?)\n\n", docs_text, re.DOTALL)
documented = " ".join(match.group(1).split())
print("documentation:", documented)
docs_mention_backslash = ("backslash" in documented.lower()) or ("\\" in documented)

cid = interface.Cid()
try:
    cid.read("inline", [["D", "Format", "Delimited"], ["D", "Escape character", "\\"], ["F", "a"]])
    accepted = True
    print("D,Escape character,\\  -> accepted, escape_character=%r" % cid.data_format.escape_character)
except errors.InterfaceError as error:
    accepted = False
    print("D,Escape character,\\  -> refused: %s" % error)

violated = accepted and not docs_mention_backslash
print("VIOLATION PRESENT (accepted value is outside the documented set)" if violated else "ok")
sys.exit(1 if violated else 0)
