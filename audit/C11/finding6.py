"""
Finding 6: set_property('line_delimiter', None) - a value the method's own
precondition explicitly allows - ends in AttributeError instead of setting
"no line delimiter" (fixed) or refusing with InterfaceError (delimited).
Exit 1 if the violation is present, 0 otherwise.
"""
import sys

sys.path.insert(0, "/tmp/audit_C11")
import warnings

warnings.simplefilter("ignore")
from cutplace import data, errors

violated = False
for format_name in (data.FORMAT_FIXED, data.FORMAT_DELIMITED):
    data_format = data.DataFormat(format_name)
    try:
        data_format.set_property(data.KEY_LINE_DELIMITER, None)
        print("%s: accepted, line_delimiter=%r" % (format_name, data_format.line_delimiter))
        if format_name == data.FORMAT_DELIMITED:
            violated = True
    except errors.InterfaceError as error:
        print("%s: refused with InterfaceError: %s" % (format_name, error))
    except Exception as error:
        print("%s: CRASH %s: %s" % (format_name, type(error).__name__, error))
        violated = True
print("for comparison, allowed_characters=None (the other property for which None is allowed):")
data_format = data.DataFormat(data.FORMAT_FIXED)
data_format.set_property(data.KEY_ALLOWED_CHARACTERS, None)
print("    accepted, allowed_characters=%r" % data_format.allowed_characters)

print("VIOLATION PRESENT" if violated else "ok")
sys.exit(1 if violated else 0)
