"""
Finding 1: thousands separator ' ' (space) is documented but refused.
Exit 1 if the violation is present, 0 otherwise.
"""
import sys

sys.path.insert(0, "/tmp/audit_C11")
import io
import warnings

warnings.simplefilter("ignore")
from cutplace import data, errors, interface, validio

violated = False

print("docs/writing-an-icd.rst, 'Thousands separator': Typical values are: comma (,), dot (.) and the space character.")
for fmt in ("delimited", "fixed"):
    data_format = data.DataFormat(fmt)
    try:
        data_format.set_property(data.KEY_THOUSANDS_SEPARATOR, " ")
        print("%s: set_property('thousands_separator', ' ') accepted -> %r" % (fmt, data_format.thousands_separator))
        if data_format.thousands_separator != " ":
            violated = True
    except errors.InterfaceError as error:
        print("%s: set_property('thousands_separator', ' ') REFUSED: %s" % (fmt, error))
        violated = True

print("same through a complete CID and data '12 345 678.5':")
cid = interface.Cid()
try:
    cid.read(
        "inline",
        [
            ["D", "Format", "Delimited"],
            ["D", "Item delimiter", ";"],
            ["D", "Thousands separator", " "],
            ["F", "amount", "", "", "", "Decimal"],
        ],
    )
    rows = list(validio.rows(cid, io.StringIO("12 345 678.5\n")))
    print("  accepted rows:", rows)
except errors.CutplaceError as error:
    print("  REFUSED:", error)
    violated = True

print("VIOLATION PRESENT" if violated else "ok")
sys.exit(1 if violated else 0)
