"""
Finding 4: some invalid item delimiter values are not refused with an
InterfaceError but crash with IndentationError / TabError (SyntaxError raised
by the Python tokenizer) or UnicodeEncodeError; the command line ends with
exit code 4 ("something unexpected happened and the program code must be fixed").
Exit 1 if the violation is present, 0 otherwise.
"""
import logging
import os
import sys
import tempfile

sys.path.insert(0, "/tmp/audit_C11")
import warnings

warnings.simplefilter("ignore")
from cutplace import applications, data, errors, interface

violated = False
for value in ["  1\n 2", "\t;\n ;", '"\ud800"']:
    data_format = data.DataFormat(data.FORMAT_DELIMITED)
    try:
        data_format.set_property(data.KEY_ITEM_DELIMITER, value)
        print("%r: accepted as %r" % (value, data_format.item_delimiter))
        violated = True
    except errors.InterfaceError as error:
        print("%r: refused with InterfaceError (fine): %s" % (value, error))
    except Exception as error:
        print("%r: CRASH %s: %s" % (value, type(error).__name__, error))
        violated = True

# Command line: a CSV CID whose value cell holds two lines.
logging.basicConfig(level=logging.CRITICAL)
folder = tempfile.mkdtemp()
cid_path = os.path.join(folder, "cid.csv")
with open(cid_path, "w", encoding="utf-8", newline="") as cid_file:
    cid_file.write('D,Format,Delimited\nD,Item delimiter,"  1\n 2"\nF,a\n')
exit_code = applications.main(["cutplace", cid_path])
print("command line with such a CID: exit code %d (expected 1 = CID must be fixed, 4 = unexpected error)" % exit_code)
if exit_code == 4:
    violated = True

print("VIOLATION PRESENT" if violated else "ok")
sys.exit(1 if violated else 0)
