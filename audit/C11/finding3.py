"""
Finding 3: an item delimiter given literally is refused for characters that
str.strip() regards as white space (ASCII unit separator 0x1f, 0x1c-0x1e,
no-break space, ...), while the decimal, hex, quoted and (for tab) symbolic
spellings of the very same character are accepted.
Exit 1 if the violation is present, 0 otherwise.
"""
import sys

sys.path.insert(0, "/tmp/audit_C11")
import io
import warnings

warnings.simplefilter("ignore")
from cutplace import data, errors, interface, validio


def item_delimiter_for(spelling):
    data_format = data.DataFormat(data.FORMAT_DELIMITED)
    try:
        data_format.set_property(data.KEY_ITEM_DELIMITER, spelling)
        data_format.validate()
    except errors.InterfaceError as error:
        return "refused: %s" % error
    return data_format.item_delimiter


violated = False
for code, name in ((0x1F, "ASCII unit separator"), (0x1E, "ASCII record separator"), (0xA0, "no-break space"), (0x09, "tab")):
    character = chr(code)
    spellings = [character, str(code), hex(code), '"\\x%02x"' % code]
    if code == 9:
        spellings.append("Tab")
    print("%s (U+%04X):" % (name, code))
    results = []
    for spelling in spellings:
        result = item_delimiter_for(spelling)
        results.append(result)
        print("    %-10r -> %r" % (spelling, result))
    if code == 9:
        print("    (informative only: tests/test_data.py wants a blank-only cell such as a literal tab to be refused)")
    elif any(result != character for result in results):
        violated = True

print("complete CID with the literal unit separator:")
cid = interface.Cid()
try:
    cid.read("inline", [["D", "Format", "Delimited"], ["D", "Item delimiter", "\x1f"], ["F", "a"], ["F", "b"]])
    print("    accepted; rows:", list(validio.rows(cid, io.StringIO("x\x1fy\n"))))
except errors.InterfaceError as error:
    print("    refused:", error)
    violated = True

print("VIOLATION PRESENT" if violated else "ok")
sys.exit(1 if violated else 0)
