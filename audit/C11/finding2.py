"""
Finding 2: decimal / thousands separator rows that follow a Decimal field row
are accepted and shown by the data format, but the field keeps using the
defaults ('.' and none) - the set property silently has no effect.
Exit 1 if the violation is present, 0 otherwise.
"""
import sys

sys.path.insert(0, "/tmp/audit_C11")
import io
import os
import tempfile
import warnings

warnings.simplefilter("ignore")
from cutplace import applications, errors, interface, validio

DATA = "1.234,5\n"


def outcome(cid_rows):
    cid = interface.Cid()
    try:
        cid.read("inline", cid_rows)
    except errors.InterfaceError as error:
        return "CID refused: %s" % error
    print(
        "    data format says: decimal_separator=%r thousands_separator=%r"
        % (cid.data_format.decimal_separator, cid.data_format.thousands_separator)
    )
    try:
        return "data accepted: %r" % list(validio.rows(cid, io.StringIO(DATA)))
    except errors.DataError as error:
        return "data rejected: %s" % error


d_rows = [["D", "Format", "Delimited"], ["D", "Item delimiter", ";"]]
sep_rows = [["D", "Decimal separator", ","], ["D", "Thousands separator", "."]]
f_rows = [["F", "amount", "", "", "", "Decimal"]]

print("data: %r" % DATA)
print("1) separators declared BEFORE the field:")
before = outcome(d_rows + sep_rows + f_rows)
print("   ", before)
print("2) the same rows, separators declared AFTER the field:")
after = outcome(d_rows + f_rows + sep_rows)
print("   ", after)

# The same through the command line.
folder = tempfile.mkdtemp()
cid_path = os.path.join(folder, "cid.csv")
data_path = os.path.join(folder, "data.csv")
with open(cid_path, "w", encoding="utf-8") as cid_file:
    cid_file.write('D,Format,Delimited\nD,Item delimiter,;\nF,amount,,,,Decimal\nD,Decimal separator,","\nD,Thousands separator,.\n')
with open(data_path, "w", encoding="cp1252") as data_file:
    data_file.write(DATA)
exit_code = applications.main(["cutplace", cid_path, data_path])
print("3) command line with the rows of 2): exit code %d (informative only; 0=accepted, 1=rejected or CID refused)" % exit_code)

# Either both orders give the same result, or the late rows must be refused with an InterfaceError.
violated = before.startswith("data accepted") and not (after.startswith("data accepted") or after.startswith("CID refused"))
print("VIOLATION PRESENT" if violated else "ok")
sys.exit(1 if violated else 0)
