"""Encoding idna is accepted by the CID loader, but everything written with it silently vanishes."""
import io
import os
import sys
import tempfile
import warnings

sys.path.insert(0, "/tmp/audit_C12")
warnings.simplefilter("ignore")
import cutplace
from cutplace import errors, interface, rowio


def make_cid(props=(), nfields=3):
    """A delimited CID built by the CID loader from rows as they would show up in a CID file."""
    cid = interface.Cid()
    rows = [["d", "format", "delimited"]]
    rows += [["d", name, value] for name, value in props]
    rows += [["f", "f%d" % i, "", "x", "", "Text"] for i in range(nfields)]
    cid.read("inline", rows)
    return cid


violated = False
table = [["a", "b", "c"], ["d", "e", "f"]]
for encoding in ("idna",):
    try:
        cid = make_cid([("encoding", encoding)])
    except errors.InterfaceError as error:
        print("encoding %s refused by the CID loader: %s" % (encoding, error))
        continue
    path = os.path.join(tempfile.mkdtemp(), "data.csv")
    print("encoding=%s accepted; writing %r" % (encoding, table))
    with cutplace.Writer(cid, path) as writer:
        writer.write_rows(table)
    with open(path, "rb") as written:
        print("  written bytes: %r" % written.read())
    try:
        back = list(cutplace.rows(cid, path))
    except errors.CutplaceError as error:
        back = "%s: %s" % (type(error).__name__, error)
    print("  read back: %r" % (back,))
    if back != table:
        print("  VIOLATION")
        violated = True
sys.exit(1 if violated else 0)
