"""A cell with more than 131072 characters can be written but not read back."""
import io
import os
import sys
import tempfile
import warnings

sys.path.insert(0, "/tmp/audit_C12")
warnings.simplefilter("ignore")
import cutplace
from cutplace import errors, interface, rowio


def make_cid(props=(), nfields=3):
    """A delimited CID built by the CID loader from rows as they would show up in a CID file."""
    cid = interface.Cid()
    rows = [["d", "format", "delimited"]]
    rows += [["d", name, value] for name, value in props]
    rows += [["f", "f%d" % i, "", "x", "", "Text"] for i in range(nfields)]
    cid.read("inline", rows)
    return cid


cid = make_cid()  # all defaults: ',' '"' '"' minimal, any
df = cid.data_format
for length in (131072, 131073):
    table = [["x" * length, "b", "c"]]
    out = io.StringIO(newline="")
    writer = rowio.DelimitedRowWriter(out, df)
    writer.write_rows(table)
    print("wrote 1 row whose first cell has %d characters" % length)
    try:
        back = list(rowio.delimited_rows(io.StringIO(out.getvalue(), newline=""), df))
    except errors.DataFormatError as error:
        print("reading back failed: %s" % error)
        print("VIOLATION")
        sys.exit(1)
    if back != table:
        print("read back a different table")
        print("VIOLATION")
        sys.exit(1)
    print("read back identical table")
print("ok")
sys.exit(0)
