"""With an encoding that maps two characters to the same byte (shift_jis, euc_jp, cp932, ...) cells come back changed."""
import io
import os
import sys
import tempfile
import warnings

sys.path.insert(0, "/tmp/audit_C12")
warnings.simplefilter("ignore")
import cutplace
from cutplace import errors, interface, rowio


def make_cid(props=(), nfields=3):
    """A delimited CID built by the CID loader from rows as they would show up in a CID file."""
    cid = interface.Cid()
    rows = [["d", "format", "delimited"]]
    rows += [["d", name, value] for name, value in props]
    rows += [["f", "f%d" % i, "", "x", "", "Text"] for i in range(nfields)]
    cid.read("inline", rows)
    return cid


path = os.path.join(tempfile.mkdtemp(), "data.csv")
violated = False
cases = [
    # (encoding, escape character, table)
    ("shift_jis", '"', [["¥", "‾", "c"]]),  # YEN SIGN, OVERLINE
    ("shift_jis", "\\", [["¥", "¥a", "c"]]),
    ("euc_jp", '"', [["¥100", "b", "c"]]),
    ("cp932", '"', [["¢", "−", "c"]]),  # CENT SIGN, MINUS SIGN
]
for encoding, escape_character, table in cases:
    cid = make_cid([("encoding", encoding), ("escape character", escape_character)])
    print("encoding=%s, escape character=%s, table=%r" % (encoding, escape_character, table))
    with cutplace.Writer(cid, path) as writer:
        writer.write_rows(table)
    with open(path, "rb") as written:
        print("  written bytes: %r" % written.read())
    try:
        back = list(cutplace.rows(cid, path))
    except errors.CutplaceError as error:
        back = "%s: %s" % (type(error).__name__, error)
    print("  read back:     %r" % (back,))
    if back != table:
        print("  VIOLATION")
        violated = True
sys.exit(1 if violated else 0)
