"""Cells (or an accepted item delimiter) outside the repertoire of the encoding of the data format cannot be written at all."""
import io
import os
import sys
import tempfile
import warnings

sys.path.insert(0, "/tmp/audit_C12")
warnings.simplefilter("ignore")
import cutplace
from cutplace import errors, interface, rowio


def make_cid(props=(), nfields=3):
    """A delimited CID built by the CID loader from rows as they would show up in a CID file."""
    cid = interface.Cid()
    rows = [["d", "format", "delimited"]]
    rows += [["d", name, value] for name, value in props]
    rows += [["f", "f%d" % i, "", "x", "", "Text"] for i in range(nfields)]
    cid.read("inline", rows)
    return cid


violated = False
cases = [
    # (data format properties, table)
    ([], [["Łódź", "b", "c"]]),  # default encoding cp1252
    ([], [["\x81", "b", "c"]]),  # U+0081 is not even in cp1252
    ([("encoding", "ascii")], [["é", "b", "c"]]),
    # The CID loader accepts an item delimiter that the encoding cannot represent: nothing with 2 columns can be written.
    ([("item delimiter", "0x3a9")], [["a", "b", "c"]]),
    ([("encoding", "utf-8"), ("item delimiter", "0xd800")], [["a", "b", "c"]]),
]
for props, table in cases:
    cid = make_cid(props)
    df = cid.data_format
    print("%s, table=%a" % (df, table))
    out_path = os.path.join(tempfile.mkdtemp(), "data.csv")
    try:
        with rowio.DelimitedRowWriter(out_path, df) as writer:
            writer.write_rows(table)
        back = list(rowio.delimited_rows(out_path, df))
    except errors.DataFormatError as error:
        back = "DataFormatError: %s" % error
    print("  result: %a" % (back,))
    if back != table:
        print("  VIOLATION")
        violated = True
sys.exit(1 if violated else 0)
