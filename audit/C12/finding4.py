"""cutplace.Writer cannot be created from the path of a CID although cutplace.Reader / rows / validate can."""
import io
import os
import sys
import tempfile
import warnings

sys.path.insert(0, "/tmp/audit_C12")
warnings.simplefilter("ignore")
import cutplace
from cutplace import errors, interface, rowio


def make_cid(props=(), nfields=3):
    """A delimited CID built by the CID loader from rows as they would show up in a CID file."""
    cid = interface.Cid()
    rows = [["d", "format", "delimited"]]
    rows += [["d", name, value] for name, value in props]
    rows += [["f", "f%d" % i, "", "x", "", "Text"] for i in range(nfields)]
    cid.read("inline", rows)
    return cid


folder = tempfile.mkdtemp()
cid_path = os.path.join(folder, "cid.csv")
with open(cid_path, "w", encoding="utf-8") as cid_file:
    cid_file.write("d,format,delimited\nd,encoding,utf-8\nd,item delimiter,;\nf,a,,X\nf,b,,X\n")
table = [["x", "y;z"], ["", " \n"]]
data_path = os.path.join(folder, "data.csv")
print("CID %s:" % cid_path)
print(open(cid_path).read())
try:
    with cutplace.Writer(cid_path, data_path) as writer:
        writer.write_rows(table)
except AttributeError as error:
    print("cutplace.Writer(cid_path, data_path) failed: AttributeError: %s" % error)
    print("VIOLATION (reading with the same CID path works: %r)"
          % list(cutplace.rows(cid_path, io.StringIO("x;y\r\n", newline=""))))
    sys.exit(1)
back = list(cutplace.rows(cid_path, data_path))
print("read back: %r" % back)
sys.exit(0 if back == table else 1)
