"""
Finding 2: the end-of-data check of a run is evaluated on whatever the CID
was used for last - not on the rows of the run that is being closed.  It is
enough that close() of one run comes after another run has started; no rows
are read in an interleaved manner.

Exit code 1 = violation present, 0 = not present.
"""
import sys

sys.path.insert(0, "/tmp/audit_C08")
import io
import warnings

warnings.simplefilter("ignore")
import cutplace
from cutplace import errors, interface

CID_TEXT = """d,format,delimited
f,id,,,,Integer
f,name
c,at most 2 distinct names,DistinctCount,name < 3
c,at least 1 distinct id,DistinctCount,id >= 1
"""
DATA_A = "1,a\n2,b\n"  # 2 distinct names: passes
DATA_B = "3,c\n4,d\n5,e\n"  # 3 distinct names: fails "name < 3"


def fresh():
    return interface.create_cid_from_string(CID_TEXT)


def close_result(validator):
    try:
        validator.close()
        return "close ok"
    except errors.CheckError as error:
        return "CheckError: %s" % error


violations = 0


def compare(title, observed, expected):
    global violations
    print("--- %s" % title)
    print("  one shared CID : %s" % observed)
    print("  fresh CID each : %s" % expected)
    if observed != expected:
        violations += 1
        print("  => VIOLATION")
    else:
        print("  => ok")


# (a) read all of A, read all of B, then close A, close B.
def read_read_close_close(cid_a, cid_b):
    reader_a = cutplace.Reader(cid_a, io.StringIO(DATA_A))
    rows_a = list(reader_a.rows())
    reader_b = cutplace.Reader(cid_b, io.StringIO(DATA_B))
    rows_b = list(reader_b.rows())
    return ["A: %d rows, %s" % (len(rows_a), close_result(reader_a)), "B: %d rows, %s" % (len(rows_b), close_result(reader_b))]


shared = fresh()
compare("(a) A read completely, B read completely, A.close(), B.close()", read_read_close_close(shared, shared), read_read_close_close(fresh(), fresh()))

# (b) the same with nested ``with`` blocks and the data sets swapped: the
#     broken data set B passes because A was validated before B is closed.
def nested_with(cid_b, cid_a):
    try:
        with cutplace.Reader(cid_b, io.StringIO(DATA_B)) as reader_b:
            reader_b.validate_rows()
            with cutplace.Reader(cid_a, io.StringIO(DATA_A)) as reader_a:
                reader_a.validate_rows()
        return "B accepted"
    except errors.CheckError as error:
        return "B: CheckError: %s" % error


shared = fresh()
compare("(b) with Reader(cid, B): validate_rows(); with Reader(cid, A): validate_rows()", nested_with(shared, shared), nested_with(fresh(), fresh()))

# (c) a Reader that was created but never used is closed: this wipes the
#     bookkeeping of the run that did read data, which then fails "id >= 1".
def unused_reader_closed(cid_unused, cid_a):
    unused = cutplace.Reader(cid_unused, io.StringIO(DATA_A))
    reader_a = cutplace.Reader(cid_a, io.StringIO(DATA_A))
    rows_a = list(reader_a.rows())
    unused_result = close_result(unused)  # has no rows, so "id >= 1" fails here in any case
    return ["unused: " + unused_result, "A: %d rows, %s" % (len(rows_a), close_result(reader_a))]


shared = fresh()
compare("(c) unused = Reader(cid, ...); A read completely; unused.close(); A.close()", unused_reader_closed(shared, shared), unused_reader_closed(fresh(), fresh()))

# (d) Writer never closed until a later read with the same CID is over.
def writer_closed_late(cid_w, cid_r):
    writer = cutplace.Writer(cid_w, io.StringIO())
    writer.write_row(["1", "a"])
    try:
        cutplace.validate(cid_r, io.StringIO(DATA_B))
        validate_result = "validate(B) ok"
    except errors.CheckError as error:
        validate_result = "validate(B): CheckError"
    return [validate_result, "writer: " + close_result(writer)]


shared = fresh()
compare("(d) Writer writes 1 row; validate(cid, B); writer.close()", writer_closed_late(shared, shared), writer_closed_late(fresh(), fresh()))

print()
print("violations: %d" % violations)
sys.exit(1 if violations else 0)
