"""
Finding 1: runs that overlap in time on one CID share the row level
bookkeeping of IsUnique / DistinctCount (it is kept in the check objects owned
by the CID and reset at run-specific moments).

Exit code 1 = violation present, 0 = not present.
"""
import sys

sys.path.insert(0, "/tmp/audit_C08")
import io
import warnings

warnings.simplefilter("ignore")
import cutplace
from cutplace import errors, interface

CID_TEXT = """d,format,delimited
f,id,,,,Integer
f,name
c,id must be unique,IsUnique,id
"""
FIXED_CID_TEXT = """d,format,fixed
f,id,,,2,Integer
f,name,,,1
c,id must be unique,IsUnique,id
"""


def fresh(text=CID_TEXT):
    return interface.create_cid_from_string(text)


def write_all(writer, rows):
    result = []
    for row in rows:
        try:
            writer.write_row(list(row))
            result.append("written")
        except errors.CutplaceError as error:
            result.append("rejected: %s" % error)
    return result


def read_all(cid, text, on_error="yield", between_rows=None):
    result = []
    for row_or_error in cutplace.rows(cid, io.StringIO(text), on_error=on_error):
        result.append(str(row_or_error))
        if between_rows is not None:
            between_rows()
    return result


violations = 0


def compare(title, observed, expected):
    global violations
    print("--- %s" % title)
    print("  one shared CID : %s" % observed)
    print("  fresh CID each : %s" % expected)
    if observed != expected:
        violations += 1
        print("  => VIOLATION")
    else:
        print("  => ok")


# (a) The obvious "copy" program: read rows validated against a CID and write
#     them with a Writer using the same CID.
for title, cid_text, data in [
    ("(a1) delimited copy loop: Writer(cid) fed from rows(cid)", CID_TEXT, "1,a\n2,b\n"),
    ("(a2) fixed copy loop: Writer(cid) fed from rows(cid)", FIXED_CID_TEXT, " 1a\n 2b\n"),
]:
    def copy_loop(reader_cid, writer_cid):
        out = io.StringIO()
        writer = cutplace.Writer(writer_cid, out)
        outcome = []
        for row in cutplace.rows(reader_cid, io.StringIO(data)):
            outcome.append("read %s" % row)
            outcome.extend(write_all(writer, [row]))
        writer.close()
        return outcome

    shared = fresh(cid_text)
    compare(title, copy_loop(shared, shared), copy_loop(fresh(cid_text), fresh(cid_text)))

# (b) A Writer is opened first, another file is validated with the same CID,
#     then the first row is written.
def writer_first(cid_for_writer, cid_for_validate):
    writer = cutplace.Writer(cid_for_writer, io.StringIO())
    cutplace.validate(cid_for_validate, io.StringIO("1,a\n"))
    outcome = write_all(writer, [("1", "z")])
    writer.close()
    return outcome


shared = fresh()
compare("(b) Writer opened, validate(cid, other data), then write_row(['1','z'])", writer_first(shared, shared), writer_first(fresh(), fresh()))

# (c) Nested reads: while iterating over file A, file B is validated with the
#     same CID.  A has a duplicate id that is not detected anymore.
def nested(cid_outer, cid_inner_factory):
    return read_all(
        cid_outer, "1,a\n1,b\n", between_rows=lambda: cutplace.validate(cid_inner_factory(), io.StringIO("7,x\n"))
    )


shared = fresh()
compare("(c) rows(cid, A with duplicate id 1) with validate(cid, B) in the loop body", nested(shared, lambda: shared), nested(fresh(), fresh))

# (d) Nested reads the other way round: a row of A is rejected because of B's rows.
def nested_false_duplicate(cid_outer, cid_inner_factory):
    return read_all(
        cid_outer, "1,a\n2,b\n", between_rows=lambda: cutplace.validate(cid_inner_factory(), io.StringIO("2,x\n"))
    )


shared = fresh()
compare("(d) rows(cid, A = ids 1, 2) with validate(cid, B = id 2) in the loop body", nested_false_duplicate(shared, lambda: shared), nested_false_duplicate(fresh(), fresh))

print()
print("violations: %d" % violations)
sys.exit(1 if violations else 0)
