"""
Finding 3: strictly sequential runs carry the bookkeeping over when the rows
are handed to the public ``validate_row()`` instead of being pulled through
``Reader.rows()``: ``BaseValidator`` itself never resets the checks, only
``Reader.rows()``, ``Reader.close()`` and ``Writer.__init__()`` do.

Exit code 1 = violation present, 0 = not present.
"""
import sys

sys.path.insert(0, "/tmp/audit_C08")
import io
import warnings

warnings.simplefilter("ignore")
import cutplace
from cutplace import errors, interface, validio

CID_TEXT = """d,format,delimited
f,id,,,,Integer
f,name
c,id must be unique,IsUnique,id
c,at most 2 distinct names,DistinctCount,name < 3
"""


def fresh():
    return interface.create_cid_from_string(CID_TEXT)


class ListValidator(validio.BaseValidator):
    """
    A validator for rows that come from somewhere else (a database cursor,
    a list, ...), written the way the doc string of ``BaseValidator``
    describes: set the location, advance the line.
    """

    def __init__(self, cid):
        super().__init__(cid)
        self._location = errors.Location("<list>", has_cell=True)

    def validate_rows(self, rows):
        result = []
        for row in rows:
            try:
                self.validate_row(row)
                result.append("accepted %s" % row)
            except errors.DataError as error:
                result.append("rejected: %s" % error)
            self.location.advance_line()
        return result


def close_result(validator):
    try:
        validator.close()
        return "close ok"
    except errors.CheckError as error:
        return "CheckError: %s" % error


violations = 0


def compare(title, observed, expected):
    global violations
    print("--- %s" % title)
    print("  one shared CID : %s" % observed)
    print("  fresh CID each : %s" % expected)
    if observed != expected:
        violations += 1
        print("  => VIOLATION")
    else:
        print("  => ok")


# (a) Run 1 is an ordinary, completed and closed validate(); run 2 hands rows
#     to Reader.validate_row().
def validate_then_validate_row(cid_1, cid_2):
    cutplace.validate(cid_1, io.StringIO("1,a\n"))
    reader = cutplace.Reader(cid_2, io.StringIO(""))
    try:
        reader.validate_row(["1", "b"])
        return "run 2: row ['1', 'b'] accepted"
    except errors.DataError as error:
        return "run 2: rejected: %s" % error


shared = fresh()
compare("(a) validate(cid, '1,a'); then Reader(cid, ...).validate_row(['1', 'b'])", validate_then_validate_row(shared, shared), validate_then_validate_row(fresh(), fresh()))

# (b) Two sequential, properly closed runs of a BaseValidator descendant.
def two_list_runs(cid_1, cid_2):
    result = []
    for run_number, (cid, rows) in enumerate([(cid_1, [["1", "a"], ["2", "b"]]), (cid_2, [["1", "c"]])], 1):
        with ListValidator(cid) as validator:
            result.append("run %d: %s" % (run_number, validator.validate_rows(rows)))
    return result


shared = fresh()
compare("(b) ListValidator(cid) run 1 = ids 1, 2; closed; run 2 = id 1", two_list_runs(shared, shared), two_list_runs(fresh(), fresh()))

# (c) The distinct count is carried over, too: 2 names + 1 other name = 3.
def two_list_runs_distinct(cid_1, cid_2):
    result = []
    for run_number, (cid, rows) in enumerate([(cid_1, [["1", "a"], ["2", "b"]]), (cid_2, [["3", "c"]])], 1):
        validator = ListValidator(cid)
        validator.validate_rows(rows)
        result.append("run %d: %s" % (run_number, close_result(validator)))
    return result


shared = fresh()
compare("(c) ListValidator(cid) run 1 = names a, b; closed; run 2 = name c; close()", two_list_runs_distinct(shared, shared), two_list_runs_distinct(fresh(), fresh()))

print()
print("violations: %d" % violations)
sys.exit(1 if violations else 0)
