"""
Finding 3: rowio.ods_rows() only looks at <table:table-row> elements that are direct children of
<table:table> and ignores table:number-rows-repeated. Rows inside <table:table-header-rows> or
<table:table-row-group> (what LibreOffice writes for "rows to repeat" and for grouped/outlined rows) are
never validated, and a repeated row (identical adjacent rows, runs of empty rows) counts as one row.
"""
import sys

sys.path.insert(0, "/tmp/audit_C04")
import os
import tempfile
import warnings
import zipfile

warnings.simplefilter("ignore")
from cutplace import errors, interface, rowio, validio

NAMESPACES = (
    'xmlns:office="urn:oasis:names:tc:opendocument:xmlns:office:1.0" '
    'xmlns:table="urn:oasis:names:tc:opendocument:xmlns:table:1.0" '
    'xmlns:text="urn:oasis:names:tc:opendocument:xmlns:text:1.0"'
)
folder = tempfile.mkdtemp()


def write_ods(name, table_content):
    path = os.path.join(folder, name)
    content = (
        '<?xml version="1.0" encoding="UTF-8"?><office:document-content %s office:version="1.2">'
        '<office:body><office:spreadsheet><table:table table:name="Sheet1">%s</table:table>'
        "</office:spreadsheet></office:body></office:document-content>" % (NAMESPACES, table_content)
    )
    with zipfile.ZipFile(path, "w") as ods_zip:
        ods_zip.writestr("mimetype", "application/vnd.oasis.opendocument.spreadsheet")
        ods_zip.writestr("content.xml", content)
    return path


def row(value, attributes=""):
    return "<table:table-row%s><table:table-cell><text:p>%s</text:p></table:table-cell></table:table-row>" % (
        attributes,
        value,
    )


def results(cid, path):
    return [str(item) for item in validio.rows(cid, path, on_error="yield")]


cid = interface.create_cid_from_string("d,format,ods\nf,id,,,,Integer\nc,id must be unique,IsUnique,id\n")
print("CID: ods, field 'id' Integer, check IsUnique(id)")
violated = False

print()
print("case 1: sheet rows 1..4 are 1, 2, x, 3 where the broken row 3 sits in a <table:table-row-group>")
path = write_ods("grouped.ods", row("1") + row("2") + "<table:table-row-group>" + row("x") + "</table:table-row-group>" + row("3"))
observed = results(cid, path)
print("  observed:", observed)
print("  expected: row 3 rejected with grouped.ods (R3C1): cannot accept field 'id' ...")
if not any("R3C1" in item and "'id'" in item for item in observed):
    violated = True

print()
print("case 2: same but the broken row is row 1 inside <table:table-header-rows> (CID has header=0)")
path = write_ods("header_rows.ods", "<table:table-header-rows>" + row("x") + "</table:table-header-rows>" + row("1") + row("y"))
observed = results(cid, path)
print("  observed:", observed)
print("  expected: R1C1 rejected ('x') and R3C1 rejected ('y')")
if not (any("R1C1" in item for item in observed) and any("R3C1" in item for item in observed)):
    violated = True

print()
print('case 3: sheet rows 1..4 are 7, 7, 7, x; LibreOffice stores the first three as one row with table:number-rows-repeated="3"')
path = write_ods("repeated.ods", row("7", ' table:number-rows-repeated="3"') + row("x"))
observed = results(cid, path)
print("  observed:", observed)
print("  expected: R2C1 and R3C1 rejected by the IsUnique check, R4C1 rejected by field 'id'")
if not (any("R2C1" in item and "unique" in item for item in observed) and any("R4C1" in item for item in observed)):
    violated = True

print()
print("VIOLATION PRESENT" if violated else "ok")
sys.exit(1 if violated else 0)
