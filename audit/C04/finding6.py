"""
Finding 6: a row with too few or too many items is reported at column 1 and without naming any field,
although the first offending column is the first missing / first surplus one.
"""
import sys

sys.path.insert(0, "/tmp/audit_C04")
import io
import warnings

warnings.simplefilter("ignore")
from cutplace import errors, interface, validio

cid = interface.create_cid_from_string(
    "d,format,delimited\nd,header,1\nf,customer_id,,,,Integer\nf,surname,,,,Text\nf,first_name,,,,Text\n"
)
data = "customer_id,surname,first_name\n1,Doe,John\n2,Miller\n3,Webster,Jane,x\n"
print("CID : delimited, header=1, fields customer_id, surname, first_name")
print("data: %r" % data)
observed = list(validio.rows(cid, io.StringIO(data), on_error="yield"))
for item in observed:
    print("  ", item)

violated = False
too_few = observed[1]
too_many = observed[2]
assert isinstance(too_few, errors.DataError) and isinstance(too_many, errors.DataError)

print("row 3 has 2 items: first offending column is 3, offending field is 'first_name'")
print("  observed column: %d, message: %r" % (too_few.location.cell + 1, too_few.message))
if too_few.location.cell + 1 != 3 or "first_name" not in too_few.message:
    violated = True
print("row 4 has 4 items: first offending column is 4")
print("  observed column: %d, message: %r" % (too_many.location.cell + 1, too_many.message))
if too_many.location.cell + 1 != 4:
    violated = True

print("VIOLATION PRESENT" if violated else "ok")
sys.exit(1 if violated else 0)
