"""
Finding 5: a delimited row that cannot be parsed is reported one row too far down
(and without any column).
"""
import sys

sys.path.insert(0, "/tmp/audit_C04")
import io
import logging
import os
import tempfile
import warnings

warnings.simplefilter("ignore")
from cutplace import applications, errors, interface, validio

cid_text = "d,format,delimited\nd,header,1\nf,name,,,,Text\nf,size,,,,Integer\n"
cid = interface.create_cid_from_string(cid_text)
folder = tempfile.mkdtemp()
cid_path = os.path.join(folder, "cid.csv")
with open(cid_path, "w") as cid_file:
    cid_file.write(cid_text)

violated = False


def check(title, data, expected_row):
    global violated
    data_path = os.path.join(folder, "data.csv")
    with open(data_path, "w", newline="") as data_file:
        data_file.write(data)
    print(title)
    print("  data    : %r" % data)
    for on_error in ("raise", "yield", "continue"):
        try:
            list(validio.rows(cid, data_path, on_error=on_error))
            print("  on_error=%s: no error" % on_error)
            violated = True
        except errors.DataError as error:
            observed_row = error.location.line + 1
            print("  on_error=%s: %s: %s" % (on_error, type(error).__name__, error))
            if observed_row != expected_row:
                violated = True
    print("  expected: data error located in row %d" % expected_row)
    return data_path


check("case 1: row 3 has text after the closing quote", 'name,size\nbob,1\n"al"ice,2\ncarl,3\n', 3)
data_path = check("case 2: row 4 (the last one) has an unterminated quote", 'name,size\nbob,1\nalice,2\n"carl,3\n', 4)

print("command line for case 2:")
logging.basicConfig(level=logging.INFO, stream=sys.stdout)
exit_code = applications.main(["cutplace", cid_path, data_path])
print("  exit code: %d" % exit_code)

print("VIOLATION PRESENT" if violated else "ok")
sys.exit(1 if violated else 0)
