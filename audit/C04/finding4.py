"""
Finding 4: rowio.ods_rows() takes as value of a cell only the text in front of the first child element of
the first <text:p>. Text in <text:span> (partly formatted cells, hyperlinks), after <text:s/> (2+ blanks),
and in further paragraphs (multi line cells) is dropped, so the field validates something else than the
item that is in the cell.
"""
import sys

sys.path.insert(0, "/tmp/audit_C04")
import os
import tempfile
import warnings
import zipfile

warnings.simplefilter("ignore")
from cutplace import errors, interface, rowio, validio

NAMESPACES = (
    'xmlns:office="urn:oasis:names:tc:opendocument:xmlns:office:1.0" '
    'xmlns:table="urn:oasis:names:tc:opendocument:xmlns:table:1.0" '
    'xmlns:text="urn:oasis:names:tc:opendocument:xmlns:text:1.0"'
)
folder = tempfile.mkdtemp()


def write_ods(name, cell_contents):
    path = os.path.join(folder, name)
    rows = "".join(
        '<table:table-row><table:table-cell office:value-type="string">%s</table:table-cell></table:table-row>' % cell
        for cell in cell_contents
    )
    content = (
        '<?xml version="1.0" encoding="UTF-8"?><office:document-content %s office:version="1.2">'
        '<office:body><office:spreadsheet><table:table table:name="Sheet1">%s</table:table>'
        "</office:spreadsheet></office:body></office:document-content>" % (NAMESPACES, rows)
    )
    with zipfile.ZipFile(path, "w") as ods_zip:
        ods_zip.writestr("mimetype", "application/vnd.oasis.opendocument.spreadsheet")
        ods_zip.writestr("content.xml", content)
    return path


cid = interface.create_cid_from_string("d,format,ods\nf,amount,,,,Integer\n")
print("CID: ods, one field 'amount' of type Integer")
path = write_ods(
    "cells.ods",
    [
        "<text:p>1<text:span>x</text:span></text:p>",  # row 1: cell text is "1x" (the x e.g. in bold)
        "<text:p>2</text:p><text:p>oops</text:p>",  # row 2: cell text is "2\noops" (Ctrl+Enter in the cell)
        "<text:p>3<text:s text:c=\"2\"/>4</text:p>",  # row 3: cell text is "3  4"
        "<text:p><text:span>5</text:span></text:p>",  # row 4: cell text is "5" (whole text in a span)
    ],
)
print("sheet rows: 1: '1x' (x in a text:span), 2: '2' + new paragraph 'oops', 3: '3  4' (text:s), 4: '5' (in a text:span)")
print("raw rows  :", list(rowio.ods_rows(path)))
observed = list(validio.rows(cid, path, on_error="yield"))
for number, item in enumerate(observed, 1):
    print("  row %d: %s" % (number, item))
print("expected  : rows 1, 2 and 3 rejected (cannot accept field 'amount'), row 4 accepted as ['5']")

violated = False
for index in (0, 1, 2):
    if not isinstance(observed[index], errors.DataError):
        violated = True
if observed[3] != ["5"]:
    violated = True
print("VIOLATION PRESENT" if violated else "ok")
sys.exit(1 if violated else 0)
