"""
Finding 2: the state of the row checks lives in the Cid, not in the Reader. Two readers that use the same
Cid at the same time (for example zip(rows(cid, a), rows(cid, b)) to compare two deliveries) reject rows
whose checks pass and accept rows whose checks fail.
"""
import sys

sys.path.insert(0, "/tmp/audit_C04")
import os
import tempfile
import warnings

warnings.simplefilter("ignore")
from cutplace import errors, interface, validio

cid = interface.create_cid_from_string("d,format,delimited\nf,id,,,,Integer\nc,id must be unique,IsUnique,id\n")
folder = tempfile.mkdtemp()


def write(name, text):
    path = os.path.join(folder, name)
    with open(path, "w") as target:
        target.write(text)
    return path


violated = False

print("CID: delimited, field 'id' Integer, check IsUnique(id)")
print()
print("case 1: a.csv = 1,2,3 and b.csv = 1,2,3 (each file has unique ids), read in lockstep with one Cid")
a_path = write("a.csv", "1\n2\n3\n")
b_path = write("b.csv", "1\n2\n3\n")
try:
    pairs = list(zip(validio.rows(cid, a_path), validio.rows(cid, b_path)))
    print("  observed: all rows accepted: %s" % pairs)
except errors.DataError as error:
    print("  observed: %s: %s" % (type(error).__name__, error))
    violated = True
print("  expected: all 3 + 3 rows accepted")
print()
print("case 2: a2.csv = 1,1 (duplicate id!) and b2.csv = 7,8, read in lockstep with one Cid")
a_path = write("a2.csv", "1\n1\n")
b_path = write("b2.csv", "7\n8\n")
try:
    pairs = list(zip(validio.rows(cid, a_path), validio.rows(cid, b_path)))
    print("  observed: all rows accepted: %s" % pairs)
    violated = True
except errors.DataError as error:
    print("  observed: %s: %s" % (type(error).__name__, error))
print("  expected: CheckError for a2.csv (R2C1), see also a2.csv (R1C1)")
print()
print("VIOLATION PRESENT" if violated else "ok")
sys.exit(1 if violated else 0)
