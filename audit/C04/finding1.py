"""
Finding 1: Reader.rows() / Reader.validate_rows() called a second time on the same Reader keeps counting
rows from where the first pass stopped, so the reported row number is not the 1-based row number anymore.
"""
import sys

sys.path.insert(0, "/tmp/audit_C04")
import os
import tempfile
import warnings

warnings.simplefilter("ignore")
from cutplace import errors, interface, validio

cid = interface.create_cid_from_string("d,format,delimited\nd,header,1\nf,a,,,,Integer\n")
folder = tempfile.mkdtemp()
data_path = os.path.join(folder, "data.csv")
with open(data_path, "w") as data_file:
    data_file.write("a\n1\nx\n")  # row 1 = header, row 2 = ok, row 3 = broken
print("CID: delimited, header=1, one Integer field 'a'; data rows: 'a', '1', 'x' (row 3 is broken)")

violated = False

# Variant 1: on_error="yield", iterate twice.
reader = validio.Reader(cid, data_path, on_error="yield")
for pass_number in (1, 2):
    found = [item for item in reader.rows() if isinstance(item, errors.DataError)]
    assert len(found) == 1
    line = found[0].location.line + 1
    print("on_error=yield, pass %d: %s" % (pass_number, found[0]))
    if line != 3:
        violated = True
reader.close()

# Variant 2: on_error="raise" (the default), validate_rows() twice.
reader = validio.Reader(cid, data_path)
for pass_number in (1, 2):
    try:
        reader.validate_rows()
        print("on_error=raise, pass %d: no error at all" % pass_number)
        violated = True
    except errors.DataError as error:
        print("on_error=raise, pass %d: %s" % (pass_number, error))
        if error.location.line + 1 != 3:
            violated = True
reader.close()

print("expected: every pass reports row 3 (R3C1)")
print("VIOLATION PRESENT" if violated else "ok")
sys.exit(1 if violated else 0)
