"""
Finding 6: a Decimal field removes every thousands separator in front of the decimal separator
wherever it stands, so texts that are no properly written number are accepted.
Exit code 1 = violation present, 0 = not present.
"""
import sys

sys.path.insert(0, "/tmp/audit_C02")
import decimal
import warnings

warnings.simplefilter("ignore")
from cutplace import errors, interface

violations = 0
for format_name, length in (("delimited", ""), ("fixed", "9")):
    cid_text = (
        "d,format,%s\n"
        'd,thousands separator,","\n'
        "f,amount,,,%s,Decimal\n" % (format_name, length)
    )
    print("CID:\n" + cid_text)
    cid = interface.create_cid_from_string(cid_text)
    amount = cid.field_formats[0]
    for cell, expected in (("1,234.5", decimal.Decimal("1234.5")), ("1,234,567", decimal.Decimal(1234567))):
        actual = amount.validated(cell)
        print("cell %r (control): accepted as %r" % (cell, actual))
        assert actual == expected
    for cell in ("1,,2", "1,2,3.5", ",,,1", "12,", "-,5", "1,5"):
        try:
            actual = amount.validated(cell)
            print("cell %r: ACCEPTED as %r  <-- VIOLATION" % (cell, actual))
            violations += 1
        except errors.FieldValueError as error:
            print("cell %r: rejected: %s" % (cell, error))
    print()
print("VIOLATION PRESENT" if violations else "no violation")
sys.exit(1 if violations else 0)
