"""
Finding 3: a Decimal field accepts a number written with '.' as decimal separator although the
data format declares ',' as decimal separator (and no thousands separator).
Exit code 1 = violation present, 0 = not present.
"""
import sys

sys.path.insert(0, "/tmp/audit_C02")
import decimal
import io
import warnings

warnings.simplefilter("ignore")
from cutplace import errors, interface, validio

CID_TEXT = (
    "d,format,delimited\n"
    "d,item delimiter,;\n"
    'd,decimal separator,","\n'
    "f,amount,,,,Decimal,0...100\n"
)
print("CID:\n" + CID_TEXT)
cid = interface.create_cid_from_string(CID_TEXT)
amount = cid.field_formats[0]
print("decimal separator %r, thousands separator %r" % (cid.data_format.decimal_separator, cid.data_format.thousands_separator))
violations = 0
accepted = amount.validated("1,5")
print("cell '1,5' (control): accepted as %r" % accepted)
assert accepted == decimal.Decimal("1.5")
for cell in ("1.5", "0.25", ".5", "99."):
    try:
        actual = amount.validated(cell)
        print("cell %r: ACCEPTED as %r although '.' is not the data format's decimal separator  <-- VIOLATION" % (cell, actual))
        violations += 1
    except errors.FieldValueError as error:
        print("cell %r: rejected: %s" % (cell, error))
rows = list(validio.Reader(cid, io.StringIO("1.5\n"), on_error="yield").rows())
print("Reader for data line '1.5': %r" % rows)
print("VIOLATION PRESENT" if violations else "no violation")
sys.exit(1 if violations else 0)
