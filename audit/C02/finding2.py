"""
Finding 2: ODS cells are cut off at the first child element of the first <text:p>
(text:span, text:s, text:a, ...) and further paragraphs are dropped, so the field validates
something else than the cell's text.
Exit code 1 = violation present, 0 = not present.
"""
import sys

sys.path.insert(0, "/tmp/audit_C02")
import os
import tempfile
import warnings
import zipfile

warnings.simplefilter("ignore")
from cutplace import errors, interface, validio

NS = (
    'xmlns:office="urn:oasis:names:tc:opendocument:xmlns:office:1.0" '
    'xmlns:table="urn:oasis:names:tc:opendocument:xmlns:table:1.0" '
    'xmlns:text="urn:oasis:names:tc:opendocument:xmlns:text:1.0"'
)


def write_ods(path, rows):
    body = ""
    for cells in rows:
        body += "<table:table-row>"
        for cell in cells:
            body += '<table:table-cell office:value-type="string">%s</table:table-cell>' % cell
        body += "</table:table-row>"
    content = (
        '<?xml version="1.0" encoding="UTF-8"?><office:document-content %s office:version="1.2">'
        '<office:body><office:spreadsheet><table:table table:name="Sheet1">%s</table:table>'
        "</office:spreadsheet></office:body></office:document-content>" % (NS, body)
    )
    with zipfile.ZipFile(path, "w") as ods_zip:
        ods_zip.writestr("mimetype", "application/vnd.oasis.opendocument.spreadsheet")
        ods_zip.writestr("content.xml", content)


CID_TEXT = "d,format,ods\n" 'f,code,,,,Choice,"""abc"""\n' "f,note,,,,Text\n"
print("CID:\n" + CID_TEXT)
cid = interface.create_cid_from_string(CID_TEXT)
print("choices of 'code': %r" % cid.field_formats[0].choices)

# (description, what the cell shows, XML of cell 'code', XML of cell 'note', must the row be accepted?)
CASES = [
    ("plain cells", ("abc", "hello"), "<text:p>abc</text:p>", "<text:p>hello</text:p>", True),
    (
        "code cell 'abcdef' with 'def' in bold (text:span)",
        ("abcdef", "hello"),
        "<text:p>abc<text:span>def</text:span></text:p>",
        "<text:p>hello</text:p>",
        False,
    ),
    (
        "code cell with two lines 'abc' / 'def' (two text:p)",
        ("abc\ndef", "hello"),
        "<text:p>abc</text:p><text:p>def</text:p>",
        "<text:p>hello</text:p>",
        False,
    ),
    (
        "code cell 'abc def' with the blank stored as text:s (legal ODF; LibreOffice does so for repeated blanks)",
        ("abc def", "hello"),
        "<text:p>abc<text:s/>def</text:p>",
        "<text:p>hello</text:p>",
        False,
    ),
    (
        "note cell 'hello' entirely in bold (text:span) - Text accepts anything",
        ("abc", "hello"),
        "<text:p>abc</text:p>",
        "<text:p><text:span>hello</text:span></text:p>",
        True,
    ),
    (
        "note cell is a hyperlink (text:a) - Text accepts anything",
        ("abc", "http://example.com"),
        "<text:p>abc</text:p>",
        '<text:p><text:a xmlns:xlink="http://www.w3.org/1999/xlink" xlink:href="http://example.com">'
        "http://example.com</text:a></text:p>",
        True,
    ),
]
violations = 0
with tempfile.TemporaryDirectory() as folder:
    for index, (description, shown, code_xml, note_xml, must_accept) in enumerate(CASES):
        ods_path = os.path.join(folder, "case%d.ods" % index)
        write_ods(ods_path, [[code_xml, note_xml]])
        with validio.Reader(cid, ods_path, on_error="yield") as reader:
            result = list(reader.rows())[0]
        is_accepted = not isinstance(result, Exception)
        is_ok = is_accepted == must_accept
        if is_ok and is_accepted:
            is_ok = tuple(result) == shown
        print("%s\n    cells shown: %r\n    expected: %s; observed: %s -> %r%s" % (
            description, shown, "accept" if must_accept else "reject", "accept" if is_accepted else "reject", result,
            "" if is_ok else "    <-- VIOLATION"))
        if not is_ok:
            violations += 1
print("VIOLATION PRESENT" if violations else "no violation")
sys.exit(1 if violations else 0)
