"""
Finding 4: an Integer field with only a length refuses integers whose text fits the length when
the text has leading zeros (or is "-0"), because the length is turned into a value range.
Exit code 1 = violation present, 0 = not present.
"""
import sys

sys.path.insert(0, "/tmp/audit_C02")
import io
import warnings

warnings.simplefilter("ignore")
from cutplace import errors, interface, validio

violations = 0
for length, cells in (("2", ("42", "05", "00", "-0")), ("3...5", ("100", "007", "0042", "-07"))):
    cid_text = "d,format,delimited\nf,code,,,%s,Integer\n" % length
    print("CID:\n" + cid_text)
    cid = interface.create_cid_from_string(cid_text)
    code = cid.field_formats[0]
    print("range derived from length %s: %s" % (length, code.valid_range))
    for cell in cells:
        expected = int(cell)
        try:
            actual = code.validated(cell)
            print("cell %r (length %d): accepted as %r" % (cell, len(cell), actual))
            if actual != expected:
                violations += 1
        except errors.FieldValueError as error:
            print("cell %r (length %d): REJECTED, expected %r  <-- VIOLATION\n     %s" % (cell, len(cell), expected, error))
            violations += 1
    print()
cid = interface.create_cid_from_string("d,format,delimited\nf,code,,,2,Integer\n")
print("Reader for data lines 42, 05: %r" % list(validio.Reader(cid, io.StringIO("42\n05\n"), on_error="yield").rows()))
print("VIOLATION PRESENT" if violations else "no violation")
sys.exit(1 if violations else 0)
