"""
Finding 1: data format rows ("D") for the decimal / thousands separator that follow a
Decimal field row ("F") are silently ignored by that field.
Exit code 1 = violation present, 0 = not present.
"""
import sys

sys.path.insert(0, "/tmp/audit_C02")
import decimal
import io
import warnings

warnings.simplefilter("ignore")
from cutplace import errors, interface, validio

CID_TEXT = (
    "d,format,delimited\n"
    "d,item delimiter,;\n"
    "f,amount,,,,Decimal\n"
    'd,decimal separator,","\n'
    "d,thousands separator,.\n"
)
print("CID:\n" + CID_TEXT)
try:
    cid = interface.create_cid_from_string(CID_TEXT)
except errors.InterfaceError as error:
    print("CID is refused (acceptable repair): %s" % error)
    sys.exit(0)
print("data format in effect: %s" % cid.data_format)
amount = cid.field_formats[0]
violations = 0
for cell, expected in (("1,5", decimal.Decimal("1.5")), ("1.234,5", decimal.Decimal("1234.5"))):
    try:
        actual = amount.validated(cell)
        print("cell %r: accepted as %r (expected %r)" % (cell, actual, expected))
        if actual != expected:
            violations += 1
    except errors.FieldValueError as error:
        print("cell %r: REJECTED although it is written with decimal separator ',' (expected %r): %s" % (cell, expected, error))
        violations += 1
# The same through the reader.
for item in validio.Reader(cid, io.StringIO("1,5\n"), on_error="yield").rows():
    print("Reader yields for line '1,5': %r" % (item,))
    if isinstance(item, Exception):
        violations += 1
# A cell written with '.' as decimal separator must not denote 1.5 here ('.' is the thousands separator).
try:
    actual = amount.validated("1.5")
    print("cell '1.5': accepted as %r" % actual)
    if actual == decimal.Decimal("1.5"):
        print("  -> '.' was taken as decimal separator although the data format says ','")
        violations += 1
except errors.FieldValueError as error:
    print("cell '1.5': rejected: %s" % error)
print("VIOLATION PRESENT" if violations else "no violation")
sys.exit(1 if violations else 0)
