"""
Finding 5: Choice / Constant values given as Python string tokens are "unquoted" by cutting off the
first and the last character, so escapes, string prefixes and triple quotes end up in the value.
Exit code 1 = violation present, 0 = not present.
"""
import sys

sys.path.insert(0, "/tmp/audit_C02")
import ast
import warnings

warnings.simplefilter("ignore")
from cutplace import data, errors, fields, interface


def new_cid():
    cid = interface.Cid()
    cid.add_data_format_row(["format", "delimited"])
    return cid


# (field type, rule as written in the rule column of the CID, Python string tokens in it)
CASES = [
    ("Choice", r'''"it\'s", "say \"hi\"", "other"''', [r'''"it\'s"''', r'''"say \"hi\""''', '"other"']),
    ("Choice", '''r"abc", "x"''', ['r"abc"', '"x"']),
    ("Choice", '''"""abc""", "x"''', ['"""abc"""', '"x"']),
    ("Constant", r'''"a\"b"''', [r'''"a\"b"''']),
    ("Constant", '''u"abc"''', ['u"abc"']),
]
violations = 0
for field_type, rule, tokens in CASES:
    listed_values = [ast.literal_eval(token) for token in tokens]
    print("%s rule: %s\n  the tokens denote: %r" % (field_type, rule, listed_values))
    cid = new_cid()
    try:
        cid.add_field_format_row(["x", "", "", "", field_type, rule])
    except errors.InterfaceError as error:
        print("  rule is refused (acceptable): %s" % error)
        continue
    field = cid.field_formats[0]
    print("  values cutplace uses: %r" % (field.choices if field_type == "Choice" else [field._constant]))
    for listed_value in listed_values:
        try:
            actual = field.validated(listed_value)
            print("  cell %r: accepted as %r" % (listed_value, actual))
            if actual != listed_value:
                violations += 1
        except errors.FieldValueError as error:
            print("  cell %r: REJECTED although listed  <-- VIOLATION\n      %s" % (listed_value, error))
            violations += 1
    internal_values = field.choices if field_type == "Choice" else [field._constant]
    for internal_value in internal_values:
        if internal_value not in listed_values:
            try:
                field.validated(internal_value)
                print("  cell %r: ACCEPTED although not listed  <-- VIOLATION" % internal_value)
                violations += 1
            except errors.FieldValueError:
                pass
print("VIOLATION PRESENT" if violations else "no violation")
sys.exit(1 if violations else 0)
