"""
A float written with XlsxRowWriter is stored with 16 significant digits only, so it reads back as a
different number.
"""
import sys

sys.path.insert(0, "/tmp/audit_C16")
import os
import tempfile
import warnings

warnings.simplefilter("ignore")
from cutplace import rowio

values = [0.1 + 0.2, 1.0000000000000002, 0.5, 1234.5678]
path = os.path.join(tempfile.mkdtemp(), "finding4.xlsx")
with rowio.XlsxRowWriter(path) as writer:
    writer.write_row(values)
row = list(rowio.excel_rows(path))[0]
violated = False
for value, text in zip(values, row):
    same = float(text) == value
    print("wrote %r, read back %r%s" % (value, text, "" if same else "   <-- VIOLATION: a different number"))
    violated = violated or not same
sys.exit(1 if violated else 0)
