"""
XlsxRowWriter silently shortens texts of more than 32767 characters and silently drops cells beyond
column 16384 (and rows beyond 1048576); what is read back differs from what was written and nobody is told.
"""
import sys

sys.path.insert(0, "/tmp/audit_C16")
import os
import tempfile
import warnings

warnings.simplefilter("ignore")
from cutplace import rowio

folder = tempfile.mkdtemp()
violated = False

path = os.path.join(folder, "finding3a.xlsx")
long_text = "x" * 32767 + "END"
error = None
try:
    with rowio.XlsxRowWriter(path) as writer:
        writer.write_row(["a", long_text])
except Exception as caught:
    error = caught
if error is not None:
    print("long text: writer refused it with %s: %s (fine)" % (type(error).__name__, error))
else:
    rows = list(rowio.excel_rows(path))
    print("long text: wrote %d characters ending in %r, read back %d characters ending in %r" % (
        len(long_text), long_text[-5:], len(rows[0][1]), rows[0][1][-5:]))
    if rows != [["a", long_text]]:
        print("  VIOLATION: silently truncated")
        violated = True

path = os.path.join(folder, "finding3b.xlsx")
wide_row = ["c%d" % index for index in range(16385)]
error = None
try:
    with rowio.XlsxRowWriter(path) as writer:
        writer.write_row(wide_row)
except Exception as caught:
    error = caught
if error is not None:
    print("wide row: writer refused it with %s: %s (fine)" % (type(error).__name__, error))
else:
    rows = list(rowio.excel_rows(path))
    print("wide row: wrote %d items ending in %r, read back %d items ending in %r" % (
        len(wide_row), wide_row[-1], len(rows[0]), rows[0][-1]))
    if rows != [wide_row]:
        print("  VIOLATION: last item silently dropped")
        violated = True
sys.exit(1 if violated else 0)
