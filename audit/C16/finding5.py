"""
datetime / date / time items written with XlsxRowWriter end up as bare serial numbers without a date
format, so they read back as numbers instead of 'YYYY-MM-DD hh:mm:ss' / 'hh:mm:ss'.
"""
import sys

sys.path.insert(0, "/tmp/audit_C16")
import datetime
import os
import tempfile
import warnings

warnings.simplefilter("ignore")
from cutplace import rowio

items = [datetime.datetime(2020, 1, 2, 3, 4, 5), datetime.date(2020, 1, 2), datetime.time(1, 2, 3)]
expected = ["2020-01-02 03:04:05", "2020-01-02 00:00:00", "01:02:03"]
path = os.path.join(tempfile.mkdtemp(), "finding5.xlsx")
with rowio.XlsxRowWriter(path) as writer:
    writer.write_row(items)
row = list(rowio.excel_rows(path))[0]
print("wrote    %r" % items)
print("expected %r" % expected)
print("read     %r" % row)
if row != expected:
    print("VIOLATION: dates and times come back as numbers")
    sys.exit(1)
sys.exit(0)
