"""
Date cells with a serial below 61 (1900-01-01 .. 1900-02-29), durations of 24 h and more and
times that round up to 24:00:00 make excel_rows() give up on the whole workbook.
"""
import sys

sys.path.insert(0, "/tmp/audit_C16")
import datetime
import os
import re
import tempfile
import warnings

warnings.simplefilter("ignore")
import xlsxwriter

from cutplace import rowio

DATE_OR_TIME = re.compile(r"^(\d{4}-\d{2}-\d{2} )?\d{2}:\d{2}:\d{2}$")
folder = tempfile.mkdtemp()
cases = [
    ("date 1900-02-15, format yyyy-mm-dd", datetime.datetime(1900, 2, 15), "yyyy-mm-dd", "1900-02-15 00:00:00"),
    ("date 1900-01-02 03:04:05", datetime.datetime(1900, 1, 2, 3, 4, 5), "yyyy-mm-dd hh:mm:ss", "1900-01-02 03:04:05"),
    ("duration 36:00:00 (serial 1.5, format [h]:mm:ss)", 1.5, "[h]:mm:ss", None),
    ("time 23:59:59.7, format hh:mm:ss", datetime.time(23, 59, 59, 700000), "hh:mm:ss", None),
]
violated = False
for name, value, num_format, expected in cases:
    path = os.path.join(folder, "finding1.xlsx")
    workbook = xlsxwriter.Workbook(path)
    worksheet = workbook.add_worksheet()
    cell_format = workbook.add_format({"num_format": num_format})
    worksheet.write_string(0, 0, "some")
    if isinstance(value, float):
        worksheet.write_number(0, 1, value, cell_format)
    else:
        worksheet.write_datetime(0, 1, value, cell_format)
    workbook.close()
    try:
        rows = list(rowio.excel_rows(path))
        actual = rows[0][1]
        ok = (actual == expected) if expected is not None else (DATE_OR_TIME.match(actual) is not None)
        print("%s -> %r%s" % (name, rows, "" if ok else "   <-- VIOLATION, expected %r" % expected))
    except Exception as error:
        ok = False
        print("%s -> %s: %s   <-- VIOLATION" % (name, type(error).__name__, error))
    violated = violated or not ok
sys.exit(1 if violated else 0)
