"""
Whole numbers of 1e16 and more are read in exponent notation, partly with fractional digits, instead of
as whole numbers; an Integer field rejects them.
"""
import sys

sys.path.insert(0, "/tmp/audit_C16")
import os
import tempfile
import warnings

warnings.simplefilter("ignore")
import xlsxwriter

from cutplace import interface, rowio, validio

path = os.path.join(tempfile.mkdtemp(), "finding6.xlsx")
numbers = [1e15, 1e16, 123456789012345600.0, 1e22]
expected = ["1000000000000000", "10000000000000000", "123456789012345600", "10000000000000000000000"]
workbook = xlsxwriter.Workbook(path)
worksheet = workbook.add_worksheet()
for row_index, number in enumerate(numbers):
    worksheet.write_number(row_index, 0, number)
workbook.close()
actual = [row[0] for row in rowio.excel_rows(path)]
print("cells    %r" % numbers)
print("expected %r" % expected)
print("read     %r" % actual)
violated = actual != expected
cid = interface.Cid()
cid.read("inline", [["d", "format", "excel"], ["f", "n", "", "", "", "Integer", "0...99999999999999999999999"]])
try:
    print("validated with Integer field: %r" % list(validio.rows(cid, path)))
except Exception as error:
    print("Integer field: %s" % error)
if violated:
    print("VIOLATION: whole numbers read with exponent / fractional digits")
sys.exit(1 if violated else 0)
