"""
XlsxRowWriter.write_rows() - the method every row writer inherits to write a table - always fails.
"""
import sys

sys.path.insert(0, "/tmp/audit_C16")
import os
import tempfile
import warnings

warnings.simplefilter("ignore")
from cutplace import rowio

table = [["a", "b"], ["c", "d"]]
path = os.path.join(tempfile.mkdtemp(), "finding2.xlsx")
print("write %r using XlsxRowWriter(%r).write_rows()" % (table, path))
try:
    with rowio.XlsxRowWriter(path) as writer:
        writer.write_rows(table)
except AssertionError as error:
    print("VIOLATION: write_rows() raised AssertionError(%s)" % error)
    sys.exit(1)
rows = list(rowio.excel_rows(path))
print("read back: %r" % rows)
sys.exit(0 if rows == table else 1)
