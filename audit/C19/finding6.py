"""
Finding 6: Transact-SQL dialect, Integer range beyond 64 bit: the column becomes
decimal(<magnitude of the limit>, 0) instead of decimal(<number of digits>, 0).
(Same pattern as the already known PL/SQL / DB2 defect, but in a separate branch:
TransactSqlDialect.sql_type, which is not covered by a repair of the other two.)
"""
import re
import sys

sys.path.insert(0, "/tmp/audit_C19")
from cutplace import interface, sql

LIMIT = 2**63  # first value beyond bigint; needs decimal(19, 0)
cid = interface.Cid()
cid.read("x", [["D", "Format", "delimited"], ["F", "huge", "", "", "", "Integer", "0...%d" % LIMIT]])
statement = sql.SqlFactory(cid, "t", sql.TRANSACT_SQL_DIALECT).create_table_statement()
print(statement)
match = re.search(r"huge (\w+)(?:\((\d+)(?:, (\d+))?\))?", statement)
type_name, precision = match.group(1), match.group(2)
print("type=%s precision=%s; digits needed=%d; Transact-SQL allows a precision of at most 38" % (
    type_name, precision, len(str(LIMIT))))
if type_name in ("decimal", "numeric") and int(precision) > 38:
    print("VIOLATION: no such Transact-SQL type, the column cannot store the upper limit %d" % LIMIT)
    sys.exit(1)
print("ok")
sys.exit(0)
