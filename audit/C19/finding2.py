"""
Finding 2: a Decimal rule that is open on one side yields a column whose total /
fractional digits are those of the single limit written down, although the rule
implies no bound on that side (and cutplace accepts far bigger values).
"""
import decimal
import re
import sys

sys.path.insert(0, "/tmp/audit_C19")
from cutplace import errors, interface, sql

violated = False
for rule, accepted_text in (("0...", "1234567.891"), ("...0.5", "-98765.4321"), ("", "1234567.891")):
    cid = interface.Cid()
    try:
        cid.read("x", [["D", "Format", "delimited"], ["F", "amount", "", "", "", "Decimal", rule]])
    except errors.InterfaceError as error:
        print("rule %r: rejected by the CID: %s" % (rule, error))
        continue
    for dialect in (sql.ANSI_SQL_DIALECT, sql.DB2_SQL_DIALECT, sql.TRANSACT_SQL_DIALECT, sql.PL_SQL_DIALECT):
        statement = sql.SqlFactory(cid, "t", dialect).create_table_statement()
        column = statement.split("\n")[1].strip()
        total, fraction = [int(x) for x in re.search(r"\((\d+), (\d+)\)", column).groups()]
        try:
            value = cid.field_formats[0].validated(accepted_text)
        except errors.FieldValueError:
            value = None
        note = ""
        if value is not None:
            _, digits, exponent = value.as_tuple()
            fits = (len(digits) + exponent <= total - fraction) and (-exponent <= fraction)
            note = "cutplace accepts %s, fits into column: %s" % (value, fits)
            if not fits:
                violated = True
        print("rule %-8r %-12s %-32s %s" % (rule, dialect, column, note))
if violated:
    print("VIOLATION: decimal(1, 0) / decimal(1, 1) are not digits implied by a rule without bound on one side")
    print("           (no rule at all gives decimal(31, 12))")
    sys.exit(1)
print("ok")
sys.exit(0)
