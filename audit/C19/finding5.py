"""
Finding 5: the table name is never checked against the keywords of the dialect, so a CID
stored as "order.xls" (or SqlFactory(cid, "order")) yields "create table order (" which no
database accepts, while a *column* called "order" is quoted.
"""
import os
import shutil
import sys
import tempfile

sys.path.insert(0, "/tmp/audit_C19")
from cutplace import interface, sql

violated = False
cid = interface.Cid()
cid.read("x", [["D", "Format", "delimited"], ["F", "order"], ["F", "item"]])
for dialect in (sql.ANSI_SQL_DIALECT, sql.DB2_SQL_DIALECT, sql.TRANSACT_SQL_DIALECT, sql.PL_SQL_DIALECT):
    statement = sql.SqlFactory(cid, "order", dialect).create_table_statement()
    first_line = statement.split("\n")[0]
    print("%-12s %s ... column: %s" % (dialect, first_line, statement.split("\n")[1].strip()))
    if first_line == "create table order (":
        violated = True

with tempfile.TemporaryDirectory() as folder:
    cid_path = os.path.join(folder, "select.xls")
    shutil.copy("/tmp/audit_C19/tests/data/cids/cid_customers.xls", cid_path)
    sql.write_create(cid_path, interface.Cid())
    with open(os.path.join(folder, "select_create.sql"), encoding="utf-8") as sql_file:
        first_line = sql_file.read().split("\n")[0]
    print("write_create('select.xls'):", first_line)
    if first_line == "create table select (":
        violated = True
if violated:
    print("VIOLATION: table name that is a keyword of the dialect is not quoted")
sys.exit(1 if violated else 0)
