"""
Finding 1: DB2 reserved words FIRST, LAST, NEXT, OLD, PRIOR, PERIOD, ORGANIZATION,
SYSDATE, SYSTIMESTAMP, CURRVAL are not quoted for the DB2 dialect because the
keyword list of Db2SqlDialect contains them with the footnote digit of the IBM
documentation glued on ("first1", "sysdate1", "end-exec2", ...).
"""
import re
import sys

sys.path.insert(0, "/tmp/audit_C19")
from cutplace import interface, sql

WORDS = ["first", "last", "next", "old", "prior", "period", "organization", "sysdate", "systimestamp", "currval"]

cid = interface.Cid()
cid.read("x", [["D", "Format", "delimited"]] + [["F", word, "", "", "...10"] for word in WORDS] + [["F", "select"]])
statement = sql.SqlFactory(cid, "t", sql.DB2_SQL_DIALECT).create_table_statement()
print(statement)

broken_entries = sorted(k for k in sql.DB2_SQL_DIALECT.keywords if not re.fullmatch(r"[a-z_]+", k))
print("entries of the DB2 keyword list that cannot be SQL words:", broken_entries)

unquoted = [word for word in WORDS if ('"%s"' % word) not in statement]
print('control: "select" quoted:', '"select"' in statement)
print("DB2 reserved words left unquoted:", unquoted)
if unquoted or broken_entries:
    print("VIOLATION: names that are DB2 keywords are not quoted")
    sys.exit(1)
print("ok")
sys.exit(0)
