"""
Finding 4: the column of a field whose ``empty_value`` is not '' / None gets an extra,
unquoted "default ..." clause (Python repr of the value), and an int / Decimal empty value
makes create_table_statement() die with a TypeError, so there is no statement at all.
``empty_value`` is a documented constructor parameter (docs/api.rst uses a tuple).
"""
import sqlite3
import sys

sys.path.insert(0, "/tmp/audit_C19")
from cutplace import fields, interface, sql

violated = False


def is_valid_sql(statement):
    """Same check as tests/test_sql.py uses: sqlite must be able to run the statement."""
    try:
        sqlite3.connect(":memory:").execute(statement)
        return True
    except sqlite3.Error as error:
        print("  sqlite rejects the statement: %s" % error)
        return False


cid = interface.Cid()
cid.read("x", [["D", "Format", "delimited"], ["F", "id", "", "", "", "Integer", "0...999"]])
cid.add_field_format(fields.TextFieldFormat("note", True, "...10", "", cid.data_format, empty_value="n/a"))


class ColorFieldFormat(fields.AbstractFieldFormat):  # as in docs/api.rst
    def __init__(self, field_name, is_allowed_to_be_empty, length, rule, data_format):
        super().__init__(field_name, is_allowed_to_be_empty, length, rule, data_format, empty_value=(0.0, 0.0, 0.0))

    def validated_value(self, color_name):
        return (1.0, 0.0, 0.0)


cid.add_field_format(ColorFieldFormat("roof_color", True, "...5", "", cid.data_format))
statement = sql.SqlFactory(cid, "t").create_table_statement()
print(statement)
if not is_valid_sql(statement):
    print("VIOLATION: columns carry a bogus, unquoted default clause")
    violated = True

cid.add_field_format(fields.IntegerFieldFormat("amount", True, "", "0...9", cid.data_format, empty_value=0))
print("amount.validated('') ->", repr(cid.field_formats[-1].validated("")))
try:
    statement = sql.SqlFactory(cid, "t").create_table_statement()
    print(statement)
    if not is_valid_sql(statement):
        violated = True
except TypeError as error:
    print("VIOLATION: create_table_statement() raised TypeError: %s" % error)
    violated = True
sys.exit(1 if violated else 0)
