"""
Finding 3: "cutplace --create CID" produces no CREATE TABLE statement at all when the
(valid) CID is stored as CSV or ODS - sql.write_create() always re-reads the CID with
rowio.excel_rows(), regardless of the CID's format. Only .xls / .xlsx CIDs work.
"""
import logging
import os
import shutil
import sys
import tempfile

sys.path.insert(0, "/tmp/audit_C19")
from cutplace import applications, interface

logging.basicConfig(level=logging.ERROR)
BASE = "/tmp/audit_C19"
failed = []
with tempfile.TemporaryDirectory() as folder:
    csv_cid = os.path.join(folder, "customers_csv.csv")
    with open(csv_cid, "w", encoding="utf-8") as csv_file:
        csv_file.write("D,Format,delimited\nF,customer_id,,,,Integer,0...99999\nF,surname,,X,...60\n")
    ods_cid = os.path.join(folder, "customers_ods.ods")
    shutil.copy(os.path.join(BASE, "examples", "cid_customers.ods"), ods_cid)
    xls_cid = os.path.join(folder, "customers_xls.xls")
    shutil.copy(os.path.join(BASE, "tests", "data", "cids", "cid_customers.xls"), xls_cid)
    for cid_path in (xls_cid, csv_cid, ods_cid):
        # The CID itself is fine:
        field_names = interface.Cid(cid_path).field_names
        exit_code = applications.main(["cutplace", "--create", cid_path])
        sql_path = os.path.splitext(cid_path)[0] + "_create.sql"
        has_sql = os.path.exists(sql_path)
        print("%s: CID readable with fields %s; --create exit code=%d, %s written: %s" % (
            os.path.basename(cid_path), field_names, exit_code, os.path.basename(sql_path), has_sql))
        if has_sql:
            with open(sql_path, encoding="utf-8") as sql_file:
                print(sql_file.read())
        if exit_code != 0 or not has_sql:
            failed.append(os.path.basename(cid_path))
if failed:
    print("VIOLATION: no CREATE TABLE statement generated from the command line for valid CIDs:", failed)
    sys.exit(1)
print("ok")
sys.exit(0)
