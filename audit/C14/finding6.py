"""
Finding 6: item delimiter blank + 'skip initial space' + minimal quoting: an
EMPTY cell is emitted as nothing between two blanks, the reader swallows the
second blank as "initial space", the row comes back with fewer fields and is
rejected. (Related to, but not the same as, the known loss of a leading blank.)
Exit code 1 = violation present, 0 = not present.
"""
import sys

sys.path.insert(0, "/tmp/audit_C14")
import io
import warnings

warnings.simplefilter("ignore")

import cutplace
from cutplace import errors, interface

cid = interface.create_cid_from_string(
    "d,format,delimited\nd,encoding,utf-8\nd,item delimiter,32\nd,skip initial space,true\n"
    "f,a,,X\nf,b,,X\nf,c,,X\n"
)
rows_to_write = [["a", "", "c"], ["", "", "c"], ["a", "b", ""]]
out = io.StringIO(newline="")
accepted_rows = []
with cutplace.Writer(cid, out) as writer:
    for row in rows_to_write:
        try:
            writer.write_row(row)
            accepted_rows.append(row)
            print("write_row(%r): accepted" % row)
        except errors.CutplaceError as error:
            print("write_row(%r): rejected: %s" % (row, error))
print("output: %r" % out.getvalue())

violations = 0
back = list(cutplace.rows(cid, io.StringIO(out.getvalue(), newline=""), on_error="yield"))
for index, item in enumerate(back):
    expected = accepted_rows[index] if index < len(accepted_rows) else None
    if isinstance(item, Exception):
        print("read back row %d: REJECTED: %s (written: %r)" % (index + 1, item, expected))
        violations += 1
    elif item != expected:
        print("read back row %d: %r differs from written %r" % (index + 1, item, expected))
        violations += 1
    else:
        print("read back row %d: %r ok" % (index + 1, item))
if len(back) != len(accepted_rows):
    print("read back %d rows but %d were accepted" % (len(back), len(accepted_rows)))
    violations += 1

if violations:
    print("VIOLATION: %d accepted row(s) are not read back as written" % violations)
    sys.exit(1)
print("no violation")
sys.exit(0)
