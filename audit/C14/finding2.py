"""
Finding 2: the state of the checks (IsUnique, DistinctCount) lives in the Cid
object, not in the Writer. Any other Reader / Writer that uses the same Cid
while the writer is open resets or pollutes what the writer remembers.
Exit code 1 = violation present, 0 = not present.
"""
import sys

sys.path.insert(0, "/tmp/audit_C14")
import io
import warnings

warnings.simplefilter("ignore")

import cutplace
from cutplace import errors, interface

CID_TEXT = "d,format,delimited\nd,encoding,utf-8\nf,a\nc,a must be unique,IsUnique,a\n"
violations = 0


def try_write(writer, row):
    try:
        writer.write_row(row)
        print("    write_row(%r): accepted" % row)
        return True
    except errors.CutplaceError as error:
        print("    write_row(%r): rejected: %s" % (row, error))
        return False


print("scenario A: writer is open, another file is validated with the same CID, then a duplicate is written")
cid = interface.create_cid_from_string(CID_TEXT)
out = io.StringIO(newline="")
writer = cutplace.Writer(cid, out)
try_write(writer, ["1"])
cutplace.validate(cid, io.StringIO("7\r\n", newline=""))
print("    cutplace.validate(cid, <other data '7'>)")
duplicate_accepted = try_write(writer, ["1"])
writer.close()
print("    output: %r" % out.getvalue())
try:
    back = list(cutplace.rows(cid, io.StringIO(out.getvalue(), newline="")))
    print("    read back: %r" % back)
    read_back_ok = True
except errors.CutplaceError as error:
    print("    read back REJECTED: %s" % error)
    read_back_ok = False
if duplicate_accepted or not read_back_ok:
    print("    VIOLATION: writer emitted a duplicate key; its own output is rejected when read back")
    violations += 1

print("scenario B: copy rows from an input to an output under the same CID")
cid = interface.create_cid_from_string(CID_TEXT)
out = io.StringIO(newline="")
writer = cutplace.Writer(cid, out)
accepted = []
for row in cutplace.rows(cid, io.StringIO("1\r\n2\r\n", newline="")):
    if try_write(writer, row):
        accepted.append(row)
writer.close()
print("    output: %r" % out.getvalue())
if accepted != [["1"], ["2"]]:
    print("    VIOLATION: rows that are unique in the output are rejected as duplicates (of the row just read)")
    violations += 1

print("scenario C: two writers bound to the same CID, each with its own target")
cid = interface.create_cid_from_string(CID_TEXT)
out1 = io.StringIO(newline="")
out2 = io.StringIO(newline="")
writer1 = cutplace.Writer(cid, out1)
writer2 = cutplace.Writer(cid, out2)
try_write(writer1, ["1"])
second_ok = try_write(writer2, ["1"])
writer1.close()
writer2.close()
print("    output 1: %r, output 2: %r" % (out1.getvalue(), out2.getvalue()))
if not second_ok:
    print("    VIOLATION: writer 2 rejects a row because of what writer 1 has written to another target")
    violations += 1

if violations:
    print("VIOLATION in %d scenario(s)" % violations)
    sys.exit(1)
print("no violation")
sys.exit(0)
