"""
Finding 4: the delimited writer accepts and emits a value of more than 131072
characters, the delimited reader cannot read it back (csv field size limit).
Exit code 1 = violation present, 0 = not present.
"""
import sys

sys.path.insert(0, "/tmp/audit_C14")
import io
import warnings

warnings.simplefilter("ignore")

import cutplace
from cutplace import errors, interface

violations = 0
for length in (131072, 131073):
    cid = interface.create_cid_from_string("d,format,delimited\nd,encoding,utf-8\nf,a\nf,b\n")
    rows_to_write = [["1", "x" * length], ["2", "y"]]
    out = io.StringIO(newline="")
    accepted_rows = []
    with cutplace.Writer(cid, out) as writer:
        for row in rows_to_write:
            try:
                writer.write_row(row)
                accepted_rows.append(row)
            except errors.CutplaceError as error:
                print("length %d: writer rejected row %s...: %s" % (length, row[0], str(error)[:100]))
    print("length %d: writer accepted %d row(s), emitted %d characters" % (length, len(accepted_rows), len(out.getvalue())))
    try:
        back = list(cutplace.rows(cid, io.StringIO(out.getvalue(), newline="")))
    except errors.CutplaceError as error:
        print("length %d: reading back FAILED with %s: %s" % (length, type(error).__name__, error))
        violations += 1
        continue
    if back == accepted_rows:
        print("length %d: read back %d row(s), identical to what was written" % (length, len(back)))
    else:
        print("length %d: read back differs from what was accepted" % length)
        violations += 1

if violations:
    print("VIOLATION: output the writer accepted and emitted cannot be read back under the same CID")
    sys.exit(1)
print("no violation")
sys.exit(0)
