"""
Finding 5: with an encoding whose Python codec is not reversible for every
character it can encode (cp932, shift_jis, euc_jp, cp950), the writer accepts
and emits values that come back as different values - or are rejected - when
the output is read under the same CID.
Exit code 1 = violation present, 0 = not present.
"""
import sys

sys.path.insert(0, "/tmp/audit_C14")
import os
import tempfile
import warnings

warnings.simplefilter("ignore")

import cutplace
from cutplace import errors, interface

CASES = [
    # (description, CID text, rows to write, pad widths or None)
    (
        "delimited, cp932, Text field, value U+00A2 CENT SIGN",
        "d,format,delimited\nd,encoding,cp932\nf,a\nf,b\n",
        [["1", "¢"]],
        None,
    ),
    (
        "delimited, shift_jis, Choice field that only allows U+00A5 YEN SIGN",
        "d,format,delimited\nd,encoding,shift_jis\nf,a\nf,b,,,,Choice,¥\n",
        [["1", "¥"]],
        None,
    ),
    (
        "delimited, shift_jis, escape character backslash, value U+00A5 YEN SIGN in first field",
        "d,format,delimited\nd,encoding,shift_jis\nd,escape character,\\\nf,a\nf,b\n",
        [["¥", "x"]],
        None,
    ),
    (
        "fixed, euc_jp, value U+203E OVERLINE",
        "d,format,fixed\nd,encoding,euc_jp\nd,line delimiter,lf\nf,a,,,2\nf,b,,,3\n",
        [["1", "‾"]],
        (2, 3),
    ),
]

violations = 0
for description, cid_text, rows_to_write, widths in CASES:
    print(description)
    cid = interface.create_cid_from_string(cid_text)
    target_path = tempfile.mktemp(suffix=".data")
    try:
        accepted_rows = []
        with cutplace.Writer(cid, target_path) as writer:
            for row in rows_to_write:
                try:
                    writer.write_row(row)
                    accepted_rows.append(row)
                    print("    write_row(%r): accepted" % row)
                except errors.CutplaceError as error:
                    print("    write_row(%r): rejected: %s" % (row, error))
        with open(target_path, "rb") as target_file:
            print("    bytes emitted: %r" % target_file.read())
        if widths is None:
            expected_rows = accepted_rows
        else:
            expected_rows = [[value.ljust(width) for value, width in zip(row, widths)] for row in accepted_rows]
        try:
            back = list(cutplace.rows(cid, target_path))
            print("    read back: %r" % back)
            if back != expected_rows:
                print("    VIOLATION: expected %r" % expected_rows)
                violations += 1
        except errors.CutplaceError as error:
            print("    VIOLATION: reading back rejected: %s" % error)
            violations += 1
    finally:
        if os.path.exists(target_path):
            os.remove(target_path)

if violations:
    print("VIOLATION in %d case(s)" % violations)
    sys.exit(1)
print("no violation")
sys.exit(0)
