"""
Finding 3: a row the writer rejects (and does not emit) still changes the state
of the checks, so later rows are judged against rows that are not in the output.
Exit code 1 = violation present, 0 = not present.
"""
import sys

sys.path.insert(0, "/tmp/audit_C14")
import io
import os
import tempfile
import warnings

warnings.simplefilter("ignore")

import cutplace
from cutplace import errors, interface

violations = 0


def try_write(writer, row):
    try:
        writer.write_row(row)
        print("    write_row(%r): accepted" % row)
        return True
    except errors.CutplaceError as error:
        print("    write_row(%r): rejected with %s: %s" % (row, type(error).__name__, error))
        return False


print("scenario A: row rejected by the 2nd check has already been remembered by the 1st check")
cid = interface.create_cid_from_string(
    "d,format,delimited\nd,encoding,utf-8\nf,a\nf,b\nc,a must be unique,IsUnique,a\nc,b must be unique,IsUnique,b\n"
)
out = io.StringIO(newline="")
writer = cutplace.Writer(cid, out)
try_write(writer, ["1", "1"])
try_write(writer, ["2", "1"])  # rejected: b=1 is a duplicate
corrected_ok = try_write(writer, ["2", "2"])  # a=2 has never been emitted
writer.close()
print("    output: %r" % out.getvalue())
if not corrected_ok or out.getvalue().splitlines() != ["1,1", "2,2"]:
    print("    VIOLATION: the corrected row is refused because of a row that was never emitted")
    violations += 1

print("scenario B: row passes validation, cannot be encoded, is not emitted - but its key stays taken")
cid = interface.create_cid_from_string(
    "d,format,delimited\nd,encoding,ascii\nf,a\nf,b\nc,a must be unique,IsUnique,a\n"
)
target_path = tempfile.mktemp(suffix=".csv")
try:
    writer = cutplace.Writer(cid, target_path)
    try_write(writer, ["1", "€"])  # DataFormatError: not ASCII
    retry_ok = try_write(writer, ["1", "EUR"])
    writer.close()
    with open(target_path, "rb") as target_file:
        written = target_file.read()
finally:
    if os.path.exists(target_path):
        os.remove(target_path)
print("    output: %r" % written)
if not retry_ok or written.splitlines() != [b"1,EUR"]:
    print("    VIOLATION: the retried row is refused because of a row that was never emitted")
    violations += 1

print("scenario C: rejected row is counted by DistinctCount, close() fails although the output conforms")
cid = interface.create_cid_from_string(
    "d,format,delimited\nd,encoding,utf-8\nf,a\nf,b\n"
    "c,at most 2 different b,DistinctCount,b <= 2\nc,a must be unique,IsUnique,a\n"
)
out = io.StringIO(newline="")
writer = cutplace.Writer(cid, out)
try_write(writer, ["1", "x"])
try_write(writer, ["2", "y"])
try_write(writer, ["2", "z"])  # rejected: a=2 is a duplicate; b='z' never emitted
try:
    writer.close()
    print("    close(): ok")
    close_ok = True
except errors.CutplaceError as error:
    print("    close(): %s: %s" % (type(error).__name__, error))
    close_ok = False
print("    output: %r" % out.getvalue())
cutplace.validate(cid, io.StringIO(out.getvalue(), newline=""))
print("    reading the output back: accepted")
if not close_ok:
    print("    VIOLATION: writer reports a failed check for an output that passes the same check when read")
    violations += 1

if violations:
    print("VIOLATION in %d scenario(s)" % violations)
    sys.exit(1)
print("no violation")
sys.exit(0)
