"""
Finding 1: the CID-bound writer for delimited data ignores the declared line
delimiter and always ends lines with CR LF.
Exit code 1 = violation present, 0 = not present.
"""
import sys

sys.path.insert(0, "/tmp/audit_C14")
import io
import os
import tempfile
import warnings

warnings.simplefilter("ignore")

import cutplace
from cutplace import interface

DECLARED_TO_EXPECTED = {"LF": "\n", "CR": "\r", "CRLF": "\r\n"}
ROWS = [["1", "x"], ["2", "y"]]

violations = 0
for declared, expected_delimiter in DECLARED_TO_EXPECTED.items():
    cid_text = "d,format,delimited\nd,encoding,utf-8\nd,line delimiter,%s\nf,a\nf,b\n" % declared
    expected = "".join(",".join(row) + expected_delimiter for row in ROWS)

    # Variant 1: target is a stream.
    cid = interface.create_cid_from_string(cid_text)
    out = io.StringIO(newline="")
    with cutplace.Writer(cid, out) as writer:
        writer.write_rows(ROWS)
    actual_stream = out.getvalue()

    # Variant 2: target is a path (opened by cutplace itself).
    cid = interface.create_cid_from_string(cid_text)
    target_path = tempfile.mktemp(suffix=".csv")
    try:
        with cutplace.Writer(cid, target_path) as writer:
            writer.write_rows(ROWS)
        with open(target_path, "rb") as target_file:
            actual_file = target_file.read().decode("utf-8")
    finally:
        if os.path.exists(target_path):
            os.remove(target_path)

    for variant, actual in (("stream", actual_stream), ("path", actual_file)):
        is_ok = actual == expected
        print(
            "line delimiter=%-4s target=%-6s expected=%r observed=%r -> %s"
            % (declared, variant, expected, actual, "ok" if is_ok else "VIOLATION")
        )
        if not is_ok:
            violations += 1

if violations:
    print("VIOLATION: %d output(s) do not end lines with the declared line delimiter" % violations)
    sys.exit(1)
print("no violation")
sys.exit(0)
