"""
XlsxRowWriter: a row with a timezone-aware datetime / time passes the pre-check of write_row(),
then xlsxwriter raises TypeError in the middle of the row: the cells before it are already in the
sheet, the cell counter of the location is not reset, and every row written afterwards is shifted
to the right and lands in the line of the refused row.

Exit code 1 if the violation is present, 0 if not.
"""
import sys

sys.path.insert(0, "/tmp/audit4_C14")

import datetime
import os
import tempfile

from cutplace import errors, interface, rowio, validio

folder = tempfile.mkdtemp()
xlsx_path = os.path.join(folder, "out.xlsx")

aware = datetime.datetime(2020, 1, 1, 12, 0, 0, tzinfo=datetime.timezone.utc)
rows_to_write = [
    ["r1a", "r1b", "r1c"],
    ["r2a", aware, "r2c"],  # cannot be stored by xlsxwriter
    ["r3a", "r3b", "r3c"],
]

accepted_rows = []
other_errors = []
with rowio.XlsxRowWriter(xlsx_path) as writer:
    for row in rows_to_write:
        try:
            writer.write_row(row)
            accepted_rows.append(row)
            print("accepted: %r" % (row,))
        except errors.CutplaceError as error:
            print("rejected with %s: %r" % (type(error).__name__, row))
        except Exception as error:
            other_errors.append(error)
            print("rejected with %s (no CutplaceError): %r; location now: %s" % (type(error).__name__, row, writer.location))

rows_read = [row for row in rowio.excel_rows(xlsx_path)]
# Spreadsheets pad rows to the width of the sheet; ignore trailing empty cells.
rows_read = [[item for item in row] for row in rows_read]
for row in rows_read:
    while row and row[-1] == "":
        row.pop()
print("accepted rows: %r" % accepted_rows)
print("rows read back: %r" % rows_read)

# The same under an Excel CID.
cid = interface.Cid()
cid.read(
    "inline",
    [["d", "format", "excel"], ["f", "a", "", "", "3"], ["f", "b", "", "", "3"], ["f", "c", "", "", "3"]],
)
try:
    validio.validate(cid, xlsx_path)
    print("validation of the produced file under an Excel CID: ok")
    cid_accepts = True
except errors.CutplaceError as error:
    print("validation of the produced file under an Excel CID fails: %s" % error)
    cid_accepts = False

is_violated = (rows_read != accepted_rows) or bool(other_errors) or not cid_accepts
if is_violated:
    print("VIOLATION: the refused row left cells behind and/or later rows were displaced")
    sys.exit(1)
print("ok: refused row left nothing behind, later rows are in place")
sys.exit(0)
