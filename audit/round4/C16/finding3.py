"""
XlsxRowWriter stores a float with 16 significant digits only (xlsxwriter formats
numbers with '%.16G'), so about every fourth float is stored as a DIFFERENT number;
reading the workbook back then yields the text of that other number.
"""
import sys

sys.path.insert(0, "/tmp/audit4_C16")
import os
import random
import tempfile
import warnings

warnings.simplefilter("ignore")
from cutplace import rowio

target = os.path.join(tempfile.mkdtemp(), "finding3.xlsx")
values = [0.1 + 0.2, 123456.78901234567, 1000000000000000.5]
random.seed(1)
values += [random.random() * 10 ** random.randint(-5, 5) for _ in range(1000)]
with rowio.XlsxRowWriter(target) as writer:
    writer.write_rows([[value] for value in values])
read_back = [row[0] for row in rowio.excel_rows(target)]
changed = [(value, text) for value, text in zip(values, read_back) if float(text) != value]
for value, text in changed[:5]:
    print("written %r (shortest text %r), read back %r" % (value, repr(value), text))
print("%d of %d floats come back as the text of a different number" % (len(changed), len(values)))
if changed:
    print("VIOLATION: the numbers written do not read back as (the text of) the same value")
    sys.exit(1)
print("ok")
sys.exit(0)
