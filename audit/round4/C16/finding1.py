"""
XlsxRowWriter.write_row(): an item that passes the pre-check but that xlsxwriter
refuses (a datetime / time with tzinfo) fails in the middle of the row. The cells
before it stay in the sheet, the location keeps its column, and every row written
afterwards is shifted, so the table does not read back as written.
"""
import sys

sys.path.insert(0, "/tmp/audit4_C16")
import datetime
import os
import tempfile
import warnings

warnings.simplefilter("ignore")
from cutplace import errors, rowio

target = os.path.join(tempfile.mkdtemp(), "finding1.xlsx")
aware = datetime.datetime(2020, 1, 2, 3, 4, 5, tzinfo=datetime.timezone.utc)
written = []
writer = rowio.XlsxRowWriter(target)
for row in (["a", aware], ["x", "y"], ["p", "q"]):
    try:
        writer.write_row(row)
        written.append(row)
        print("written:  %r" % (row,))
    except errors.DataFormatError as error:
        print("refused (DataFormatError, fine): %r: %s" % (row, error))
    except Exception as error:
        print("failed with %s: %r: %s" % (type(error).__name__, row, error))
        print("  location after the failure: %s" % writer.location)
writer.close()
read_back = list(rowio.excel_rows(target))
print("rows written without error: %r" % written)
print("rows read back:             %r" % read_back)
if read_back != written:
    print("VIOLATION: the table written does not read back identically")
    sys.exit(1)
print("ok")
sys.exit(0)
