"""
excel_rows() cannot read legal *.xlsx workbooks that
(a) store a date as an ISO 8601 cell (<c t="d">, ECMA-376 ST_CellType 'd') or
(b) are saved as "Strict Open XML Spreadsheet" (ISO/IEC 29500 strict name spaces, a
    regular "Save as" type of Excel 2013+).
(a) is reported as 'damaged Excel file', (b) as a workbook without any sheet.
"""
import sys

sys.path.insert(0, "/tmp/audit4_C16")
import os
import tempfile
import warnings
import zipfile

warnings.simplefilter("ignore")
from cutplace import errors, rowio

TRANSITIONAL = (
    "http://schemas.openxmlformats.org/spreadsheetml/2006/main",
    "http://schemas.openxmlformats.org/officeDocument/2006/relationships",
)
STRICT = (
    "http://purl.oclc.org/ooxml/spreadsheetml/main",
    "http://purl.oclc.org/ooxml/officeDocument/relationships",
)
PKG_REL = "http://schemas.openxmlformats.org/package/2006/relationships"
XML = '<?xml version="1.0" encoding="UTF-8" standalone="yes"?>'


def write_xlsx(path, name_spaces, row_xml):
    main, rel = name_spaces
    with zipfile.ZipFile(path, "w") as z:
        z.writestr(
            "[Content_Types].xml",
            XML + '<Types xmlns="http://schemas.openxmlformats.org/package/2006/content-types">'
            '<Default Extension="rels" ContentType="application/vnd.openxmlformats-package.relationships+xml"/>'
            '<Default Extension="xml" ContentType="application/xml"/>'
            '<Override PartName="/xl/workbook.xml" ContentType="application/vnd.openxmlformats-officedocument.spreadsheetml.sheet.main+xml"/>'
            '<Override PartName="/xl/worksheets/sheet1.xml" ContentType="application/vnd.openxmlformats-officedocument.spreadsheetml.worksheet+xml"/>'
            '<Override PartName="/xl/styles.xml" ContentType="application/vnd.openxmlformats-officedocument.spreadsheetml.styles+xml"/>'
            "</Types>",
        )
        z.writestr(
            "_rels/.rels",
            XML + '<Relationships xmlns="%s"><Relationship Id="rId1" Type="%s/officeDocument" Target="xl/workbook.xml"/>'
            "</Relationships>" % (PKG_REL, rel),
        )
        z.writestr(
            "xl/workbook.xml",
            XML + '<workbook xmlns="%s" xmlns:r="%s"><sheets><sheet name="Sheet1" sheetId="1" r:id="rId1"/></sheets>'
            "</workbook>" % (main, rel),
        )
        z.writestr(
            "xl/_rels/workbook.xml.rels",
            XML + '<Relationships xmlns="%s">'
            '<Relationship Id="rId1" Type="%s/worksheet" Target="worksheets/sheet1.xml"/>'
            '<Relationship Id="rId2" Type="%s/styles" Target="styles.xml"/></Relationships>' % (PKG_REL, rel, rel),
        )
        z.writestr(
            "xl/styles.xml",
            XML + '<styleSheet xmlns="%s"><fonts count="1"><font/></fonts><fills count="1"><fill/></fills>'
            '<borders count="1"><border/></borders><cellStyleXfs count="1"><xf/></cellStyleXfs>'
            '<cellXfs count="2"><xf numFmtId="0"/><xf numFmtId="22" applyNumberFormat="1"/></cellXfs></styleSheet>' % main,
        )
        z.writestr(
            "xl/worksheets/sheet1.xml",
            XML + '<worksheet xmlns="%s"><sheetData><row r="1">%s</row></sheetData></worksheet>' % (main, row_xml),
        )


def rows_or_error(path):
    try:
        return list(rowio.excel_rows(path))
    except errors.DataFormatError as error:
        return "DataFormatError: %s" % error


folder = tempfile.mkdtemp()
exit_code = 0
expected = [["2023-03-15 12:00:00", "1"]]

# Control: the same date as serial number in a transitional workbook.
control_path = os.path.join(folder, "control.xlsx")
write_xlsx(control_path, TRANSITIONAL, '<c r="A1" s="1"><v>45000.5</v></c><c r="B1"><v>1</v></c>')
print("control (serial date, transitional): %r" % rows_or_error(control_path))

iso_path = os.path.join(folder, "iso_date.xlsx")
write_xlsx(iso_path, TRANSITIONAL, '<c r="A1" s="1" t="d"><v>2023-03-15T12:00:00</v></c><c r="B1"><v>1</v></c>')
iso_result = rows_or_error(iso_path)
print('(a) <c t="d"><v>2023-03-15T12:00:00</v></c>: %r' % iso_result)
if iso_result != expected:
    print("    VIOLATION: expected %r" % expected)
    exit_code = 1

strict_path = os.path.join(folder, "strict.xlsx")
write_xlsx(strict_path, STRICT, '<c r="A1" s="1"><v>45000.5</v></c><c r="B1"><v>1</v></c>')
strict_result = rows_or_error(strict_path)
print("(b) strict name spaces, serial date: %r" % strict_result)
if strict_result != expected:
    print("    VIOLATION: expected %r" % expected)
    exit_code = 1
print("ok" if exit_code == 0 else "violation present")
sys.exit(exit_code)
