"""
excel_rows(): a formula cell of type "str" (string result) without a cached <v>
element (as gnumeric and other generators write it for an empty result) is returned
as the text 'None' although the workbook holds no such text.
"""
import sys

sys.path.insert(0, "/tmp/audit4_C16")
import os
import tempfile
import warnings
import zipfile

warnings.simplefilter("ignore")
from cutplace import rowio

NS = "http://schemas.openxmlformats.org/spreadsheetml/2006/main"
REL = "http://schemas.openxmlformats.org/officeDocument/2006/relationships"
PKG_REL = "http://schemas.openxmlformats.org/package/2006/relationships"
SHEET_XML = (
    '<?xml version="1.0" encoding="UTF-8" standalone="yes"?>'
    '<worksheet xmlns="%s"><sheetData><row r="1">'
    '<c r="A1" t="str"><f>IF(TRUE,"","x")</f></c>'  # string formula, no cached value
    '<c r="B1" t="str"><f>""</f><v></v></c>'  # same with an empty cached value
    '<c r="C1"><v>1</v></c>'
    "</row></sheetData></worksheet>" % NS
)
target = os.path.join(tempfile.mkdtemp(), "finding2.xlsx")
with zipfile.ZipFile(target, "w") as z:
    z.writestr(
        "[Content_Types].xml",
        '<?xml version="1.0" encoding="UTF-8" standalone="yes"?>'
        '<Types xmlns="http://schemas.openxmlformats.org/package/2006/content-types">'
        '<Default Extension="rels" ContentType="application/vnd.openxmlformats-package.relationships+xml"/>'
        '<Default Extension="xml" ContentType="application/xml"/>'
        '<Override PartName="/xl/workbook.xml" ContentType="application/vnd.openxmlformats-officedocument.spreadsheetml.sheet.main+xml"/>'
        '<Override PartName="/xl/worksheets/sheet1.xml" ContentType="application/vnd.openxmlformats-officedocument.spreadsheetml.worksheet+xml"/>'
        "</Types>",
    )
    z.writestr(
        "_rels/.rels",
        '<?xml version="1.0" encoding="UTF-8" standalone="yes"?><Relationships xmlns="%s">'
        '<Relationship Id="rId1" Type="%s/officeDocument" Target="xl/workbook.xml"/></Relationships>' % (PKG_REL, REL),
    )
    z.writestr(
        "xl/workbook.xml",
        '<?xml version="1.0" encoding="UTF-8" standalone="yes"?><workbook xmlns="%s" xmlns:r="%s">'
        '<sheets><sheet name="Sheet1" sheetId="1" r:id="rId1"/></sheets></workbook>' % (NS, REL),
    )
    z.writestr(
        "xl/_rels/workbook.xml.rels",
        '<?xml version="1.0" encoding="UTF-8" standalone="yes"?><Relationships xmlns="%s">'
        '<Relationship Id="rId1" Type="%s/worksheet" Target="worksheets/sheet1.xml"/></Relationships>' % (PKG_REL, REL),
    )
    z.writestr("xl/worksheets/sheet1.xml", SHEET_XML)

print("sheet1.xml: %s" % SHEET_XML)
rows = list(rowio.excel_rows(target))
print("rows read: %r" % rows)
expected = [["", "", "1"]]
print("expected:  %r" % expected)
if rows != expected:
    print("VIOLATION: a text that is not in the workbook is returned for the string cell A1")
    sys.exit(1)
print("ok")
sys.exit(0)
