"""
Finding 3: a row rejected by a field format or check (plug-in) that signals it with a DataError
other than FieldValueError / CheckError - for instance the RangeValueError of Range.validate(),
which the plug-in example shipped with cutplace uses in its check - is reported without any
location and without the name of the field.
Exit 1 if present, 0 if repaired.
"""
import sys

sys.path.insert(0, "/tmp/audit4_C04")
import io
import warnings

warnings.simplefilter("ignore")
from cutplace import checks, errors, fields, interface, ranges, validio


class SmallNumberFieldFormat(fields.AbstractFieldFormat):
    """Plug-in field format: an integer within the range given as rule."""

    def __init__(self, field_name, is_allowed_to_be_empty, length, rule, data_format):
        super().__init__(field_name, is_allowed_to_be_empty, length, rule, data_format, empty_value=None)
        self._range = ranges.Range(rule)

    def validated_value(self, value):
        try:
            result = int(value)
        except ValueError:
            raise errors.FieldValueError("value must be an integer: %r" % value)
        # Range.validate() raises RangeValueError, which is a DataError but no FieldValueError.
        self._range.validate("number", result)
        return result


class SumIsInRangeCheck(checks.AbstractCheck):
    """Plug-in check modelled after examples/plugins.py, only that it does not pass on the location."""

    def __init__(self, description, rule, available_field_names, location=None):
        super().__init__(description, rule, available_field_names, location)
        self._range = ranges.Range(rule)

    def check_row(self, field_name_to_value_map, location):
        self._range.validate("sum", int(field_name_to_value_map["a"]) + int(field_name_to_value_map["b"]))


CID = "d,format,delimited\nf,a,,,,SmallNumber,0...9\nf,b,,,,SmallNumber,0...9\nc,s,SumIsInRange,0...10\n"
DATA = "1,2\n3,44\n9,9\n"

cid = interface.create_cid_from_string(CID)
violated = False
with validio.Reader(cid, io.StringIO(DATA), on_error="yield") as reader:
    for row_number, row in enumerate(reader.rows(), 1):
        if isinstance(row, Exception):
            print("row %d rejected: %s: %s" % (row_number, type(row).__name__, row))
            print("    location: %r" % (row.location,))
            if row.location is None or row.location.line + 1 != row_number:
                violated = True
            if row_number == 2 and "'b'" not in row.message:
                print("    the message does not name field 'b'")
                violated = True
        else:
            print("row %d accepted: %r" % (row_number, row))
print("expected: '<io> (R2C2): cannot accept field 'b': ...' and '<io> (R3C1): ...'")
print("VIOLATION PRESENT" if violated else "no violation")
sys.exit(1 if violated else 0)
