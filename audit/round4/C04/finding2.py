"""
Finding 2: a delimited row that cannot be parsed is located by its physical LINE in the file,
every other rejected row by its ROW number; as soon as an earlier cell contains a line break
the two differ and the error names the wrong row.
Exit 1 if present, 0 if repaired.
"""
import sys

sys.path.insert(0, "/tmp/audit4_C04")
import io
import warnings

warnings.simplefilter("ignore")
from cutplace import errors, interface, validio

CID = "d,format,delimited\nf,a\nf,b,,,,Integer\n"
#        row 1 (2 lines)   row 2        row 3: broken    row 4
DATA = '"x\ny",1\n' + "c,oops\n" + 'd,"3"4\n' + "e,5\n"


def outcomes(data):
    cid = interface.create_cid_from_string(CID)
    result = []
    try:
        with validio.Reader(cid, io.StringIO(data), on_error="yield") as reader:
            for row in reader.rows():
                result.append(row)
    except errors.DataError as error:
        result.append(error)
    return result


violated = False
print("data: %r" % DATA)
result = outcomes(DATA)
for item in result:
    print("  %s" % (item,))
field_error = result[1]
parse_error = result[-1]
print("row 2 is rejected by field 'b' and located at row %d" % (field_error.location.line + 1))
print("row 3 cannot be parsed and is located at 'row' %d (expected 3)" % (parse_error.location.line + 1))
if parse_error.location.line + 1 != 3:
    violated = True

print()
DATA2 = '"x\ny",1\n' + "c,2\n" + 'd,"3\n' + "e,5\n" + "f,6\n"
print("data with a quote opened in row 3 and never closed: %r" % DATA2)
result = outcomes(DATA2)
for item in result:
    print("  %s" % (item,))
parse_error = result[-1]
print("located at 'row' %d (the row that cannot be read starts as row 3)" % (parse_error.location.line + 1))
if parse_error.location.line + 1 != 3:
    violated = True

print("VIOLATION PRESENT" if violated else "no violation")
sys.exit(1 if violated else 0)
