"""
Finding 1: a byte that cannot be decoded in row k of a delimited / fixed data FILE is reported
at a row that has nothing to do with k (row 1 for small files, a buffer boundary for large
ones); valid rows before k are never delivered, and in a large file the row named by the
location has just been delivered as accepted.
Exit 1 if present, 0 if repaired.
"""
import sys

sys.path.insert(0, "/tmp/audit4_C04")
import os
import tempfile
import warnings

warnings.simplefilter("ignore")
from cutplace import errors, interface, validio

CID_DELIMITED = "d,format,delimited\nd,encoding,utf-8\nf,a\nf,b\n"
CID_FIXED = "d,format,fixed\nd,encoding,utf-8\nf,a,,,3\nf,b,,,1\n"


def read(cid_text, data_bytes):
    cid = interface.create_cid_from_string(cid_text)
    handle, path = tempfile.mkstemp(suffix=".txt")
    os.write(handle, data_bytes)
    os.close(handle)
    rows = []
    error = None
    try:
        with validio.Reader(cid, path, on_error="yield") as reader:
            for row in reader.rows():
                rows.append(row)
    except errors.DataError as e:
        error = e
    finally:
        os.remove(path)
    return rows, error


violated = False

print("case A: delimited, 4 rows, byte 0xff in row 3")
rows, error = read(CID_DELIMITED, b"a,1\nb,2\nc,\xff3\nd,4\n")
print("  rows delivered before the error: %r" % rows)
print("  error: %s" % error)
reported_row = None if error is None or error.location is None else error.location.line + 1
print("  expected row 3 (and rows 1, 2 delivered), reported row: %r" % reported_row)
if reported_row != 3:
    violated = True

print("case B: delimited, 5000 rows, byte 0xff in row 4001")
lines = [b"row%d,x\n" % i for i in range(1, 5001)]
lines[4000] = b"bad\xff,x\n"
rows, error = read(CID_DELIMITED, b"".join(lines))
print("  rows delivered before the error: %d" % len(rows))
print("  error: %s" % error)
reported_row = None if error is None or error.location is None else error.location.line + 1
print("  expected row 4001 (and 4000 rows delivered), reported row: %r" % reported_row)
if reported_row is not None and reported_row <= len(rows):
    print("  the row named by the location had already been delivered as accepted: %r" % rows[reported_row - 1])
if reported_row != 4001:
    violated = True

print("case C: fixed, 4 rows, byte 0xff in row 3")
rows, error = read(CID_FIXED, b"aaa1\nbbb2\nc\xffc3\nddd4\n")
print("  rows delivered before the error: %r" % rows)
print("  error: %s" % error)
reported_row = None if error is None or error.location is None else error.location.line + 1
print("  expected row 3, reported row: %r" % reported_row)
if reported_row != 3:
    violated = True

print("VIOLATION PRESENT" if violated else "no violation")
sys.exit(1 if violated else 0)
