"""
Finding 5: a row rejected by a row check is always located at column 1, even if the fields
the check is about (and names in its message) are in other columns.
Exit 1 if present, 0 if repaired.
"""
import sys

sys.path.insert(0, "/tmp/audit4_C04")
import io
import warnings

warnings.simplefilter("ignore")
from cutplace import errors, interface, validio

CID = "d,format,delimited\nf,a\nf,b\nf,c\nc,u,IsUnique,c\n"
DATA = "1,p,x\n2,q,y\n3,r,x\n"

cid = interface.create_cid_from_string(CID)
violated = False
with validio.Reader(cid, io.StringIO(DATA), on_error="yield") as reader:
    for row in reader.rows():
        if isinstance(row, errors.DataError):
            print("rejected: %s" % row)
            print("  location: row %d, column %d; the only offending field 'c' is column 3"
                  % (row.location.line + 1, row.location.cell + 1))
            if row.location.cell + 1 != 3:
                violated = True
        else:
            print("accepted: %r" % row)
print("VIOLATION PRESENT" if violated else "no violation")
sys.exit(1 if violated else 0)
