"""
Finding 4: the limit 'validate_until' / --until is counted in two different units. Whether a
row is validated is decided by its number in the FILE (header rows included), when to stop is
decided by the number of DATA rows delivered. With header rows, rows behind the limit are
still read, not validated, and reported as accepted.
Exit 1 if present, 0 if repaired.
"""
import sys

sys.path.insert(0, "/tmp/audit4_C04")
import io
import logging
import os
import tempfile
import warnings

warnings.simplefilter("ignore")
from cutplace import applications, errors, interface, validio

CID = "d,format,delimited\nd,header,1\nf,a,,,,Integer,0...9\nf,b\nc,u,IsUnique,b\n"
DATA = "a,b\n1,x\nbad,x\n3,z\n"  # row 3 (= data row 2) is broken twice: field a and the check

violated = False
cid = interface.create_cid_from_string(CID)
print("validate(cid, data, validate_until=2), 1 header row, row 3 = data row 2 is invalid")
try:
    validio.validate(cid, io.StringIO(DATA), validate_until=2)
    print("  -> data accepted")
    accepted = True
except errors.DataError as error:
    print("  -> %s" % error)
    accepted = False

reader = validio.Reader(cid, io.StringIO(DATA), validate_until=2)
reader.validate_rows()
print("Reader.validate_rows(): accepted_rows_count=%d rejected_rows_count=%d, reader stopped at row %d" % (
    reader.accepted_rows_count, reader.rejected_rows_count, reader.location.line + 1))
reader.close()
print("  reading 1: the limit counts data rows (validate() 'stops after N data rows'):")
print("             then data row 2 is within the limit and must be rejected")
print("  reading 2: the limit counts rows of the file (documentation of --until):")
print("             then row 3 must not be processed at all and 1 row is accepted, not 2")
if accepted and reader.accepted_rows_count == 2:
    violated = True

print("command line: cutplace --until 2 cid.csv data.csv")
folder = tempfile.mkdtemp()
cid_path = os.path.join(folder, "cid.csv")
data_path = os.path.join(folder, "data.csv")
with open(cid_path, "w") as cid_file:
    cid_file.write(CID)
with open(data_path, "w") as data_file:
    data_file.write(DATA)
logging.basicConfig(level=logging.INFO, stream=sys.stdout)
exit_code = applications.main(["cutplace", "--until", "2", cid_path, data_path])
print("  exit code %d" % exit_code)
os.remove(cid_path)
os.remove(data_path)
os.rmdir(folder)

print("VIOLATION PRESENT" if violated else "no violation")
sys.exit(1 if violated else 0)
