"""
Finding 3: rowio.XlsxRowWriter.write_row() (repaired in e917220 to "refuse a
row with an item it cannot store before writing anything") lets two kinds of
items through its pre-check:

* a datetime.datetime / datetime.time that has a time zone: xlsxwriter raises
  TypeError - AFTER the cells to the left of it have been written, so the file
  ends up with a truncated row;
* decimal.Decimal("sNaN"): math.isfinite() raises ValueError, which the
  pre-check does not catch.

Expected: errors.DataFormatError (as for float("nan"), None, a timedelta ...)
and nothing of the row written.

Exit code 1: violation present, 0: not present.
"""
import sys

sys.path.insert(0, "/tmp/audit4_C10")

import datetime
import decimal
import os
import tempfile
import warnings

warnings.simplefilter("ignore")

from cutplace import errors, rowio  # noqa: E402

ITEMS = [
    ("float('nan') (control, refused properly)", float("nan")),
    ("datetime with tzinfo=UTC", datetime.datetime(2024, 2, 29, 12, 30, tzinfo=datetime.timezone.utc)),
    ("time with tzinfo=UTC", datetime.time(12, 30, tzinfo=datetime.timezone.utc)),
    ("Decimal('sNaN')", decimal.Decimal("sNaN")),
]

violations = 0
with tempfile.TemporaryDirectory() as folder:
    for index, (title, item) in enumerate(ITEMS):
        target_path = os.path.join(folder, "out_%d.xlsx" % index)
        row = ["left", item, "right"]
        print("--- %s: write_row(%r)" % (title, row))
        writer = rowio.XlsxRowWriter(target_path)
        try:
            writer.write_row(row)
            print("  -> written")
        except errors.DataError as error:
            print("  -> %s (fine): %s" % (type(error).__name__, str(error)[:110]))
        except Exception as error:
            violations += 1
            print("  -> VIOLATION, %s escapes: %s" % (type(error).__name__, str(error)[:110]))
        writer.close()
        rows_written = list(rowio.excel_rows(target_path))
        print("  rows found in the file afterwards: %r" % rows_written)
        if rows_written not in ([], [["left", "right"]]) and len(rows_written[0]) != 3:
            violations += 1
            print("  -> VIOLATION: part of the refused row has been written")

print()
print("violations: %d" % violations)
sys.exit(1 if violations else 0)
