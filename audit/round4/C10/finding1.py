"""
Finding 1: a DistinctCount rule whose value is a big integer (for example
``branch + 10**5000``) makes loading the CID fail with a plain ValueError
("Exceeds the limit (4300 digits) for integer string conversion") instead of
an InterfaceError; the command line answers exit code 4.

A variant shows up only at the END OF THE DATA (rule ``branch == 0 or count + 10**5000``),
and the same root cause - an error message that formats an int with more than
4300 decimal digits - hits Integer rules written in hexadecimal at DATA time.

Exit code 1: violation present, 0: not present.
"""
import sys

sys.path.insert(0, "/tmp/audit4_C10")

import io
import logging
import os
import tempfile
import warnings

warnings.simplefilter("ignore")

from cutplace import applications, errors, interface, validio  # noqa: E402

violations = 0


def attempt(title, cid_text, data_text):
    global violations
    print("--- %s" % title)
    print("CID : %s" % (cid_text if len(cid_text) < 200 else cid_text[:120] + "...[%d characters]" % len(cid_text)).replace("\n", "\\n"))
    print("data: %r" % data_text)
    try:
        cid = interface.create_cid_from_string(cid_text)
        validio.validate(cid, io.StringIO(data_text))
        print("  -> accepted")
    except errors.InterfaceError as error:
        print("  -> InterfaceError (fine): %s" % str(error)[:150])
    except errors.DataError as error:
        print("  -> DataError (fine): %s" % str(error)[:150])
    except Exception as error:
        violations += 1
        print("  -> VIOLATION, %s escapes: %s" % (type(error).__name__, str(error)[:150]))


# 1a: at the time the CID is loaded.
cid_1a = "d,format,delimited\nf,branch\nc,some_branches,DistinctCount,branch + 10**5000\n"
attempt("1a DistinctCount rule resulting in a big integer (CID load)", cid_1a, "x\n")

# 1b: at the end of the data (the test evaluation with count = 0 gives True).
cid_1b = "d,format,delimited\nf,branch\nc,some_branches,DistinctCount,branch == 0 or count + 10**5000\n"
attempt("1b same, but only once there are data (end of data)", cid_1b, "x\n")

# 1c: Integer rule in hexadecimal: int(text, 0) has no digit limit for bases 2, 8, 16, but the
# message of the RangeValueError prints the limits in decimal.
cid_1c = "d,format,delimited\nf,amount,,,,Integer,0...0x" + "f" * 3600 + "\n"
attempt("1c Integer rule with a hexadecimal limit of 4335 decimal digits, value out of range", cid_1c, "-1\n")

# 1d: the same through the allowed characters.
cid_1d = "d,format,delimited\nd,allowed characters,32...0x" + "f" * 3600 + "\nf,name\n"
attempt("1d allowed characters with such a limit, character below 32", cid_1d, "a\tb\n")

# 1e: the command line.
logging.basicConfig(level=logging.CRITICAL)
logging.getLogger("cutplace").setLevel(logging.CRITICAL)
with tempfile.TemporaryDirectory() as folder:
    cid_path = os.path.join(folder, "cid.csv")
    data_path = os.path.join(folder, "data.csv")
    with open(cid_path, "w", encoding="utf-8") as cid_file:
        cid_file.write(cid_1a)
    with open(data_path, "w", encoding="utf-8") as data_file:
        data_file.write("x\n")
    logging.disable(logging.CRITICAL)
    exit_code = applications.main(["cutplace", cid_path, data_path])
    logging.disable(logging.NOTSET)
    print("--- 1e command line: cutplace cid.csv data.csv with the CID of 1a")
    print("  -> exit code %d%s" % (exit_code, " (VIOLATION)" if exit_code == 4 else ""))
    if exit_code == 4:
        violations += 1

print()
print("violations: %d" % violations)
sys.exit(1 if violations else 0)
