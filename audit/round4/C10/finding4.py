"""
Finding 4: a Decimal rule with a limit such as 1e-2147483648 (13 characters;
decimal.Decimal takes exponents down to -999999999999999999) is accepted, but
every message that has to show the range - the FieldValueError for a value out
of range, the InterfaceError for overlapping or reversed parts - dies in
ranges._decimal_as_text() with "OverflowError: Python int too large to convert
to C int"; the command line answers exit code 4.

Exit code 1: violation present, 0: not present.
"""
import sys

sys.path.insert(0, "/tmp/audit4_C10")

import io
import logging
import os
import tempfile
import warnings

warnings.simplefilter("ignore")

from cutplace import applications, errors, interface, validio  # noqa: E402

violations = 0


def attempt(title, cid_text, data_text):
    global violations
    print("--- %s" % title)
    print("CID : %s" % cid_text.replace("\n", "\\n"))
    print("data: %r" % data_text)
    try:
        cid = interface.create_cid_from_string(cid_text)
        validio.validate(cid, io.StringIO(data_text))
        print("  -> accepted")
    except errors.InterfaceError as error:
        print("  -> InterfaceError (fine): %s" % str(error)[:150])
    except errors.DataError as error:
        print("  -> DataError (fine): %s" % str(error)[:150])
    except Exception as error:
        violations += 1
        print("  -> VIOLATION, %s escapes: %s" % (type(error).__name__, str(error)[:150]))


cid_control = "d,format,delimited\nf,weight,,,,Decimal,0...1e-20\n"
attempt("control: limit 1e-20, value out of range", cid_control, "5\n")

cid_4a = "d,format,delimited\nf,weight,,,,Decimal,0...1e-2147483648\n"
attempt("4a limit 1e-2147483648, value IN range", cid_4a, "0\n")
attempt("4a limit 1e-2147483648, value OUT of range (data time)", cid_4a, "5\n")

cid_4b = 'd,format,delimited\nf,weight,,,,Decimal,"1e-2147483648, 5...3"\n'
attempt("4b the same limit followed by a reversed part (CID load)", cid_4b, "0\n")

logging.basicConfig(level=logging.CRITICAL)
with tempfile.TemporaryDirectory() as folder:
    cid_path = os.path.join(folder, "cid.csv")
    data_path = os.path.join(folder, "data.csv")
    with open(cid_path, "w", encoding="utf-8") as cid_file:
        cid_file.write(cid_4a)
    with open(data_path, "w", encoding="utf-8") as data_file:
        data_file.write("5\n")
    logging.disable(logging.CRITICAL)
    exit_code = applications.main(["cutplace", cid_path, data_path])
    logging.disable(logging.NOTSET)
    print("--- 4c command line: cutplace cid.csv data.csv with the CID of 4a, data '5'")
    print("  -> exit code %d%s" % (exit_code, " (VIOLATION)" if exit_code == 4 else ""))
    if exit_code == 4:
        violations += 1

print()
print("violations: %d" % violations)
sys.exit(1 if violations else 0)
