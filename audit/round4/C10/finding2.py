"""
Finding 2: a CID stored as ODS in which one cell begins with markup (a hyperlink
LibreOffice made of a URL, a bold word, two leading blanks = <text:s/>, a tab)
makes loading the CID fail with AttributeError ("'NoneType' object has no
attribute 'lower' / 'strip'"); the command line answers exit code 4.

rowio.ods_rows() returns None for such a cell; the reader of DATA turns that
into a DataError ("type must be str instead of NoneType"), the reader of the
CID does not expect it.

Exit code 1: violation present, 0: not present.
"""
import sys

sys.path.insert(0, "/tmp/audit4_C10")

import logging
import os
import tempfile
import warnings
import zipfile
from xml.sax.saxutils import escape

warnings.simplefilter("ignore")

from cutplace import applications, errors, interface  # noqa: E402

_NAMESPACES = (
    'xmlns:office="urn:oasis:names:tc:opendocument:xmlns:office:1.0" '
    'xmlns:table="urn:oasis:names:tc:opendocument:xmlns:table:1.0" '
    'xmlns:text="urn:oasis:names:tc:opendocument:xmlns:text:1.0" '
    'xmlns:xlink="http://www.w3.org/1999/xlink"'
)


class Raw(str):
    """Contents of a text:p element given as XML."""


def _cell_xml(cell):
    paragraph = cell if isinstance(cell, Raw) else escape(cell)
    return '<table:table-cell office:value-type="string"><text:p>%s</text:p></table:table-cell>' % paragraph


def write_ods(path, rows):
    body = "".join("<table:table-row>%s</table:table-row>" % "".join(_cell_xml(cell) for cell in row) for row in rows)
    content = (
        '<?xml version="1.0" encoding="UTF-8"?>'
        "<office:document-content %s><office:body><office:spreadsheet>"
        '<table:table table:name="cid">%s</table:table>'
        "</office:spreadsheet></office:body></office:document-content>" % (_NAMESPACES, body)
    )
    with zipfile.ZipFile(path, "w") as ods_file:
        ods_file.writestr("mimetype", "application/vnd.oasis.opendocument.spreadsheet")
        ods_file.writestr("content.xml", content)


CASES = [
    (
        "plain cells only (control, must load)",
        [["d", "format", "delimited"], ["f", "homepage", "http://example.com", "", "", "Text", ""]],
    ),
    (
        "value of the data format property 'encoding' is a hyperlink (text:a)",
        [
            ["d", "format", "delimited"],
            ["d", "encoding", Raw('<text:a xlink:href="http://example.com/utf-8">utf-8</text:a>')],
            ["f", "homepage"],
        ],
    ),
    (
        "field type 'Integer' set in bold by the author (text:span)",
        [["d", "format", "delimited"], ["f", "amount", "", "", "", Raw('<text:span text:style-name="T1">Integer</text:span>')]],
    ),
    (
        "rule of a Choice field beginning with two blanks (text:s)",
        [["d", "format", "delimited"], ["f", "color", "", "", "", "Choice", Raw('<text:s text:c="2"/>red, green')]],
    ),
    (
        "row mark 'd' in a span",
        [[Raw("<text:span>d</text:span>"), "format", "delimited"], ["f", "a"]],
    ),
    (
        "check rule in a span",
        [["d", "format", "delimited"], ["f", "a"], ["c", "a is unique", "IsUnique", Raw("<text:span>a</text:span>")]],
    ),
]

violations = 0
logging.basicConfig(level=logging.CRITICAL)
with tempfile.TemporaryDirectory() as folder:
    for index, (title, rows) in enumerate(CASES):
        cid_path = os.path.join(folder, "cid_%d.ods" % index)
        write_ods(cid_path, rows)
        print("--- %s" % title)
        try:
            interface.Cid(cid_path)
            print("  API -> loaded")
        except errors.InterfaceError as error:
            print("  API -> InterfaceError (fine): %s" % str(error)[:120])
        except Exception as error:
            violations += 1
            print("  API -> VIOLATION, %s escapes: %s" % (type(error).__name__, error))
        logging.disable(logging.CRITICAL)
        exit_code = applications.main(["cutplace", cid_path])
        logging.disable(logging.NOTSET)
        print("  command line 'cutplace cid.ods' -> exit code %d%s" % (exit_code, " (VIOLATION)" if exit_code == 4 else ""))
        if exit_code == 4:
            violations += 1

print()
print("violations: %d" % violations)
sys.exit(1 if violations else 0)
