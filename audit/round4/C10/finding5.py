"""
Finding 5: a CID whose data format is 'excel' or 'ods' - legal cell contents,
the CID loads and validates data - makes cutplace.Writer(cid, target) raise
NotImplementedError, which is neither an InterfaceError nor a DataError. The
same bare NotImplementedError answers cutplace.Cid(io.BytesIO(...)).

Exit code 1: violation present, 0: not present.
"""
import sys

sys.path.insert(0, "/tmp/audit4_C10")

import io
import os
import tempfile
import warnings

warnings.simplefilter("ignore")

import cutplace  # noqa: E402
from cutplace import errors, interface  # noqa: E402

violations = 0


def attempt(title, action):
    global violations
    print("--- %s" % title)
    try:
        action()
        print("  -> works")
    except errors.InterfaceError as error:
        print("  -> InterfaceError (fine): %s" % str(error)[:150])
    except errors.DataError as error:
        print("  -> DataError (fine): %s" % str(error)[:150])
    except Exception as error:
        violations += 1
        print("  -> VIOLATION, %s escapes: %s" % (type(error).__name__, str(error)[:150]))


with tempfile.TemporaryDirectory() as folder:
    for format_name in ("delimited", "excel", "ods"):
        cid_text = "d,format,%s\nf,name\n" % format_name
        cid = interface.create_cid_from_string(cid_text)

        def write(cid=cid, format_name=format_name):
            with cutplace.Writer(cid, os.path.join(folder, "out." + format_name)) as writer:
                writer.write_row(["x"])

        attempt("Writer for a CID %r" % cid_text, write)

attempt("Cid(io.BytesIO(b'd,format,delimited...')) - a CID from a binary stream", lambda: cutplace.Cid(io.BytesIO(b"d,format,delimited\nf,name\n")))

print()
print("violations: %d" % violations)
sys.exit(1 if violations else 0)
