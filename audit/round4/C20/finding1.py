"""
Two different user supplied check classes (same for field formats) that share a name and a module:
the CID resolves the name to an arbitrary one of them - possibly a stale class nobody refers to any
more - instead of the class the user defined, and without the "clashing plugin class names" error
that the same situation gives for classes from different modules or for a name of a built-in.
"""
import sys

sys.path.insert(0, "/tmp/audit4_C20")
import io

from cutplace import checks, errors, interface, validio

SEEN = []


def define_check(tag):
    # What a test suite, a notebook cell that is run again or a class factory does.
    class LimitCheck(checks.AbstractCheck):
        def check_row(self, field_name_to_value_map, location):
            SEEN.append(tag)

    return LimitCheck


CID_TEXT = "d,format,delimited\nf,a\nc,limit,Limit,\n"
wrong = 0
for tag in ("A", "B", "C", "D", "E", "F"):
    current_class = define_check(tag)  # the only class named LimitCheck the program still refers to
    del SEEN[:]
    try:
        cid = interface.create_cid_from_string(CID_TEXT)
    except errors.CutplaceError as error:
        print("definition %s: CID refused: %s" % (tag, error))
        continue
    resolved_class = type(cid.check_map["limit"])
    validio.validate(cid, io.StringIO("x\n"))
    is_current = resolved_class is current_class
    print("definition %s: check type 'Limit' resolved to the class of definition %s -> %s"
          % (tag, "".join(SEEN), "ok" if is_current else "WRONG (stale class)"))
    if not is_current:
        wrong += 1

# All classes alive and referenced (a class factory): still no error, one of them silently wins.
kept_classes = [define_check("K%d" % number) for number in range(1, 9)]
try:
    cid = interface.create_cid_from_string(CID_TEXT)
    resolved_class = type(cid.check_map["limit"])
    if resolved_class in kept_classes:
        resolved_name = "K%d" % (kept_classes.index(resolved_class) + 1)
    else:
        resolved_name = "a stale class from before"
    print("8 live classes named LimitCheck (K1...K8): no error, 'Limit' resolved to %s" % resolved_name)
    if resolved_class is not kept_classes[-1]:
        wrong += 1
except errors.CutplaceError as error:
    print("8 live classes named LimitCheck: refused: %s" % error)

if wrong:
    print("VIOLATION: a user supplied class does not resolve by its name like a built-in does")
    sys.exit(1)
print("ok")
sys.exit(0)
