"""
"... when the run is closed, after which every check is cleaned up": an exception in the cleanup()
(or reset()) hook of one check keeps close() from cleaning up the checks declared after it - in case
(b) no check at all is cleaned up and a second close() does nothing.
"""
import sys

sys.path.insert(0, "/tmp/audit4_C20")
import io

from cutplace import checks, errors, interface, validio

LOG = []


class TracedCheck(checks.AbstractCheck):
    def reset(self):
        LOG.append(("reset", self.description))
        if self.rule == "reset_fails":
            raise errors.CheckError("cannot set up %s" % self.description)

    def check_at_end(self, location):
        LOG.append(("end", self.description))

    def cleanup(self):
        LOG.append(("cleanup", self.description))
        if self.rule == "cleanup_fails":
            raise OSError("cannot remove the temporary file of %s" % self.description)


def run(title, first_rule):
    del LOG[:]
    cid = interface.create_cid_from_string(
        "d,format,delimited\nf,a\nc,first,Traced,%s\nc,second,Traced,\nc,third,Traced,\n" % first_rule
    )
    del LOG[:]  # forget what happened while the CID was read
    print(title)
    try:
        with validio.Reader(cid, io.StringIO("x\ny\n")) as reader:
            for _ in reader.rows():
                pass
    except Exception as error:
        print("  run ended with %s: %s" % (type(error).__name__, error))
    try:
        reader.close()
    except Exception as error:
        print("  second close() ended with %s: %s" % (type(error).__name__, error))
    for entry in LOG:
        print("   ", entry)
    cleaned_up = [description for action, description in LOG if action == "cleanup"]
    missing = [description for description in ("first", "second", "third") if description not in cleaned_up]
    print("  checks never cleaned up: %s" % (missing or "none"))
    return missing


missing_a = run("(a) cleanup() of the first check raises an OSError", "cleanup_fails")
missing_b = run("(b) reset() of the first check raises a CheckError", "reset_fails")
if missing_a or missing_b:
    print("VIOLATION: the run is closed but not every check has been cleaned up")
    sys.exit(1)
print("ok")
sys.exit(0)
