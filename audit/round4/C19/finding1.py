"""
Finding 1: an Integer range whose lower limit is a negative power of ten and
that is too big for the largest integer type of the dialect gets a
decimal/number column with one digit too few, so the lower range limit cannot
be stored.

Exits 1 if the violation is present, 0 if not.
"""
import sys

sys.path.insert(0, "/tmp/audit4_C19")
import re
import warnings

warnings.simplefilter("ignore")

from cutplace import interface, sql  # noqa: E402

INT_CAPACITY = {
    "tinyint": (0, 2**8 - 1),
    "smallint": (-(2**15), 2**15 - 1),
    "int": (-(2**31), 2**31 - 1),
    "integer": (-(2**31), 2**31 - 1),
    "bigint": (-(2**63), 2**63 - 1),
}


def capacity(dialect_name, column_type):
    match = re.match(r"^(\w+)(?:\((\d+)(?:, (\d+))?\))?$", column_type)
    assert match is not None, column_type
    name, digits = match.group(1), match.group(2)
    if name in ("decimal", "number"):
        assert digits is not None, column_type
        assert match.group(3) in (None, "0"), column_type
        return -(10 ** int(digits)) + 1, 10 ** int(digits) - 1
    if (dialect_name == sql.PL) and (name == "int"):
        # Oracle: INT is NUMBER(38).
        return -(10**38) + 1, 10**38 - 1
    return INT_CAPACITY[name]


CASES = [
    # (dialect, rule)
    (sql.PL, "-10000000000...5"),  # beyond 32 bit -> number(p, 0)
    (sql.PL, "-10000000000...-1"),
    (sql.TRANSACT, "-10000000000000000000...0"),  # beyond 64 bit -> decimal(p, 0)
    (sql.DB2, "-10000000000000000000...0"),  # beyond 64 bit -> decimal(p)
    (sql.PL, "-10000000000000000000...9999999999999999999"),
    # control cases that work
    (sql.PL, "-9999999999...5"),
    (sql.DB2, "0...10000000000000000000"),
]

violations = 0
for dialect_name, rule in CASES:
    cid = interface.Cid()
    cid.read(
        "finding1",
        [
            ["D", "Format", "Delimited"],
            ["F", "amount", "", "", "", "Integer", rule],
        ],
    )
    statement = sql.SqlFactory(cid, "finding1", sql.SQL_NAME_TO_DIALECT_MAP[dialect_name]).create_table_statement()
    column_type = re.search(r"amount (.+?) not null", statement).group(1)
    lower, upper = cid.field_formats[0].valid_range.lower_limit, cid.field_formats[0].valid_range.upper_limit
    cap_lower, cap_upper = capacity(dialect_name, column_type)
    fits = (cap_lower <= lower) and (upper <= cap_upper)
    # The data validator accepts the lower limit, so it is a value the column has to hold.
    cid.field_formats[0].validated(str(lower))
    print(
        "%-12s Integer %-45s -> %-15s stores %d...%d: %s"
        % (dialect_name, rule, column_type, cap_lower, cap_upper, "ok" if fits else "CANNOT STORE LOWER LIMIT %d" % lower)
    )
    if not fits:
        violations += 1

if violations:
    print("VIOLATION: %d column type(s) cannot store a range limit" % violations)
    sys.exit(1)
print("no violation")
sys.exit(0)
