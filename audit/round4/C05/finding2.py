"""
IsUniqueCheck.check_row() uses the stored location as the marker for "key already seen"
(``if see_also_location is not None``). A caller of the check API that has no location to
offer (location=None, which CheckError, AbstractCheck.__init__() and validate_row()'s
handling of plug-in errors all tolerate) switches the check off: no duplicate is ever
rejected.
"""
import sys

sys.path.insert(0, "/tmp/audit4_C05")

from cutplace import checks, errors

check = checks.IsUniqueCheck("a must be unique", "a", ["a", "b"])
rows = [{"a": "1", "b": "x"}, {"a": "1", "b": "y"}, {"a": "1", "b": "z"}]


def rejected_count(location):
    check.reset()
    result = 0
    for row in rows:
        try:
            check.check_row(row, location)
            print("    accepted: %s" % row)
        except errors.CheckError as error:
            print("    rejected: %s: %s" % (row, error))
            result += 1
    return result


print("with a location:")
with_location = rejected_count(errors.Location("data.csv", has_cell=True))
print("with location=None:")
without_location = rejected_count(None)
print("rejected with location: %d (expected 2); without: %d (expected 2)" % (with_location, without_location))
sys.exit(0 if (with_location == 2 and without_location == 2) else 1)
