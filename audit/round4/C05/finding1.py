"""
DistinctCount 'field is n' / 'field is not n': the rule is accepted (``is`` is a Python
comparison operator, ast.Is is an ast.cmpop) but it is evaluated as an object identity
test between two int objects, so for n > 256 the verdict no longer depends on the number
of distinct values.
"""
import sys

sys.path.insert(0, "/tmp/audit4_C05")
import io
import warnings

warnings.simplefilter("ignore")

from cutplace import errors, interface, validio

CID_TEMPLATE = "D,Format,Delimited\nF,a\nC,dc,DistinctCount,%s\n"


def finishing_fails(rule, distinct_count):
    cid = interface.create_cid_from_string(CID_TEMPLATE % rule)
    data = "".join("v%d\n" % index for index in range(distinct_count))
    try:
        validio.validate(cid, io.StringIO(data))
    except errors.CheckError as error:
        print("    %r with %d distinct values: FAILS: %s" % (rule, distinct_count, error))
        return True
    print("    %r with %d distinct values: passes" % (rule, distinct_count))
    return False


violations = 0
print("comparison 'a is n' must pass with exactly n distinct values:")
for n in (3, 256, 257, 300, 1000):
    if finishing_fails("a is %d" % n, n):
        violations += 1
print("comparison 'a is not n' must fail with exactly n distinct values:")
for n in (3, 256, 257, 300, 1000):
    if not finishing_fails("a is not %d" % n, n):
        violations += 1
print("for reference, '==' and '!=':")
assert not finishing_fails("a == 300", 300)
assert finishing_fails("a != 300", 300)

print("violations: %d" % violations)
sys.exit(1 if violations else 0)
