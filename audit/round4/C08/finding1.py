"""
A Writer resets the checks of its CID when it is CREATED, not when its run begins
(its first validated row) and not when it is closed without rows. A complete,
closed run on the same Cid between Writer() and the first write_row() therefore
leaks its keys and counts into the writer's data set - although no read and no
write of the two runs overlap ("read everything, close, then write everything").

Exit code 1: violation present, 0: not present.
"""
import sys

sys.path.insert(0, "/tmp/audit4_C08")
import io

from cutplace import errors, interface, validio

CID_TEXT = "\n".join(
    [
        "d,format,delimited",
        "f,customer_id",
        "c,id_is_unique,IsUnique,customer_id",
        "c,at_most_two_ids,DistinctCount,customer_id <= 2",
    ]
)
INPUT_DATA = "1\r\n2\r\n"
ROWS_TO_WRITE = [["1"], ["2"]]


def write_run(writer, target):
    """Outcome of a writer run: result per row, end-of-data check result, data written."""
    outcome = []
    for row in ROWS_TO_WRITE:
        try:
            writer.write_row(row)
            outcome.append("accepted %s" % row)
        except errors.DataError as error:
            outcome.append("REJECTED %s: %s" % (row, error))
    written = target.getvalue()
    try:
        writer.close()
        outcome.append("end-of-data checks passed")
    except errors.CheckError as error:
        outcome.append("END-OF-DATA CHECK FAILED: %s" % error)
    outcome.append("written=%r" % written)
    return outcome


violations = 0

# --- Reference: the writer run on a freshly loaded CID.
fresh_cid = interface.create_cid_from_string(CID_TEXT)
fresh_target = io.StringIO()
expected = write_run(validio.Writer(fresh_cid, fresh_target), fresh_target)
print("writer run on a freshly loaded CID:")
for line in expected:
    print("   ", line)

# --- Scenario 1: open the target first, then read ALL rows (run complete and closed), then write them.
cid = interface.create_cid_from_string(CID_TEXT)
target = io.StringIO()
writer = validio.Writer(cid, target)  # run 2 is only prepared: nothing written yet
rows_read = list(validio.rows(cid, io.StringIO(INPUT_DATA)))  # run 1: begins, ends and is closed here
print("run 1 (validio.rows, complete and closed) returned:", rows_read)
observed = write_run(writer, target)  # run 2: all its writes happen after run 1 is over
print("same writer run on the Cid that was used for run 1 between Writer() and the first write_row():")
for line in observed:
    print("   ", line)
if observed != expected:
    print("VIOLATION 1: the writer run saw the keys / distinct values of the finished reader run")
    violations += 1

# --- Scenario 2: a writer that gets no rows at all is asked about the other data set when closed.
CID_TEXT_2 = "\n".join(["d,format,delimited", "f,customer_id", "c,at_most_two_ids,DistinctCount,customer_id <= 2"])
cid2 = interface.create_cid_from_string(CID_TEXT_2)
empty_writer = validio.Writer(cid2, io.StringIO())
try:
    validio.validate(cid2, io.StringIO("1\r\n2\r\n3\r\n"))
except errors.CheckError as error:
    print("run 1 on cid2 (3 distinct ids) ended as expected with:", error)
try:
    empty_writer.close()
    print("closing the writer that wrote nothing: end-of-data checks passed (as on a fresh CID)")
except errors.CheckError as error:
    print("closing the writer that wrote NOTHING:", error)
    print("VIOLATION 2: the end-of-data check of an empty writer run reports the count of the previous data set")
    violations += 1

# --- Control: Reader and a BaseValidator that feeds its rows itself are created just as early but are fine.
cid3 = interface.create_cid_from_string(CID_TEXT)
early_reader = validio.Reader(cid3, io.StringIO(INPUT_DATA))
validio.validate(cid3, io.StringIO(INPUT_DATA))
print("control: Reader created before another run still returns:", list(early_reader.rows()))
early_reader.close()

sys.exit(1 if violations else 0)
