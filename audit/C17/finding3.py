"""
Finding 3: a CID stored as CSV text in "UTF-8 with signature" (what Excel's "CSV UTF-8" and Windows editors write)
does not load, while the same cells stored as Excel or ODS do. The byte order mark ends up in the first cell.
Exit code 1 = violation present, 0 = repaired.
"""
import sys

sys.path.insert(0, "/tmp/audit_C17")
import csv
import io
import os
import tempfile

import xlsxwriter

from cutplace import interface

CID_ROWS = [
    ["d", "format", "delimited"],
    ["d", "encoding", "utf-8"],
    ["f", "customer_id", "", "", "", "Integer", "0...99999"],
    ["f", "surname", "Müller", "x", "1...60", "Text", ""],
    ["c", "customer must be unique", "IsUnique", "customer_id"],
]


def describe(cid):
    return (
        str(cid.data_format),
        [str(field_format) for field_format in cid.field_formats],
        [(name, str(cid.check_for(name))) for name in cid.check_names],
    )


def load(path):
    try:
        return describe(interface.Cid(path))
    except Exception as error:
        return "%s: %s" % (type(error).__name__, error)


folder = tempfile.mkdtemp(prefix="c17_f3_")

xlsx_path = os.path.join(folder, "cid.xlsx")
workbook = xlsxwriter.Workbook(xlsx_path)
sheet = workbook.add_worksheet()
for y, row in enumerate(CID_ROWS):
    for x, item in enumerate(row):
        sheet.write_string(y, x, item)
workbook.close()

plain_path = os.path.join(folder, "cid_utf8.csv")
with io.open(plain_path, "w", newline="", encoding="utf-8") as f:
    csv.writer(f).writerows(CID_ROWS)

bom_path = os.path.join(folder, "cid_utf8_bom.csv")
with io.open(bom_path, "w", newline="", encoding="utf-8-sig") as f:
    csv.writer(f).writerows(CID_ROWS)

# The same, but the first row is a comment row (empty first cell) as in all the documented CIDs.
bom_comment_path = os.path.join(folder, "cid_utf8_bom_comment.csv")
with io.open(bom_comment_path, "w", newline="", encoding="utf-8-sig") as f:
    csv.writer(f).writerows([["", "Interface: customers"]] + CID_ROWS)

with open(bom_path, "rb") as f:
    print("first bytes of %s: %r" % (os.path.basename(bom_path), f.read(12)))

results = {}
for path in (xlsx_path, plain_path, bom_path, bom_comment_path):
    results[path] = load(path)
    print("Cid(%s) -> %s" % (os.path.basename(path), results[path]))

is_violated = not (results[xlsx_path] == results[plain_path] == results[bom_path] == results[bom_comment_path])
print("VIOLATION PRESENT" if is_violated else "no violation")
sys.exit(1 if is_violated else 0)
