"""
Finding 2: a text cell with more than 131072 characters is fine in an ODS (or hand made Excel) sheet but makes the
delimited reader abort with a DataFormatError. Affects data (per-row verdicts) as well as CIDs stored as CSV text.
Exit code 1 = violation present, 0 = repaired.
"""
import sys

sys.path.insert(0, "/tmp/audit_C17")
import csv
import io
import os
import tempfile
import zipfile
from xml.sax.saxutils import escape

from cutplace import errors, interface, validio


def write_csv(path, rows):
    # csv.writer has no problem to write it - only reading is limited.
    with io.open(path, "w", newline="", encoding="utf-8") as f:
        csv.writer(f).writerows(rows)


def write_ods(path, rows):
    parts = [
        '<?xml version="1.0" encoding="UTF-8"?>'
        '<office:document-content xmlns:office="urn:oasis:names:tc:opendocument:xmlns:office:1.0" '
        'xmlns:table="urn:oasis:names:tc:opendocument:xmlns:table:1.0" '
        'xmlns:text="urn:oasis:names:tc:opendocument:xmlns:text:1.0" office:version="1.2">'
        '<office:body><office:spreadsheet><table:table table:name="Sheet1">'
    ]
    for row in rows:
        parts.append("<table:table-row>")
        for item in row:
            parts.append(
                '<table:table-cell office:value-type="string"><text:p>%s</text:p></table:table-cell>' % escape(item)
            )
        parts.append("</table:table-row>")
    parts.append("</table:table></office:spreadsheet></office:body></office:document-content>")
    with zipfile.ZipFile(path, "w") as ods_zip:
        ods_zip.writestr("mimetype", "application/vnd.oasis.opendocument.spreadsheet")
        ods_zip.writestr("content.xml", "".join(parts).encode("utf-8"))


def cid_for(format_name):
    cid = interface.Cid()
    cid.read(
        "inline",
        [
            ["d", "format", format_name],
            ["d", "encoding", "utf-8"],
            ["f", "id", "", "", "", "Integer", "0...99"],
            ["f", "note", "", "x", "", "Text", ""],
        ],
    )
    return cid


def verdicts(cid, path):
    result = []
    try:
        with validio.Reader(cid, path, on_error="yield") as reader:
            for row_or_error in reader.rows():
                if isinstance(row_or_error, Exception):
                    result.append("rejected")
                else:
                    result.append("accepted (%s)" % ", ".join("%d chars" % len(item) for item in row_or_error))
    except errors.CutplaceError as error:
        result.append("ABORTED %s: %s" % (type(error).__name__, error))
    return result


folder = tempfile.mkdtemp(prefix="c17_f2_")
is_violated = False

print("--- part 1: data; row 2 has a note of 131073 characters, row 3 a broken id")
table = [["1", "short"], ["2", "x" * 131073], ["abc", "short"], ["4", "short"]]
csv_path = os.path.join(folder, "data.csv")
ods_path = os.path.join(folder, "data.ods")
write_csv(csv_path, table)
write_ods(ods_path, table)
delimited_verdicts = verdicts(cid_for("delimited"), csv_path)
ods_verdicts = verdicts(cid_for("ods"), ods_path)
print("Format delimited:", delimited_verdicts)
print("Format ods      :", ods_verdicts)
if delimited_verdicts != ods_verdicts:
    is_violated = True

print("--- part 2: CID with a Choice rule of 20000 codes (140000+ characters in one cell)")
choices = ", ".join("c%05d" % number for number in range(20000))
cid_rows = [
    ["d", "format", "delimited"],
    ["f", "code", "c00007", "", "", "Choice", choices],
]
cid_csv_path = os.path.join(folder, "cid.csv")
cid_ods_path = os.path.join(folder, "cid.ods")
write_csv(cid_csv_path, cid_rows)
write_ods(cid_ods_path, cid_rows)
loaded = {}
for path in (cid_csv_path, cid_ods_path):
    try:
        cid = interface.Cid(path)
        loaded[path] = "loaded, %d choices" % len(cid.field_formats[0].choices)
    except Exception as error:
        loaded[path] = "%s: %s" % (type(error).__name__, error)
    print("Cid(%s) -> %s" % (os.path.basename(path), loaded[path]))
if loaded[cid_csv_path] != loaded[cid_ods_path]:
    is_violated = True

print("VIOLATION PRESENT" if is_violated else "no violation")
sys.exit(1 if is_violated else 0)
