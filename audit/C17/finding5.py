"""
Finding 5: the container of a CID is guessed from the file name suffix only. An Excel workbook saved as *.xlsm
(or *.xltx, *.xlt, ... - all readable by xlrd, and accepted as DATA under Format excel) is parsed as CSV text when
it holds a CID, so the same CID contents stored as Excel do not load.
Exit code 1 = violation present, 0 = repaired.
"""
import sys

sys.path.insert(0, "/tmp/audit_C17")
import os
import shutil
import tempfile

import xlsxwriter

from cutplace import interface, validio

CID_ROWS = [
    ["d", "format", "excel"],
    ["f", "id", "", "", "", "Integer", "0...99"],
    ["f", "surname", "", "", "", "Text", ""],
]
TABLE = [["1", "Miller"], ["2", "Doe"]]


def write_xlsx(path, rows):
    workbook = xlsxwriter.Workbook(path)
    sheet = workbook.add_worksheet()
    for y, row in enumerate(rows):
        for x, item in enumerate(row):
            sheet.write_string(y, x, item)
    workbook.close()


def load(path):
    try:
        cid = interface.Cid(path)
        return "loaded: %s" % cid
    except Exception as error:
        return "%s: %s" % (type(error).__name__, error)


folder = tempfile.mkdtemp(prefix="c17_f5_")
cid_xlsx_path = os.path.join(folder, "cid.xlsx")
write_xlsx(cid_xlsx_path, CID_ROWS)
data_xlsx_path = os.path.join(folder, "data.xlsx")
write_xlsx(data_xlsx_path, TABLE)

results = {}
for suffix in (".xlsx", ".XLSX", ".xlsm", ".xltx"):
    cid_path = os.path.join(folder, "cid_copy" + suffix)
    shutil.copy(cid_xlsx_path, cid_path)
    results[suffix] = load(cid_path)
    print("Cid(%s) -> %s" % (os.path.basename(cid_path), results[suffix]))

# The same workbook kinds are fine as data.
cid = interface.Cid(cid_xlsx_path)
for suffix in (".xlsm", ".xltx"):
    data_path = os.path.join(folder, "data_copy" + suffix)
    shutil.copy(data_xlsx_path, data_path)
    print("data %s under Format excel -> %s" % (os.path.basename(data_path), list(validio.rows(cid, data_path))))

is_violated = len(set(results.values())) != 1
print("VIOLATION PRESENT" if is_violated else "no violation")
sys.exit(1 if is_violated else 0)
