"""
Finding 6: the value "True" of the data format property "skip initial space" typed into a spreadsheet becomes a
boolean cell. Stored as CSV text ("True") or ODS (boolean cell, shown as TRUE) the CID loads; stored as Excel it is
refused because excel_rows() renders a boolean cell as "1".
Exit code 1 = violation present, 0 = repaired.
"""
import sys

sys.path.insert(0, "/tmp/audit_C17")
import csv
import io
import os
import tempfile
import zipfile
from xml.sax.saxutils import escape

import xlsxwriter

from cutplace import interface

# What the user types.
CID_ROWS = [
    ["d", "format", "delimited"],
    ["d", "skip initial space", True],
    ["f", "id", "", "", "", "Integer", "0...99"],
]


def write_csv(path, rows):
    with io.open(path, "w", newline="", encoding="utf-8") as f:
        csv.writer(f).writerows(rows)  # True -> "True"


def write_xlsx(path, rows):
    workbook = xlsxwriter.Workbook(path)
    sheet = workbook.add_worksheet()
    for y, row in enumerate(rows):
        for x, item in enumerate(row):
            if isinstance(item, bool):
                sheet.write_boolean(y, x, item)  # what Excel makes of a typed "true"
            else:
                sheet.write_string(y, x, item)
    workbook.close()


def write_ods(path, rows):
    parts = [
        '<?xml version="1.0" encoding="UTF-8"?>'
        '<office:document-content xmlns:office="urn:oasis:names:tc:opendocument:xmlns:office:1.0" '
        'xmlns:table="urn:oasis:names:tc:opendocument:xmlns:table:1.0" '
        'xmlns:text="urn:oasis:names:tc:opendocument:xmlns:text:1.0" office:version="1.2">'
        '<office:body><office:spreadsheet><table:table table:name="Sheet1">'
    ]
    for row in rows:
        parts.append("<table:table-row>")
        for item in row:
            if isinstance(item, bool):
                # What LibreOffice Calc makes of a typed "true".
                parts.append(
                    '<table:table-cell office:value-type="boolean" office:boolean-value="%s"><text:p>%s</text:p>'
                    "</table:table-cell>" % (str(item).lower(), str(item).upper())
                )
            else:
                parts.append(
                    '<table:table-cell office:value-type="string"><text:p>%s</text:p></table:table-cell>'
                    % escape(item)
                )
        parts.append("</table:table-row>")
    parts.append("</table:table></office:spreadsheet></office:body></office:document-content>")
    with zipfile.ZipFile(path, "w") as ods_zip:
        ods_zip.writestr("mimetype", "application/vnd.oasis.opendocument.spreadsheet")
        ods_zip.writestr("content.xml", "".join(parts).encode("utf-8"))


folder = tempfile.mkdtemp(prefix="c17_f6_")
results = {}
for suffix, writer in ((".csv", write_csv), (".ods", write_ods), (".xlsx", write_xlsx)):
    path = os.path.join(folder, "cid" + suffix)
    writer(path, CID_ROWS)
    try:
        cid = interface.Cid(path)
        results[suffix] = "loaded, skip_initial_space=%r" % cid.data_format.skip_initial_space
    except Exception as error:
        results[suffix] = "%s: %s" % (type(error).__name__, error)
    print("Cid(cid%s) -> %s" % (suffix, results[suffix]))

is_violated = len(set(results.values())) != 1
print("VIOLATION PRESENT" if is_violated else "no violation")
sys.exit(1 if is_violated else 0)
