"""
Finding 4: a table whose last column is empty in every row gets different verdicts under Format excel and
Format delimited, because excel_rows() sizes rows by the used range of the sheet instead of the fields of the CID.
Excel does not store empty cells, so the last column simply does not exist in the sheet.
Exit code 1 = violation present, 0 = repaired.
"""
import sys

sys.path.insert(0, "/tmp/audit_C17")
import csv
import io
import os
import tempfile

import xlsxwriter

from cutplace import errors, interface, validio

TABLE = [
    ["1", "Miller", ""],
    ["2", "Doe", ""],
]


def cid_for(format_name):
    cid = interface.Cid()
    cid.read(
        "inline",
        [
            ["d", "format", format_name],
            ["d", "encoding", "utf-8"],
            ["f", "id", "", "", "", "Integer", "0...99"],
            ["f", "surname", "", "", "", "Text", ""],
            ["f", "note", "", "x", "", "Text", ""],  # may be empty
        ],
    )
    return cid


def verdicts(cid, path):
    result = []
    try:
        with validio.Reader(cid, path, on_error="yield") as reader:
            for row_or_error in reader.rows():
                if isinstance(row_or_error, Exception):
                    result.append("rejected: %s" % row_or_error)
                else:
                    result.append("accepted: %r" % row_or_error)
    except errors.CutplaceError as error:
        result.append("ABORTED %s: %s" % (type(error).__name__, error))
    return result


folder = tempfile.mkdtemp(prefix="c17_f4_")

csv_path = os.path.join(folder, "data.csv")
with io.open(csv_path, "w", newline="", encoding="utf-8") as f:
    csv.writer(f).writerows(TABLE)

# The way Excel (and xlsxwriter's Worksheet.write()) store the table: empty cells are not stored at all.
xlsx_path = os.path.join(folder, "data.xlsx")
workbook = xlsxwriter.Workbook(xlsx_path)
sheet = workbook.add_worksheet()
for y, row in enumerate(TABLE):
    for x, item in enumerate(row):
        if item != "":
            sheet.write_string(y, x, item)
workbook.close()

delimited_verdicts = verdicts(cid_for("delimited"), csv_path)
excel_verdicts = verdicts(cid_for("excel"), xlsx_path)
print("table:", TABLE)
print("Format delimited:")
for verdict in delimited_verdicts:
    print("   ", verdict)
print("Format excel:")
for verdict in excel_verdicts:
    print("   ", verdict)

# For comparison: as soon as one row fills the last column, the others are padded and accepted.
xlsx2_path = os.path.join(folder, "data2.xlsx")
workbook = xlsxwriter.Workbook(xlsx2_path)
sheet = workbook.add_worksheet()
for y, row in enumerate(TABLE + [["3", "Roe", "vip"]]):
    for x, item in enumerate(row):
        if item != "":
            sheet.write_string(y, x, item)
workbook.close()
print("Format excel, one more row ['3', 'Roe', 'vip']:")
for verdict in verdicts(cid_for("excel"), xlsx2_path):
    print("   ", verdict)

is_violated = [v.split(":")[0] for v in delimited_verdicts] != [v.split(":")[0] for v in excel_verdicts]
print("VIOLATION PRESENT" if is_violated else "no violation")
sys.exit(1 if is_violated else 0)
