"""
Finding 1: "cutplace --create CID" (cutplace.sql.write_create) can load the CID only when it is stored as Excel.
The same CID contents stored as CSV text or ODS are refused, although the very same command line has just loaded
them successfully through rowio.auto_rows().
Exit code 1 = violation present, 0 = repaired.
"""
import sys

sys.path.insert(0, "/tmp/audit_C17")
import csv
import io
import logging
import os
import tempfile
import zipfile
from xml.sax.saxutils import escape

import xlsxwriter

from cutplace import applications, interface, sql

logging.basicConfig(level=logging.INFO)

CID_ROWS = [
    ["d", "format", "delimited"],
    ["d", "encoding", "utf-8"],
    ["f", "customer_id", "", "", "", "Integer", "0...99999"],
    ["f", "surname", "", "x", "1...60", "Text", ""],
    ["c", "customer must be unique", "IsUnique", "customer_id"],
]


def write_csv(path, rows):
    with io.open(path, "w", newline="", encoding="utf-8") as f:
        csv.writer(f).writerows(rows)


def write_xlsx(path, rows):
    workbook = xlsxwriter.Workbook(path)
    sheet = workbook.add_worksheet()
    for y, row in enumerate(rows):
        for x, item in enumerate(row):
            sheet.write_string(y, x, item)
    workbook.close()


def write_ods(path, rows):
    parts = [
        '<?xml version="1.0" encoding="UTF-8"?>'
        '<office:document-content xmlns:office="urn:oasis:names:tc:opendocument:xmlns:office:1.0" '
        'xmlns:table="urn:oasis:names:tc:opendocument:xmlns:table:1.0" '
        'xmlns:text="urn:oasis:names:tc:opendocument:xmlns:text:1.0" office:version="1.2">'
        '<office:body><office:spreadsheet><table:table table:name="Sheet1">'
    ]
    for row in rows:
        parts.append("<table:table-row>")
        for item in row:
            parts.append(
                '<table:table-cell office:value-type="string"><text:p>%s</text:p></table:table-cell>' % escape(item)
            )
        parts.append("</table:table-row>")
    parts.append("</table:table></office:spreadsheet></office:body></office:document-content>")
    with zipfile.ZipFile(path, "w") as ods_zip:
        ods_zip.writestr("mimetype", "application/vnd.oasis.opendocument.spreadsheet")
        ods_zip.writestr("content.xml", "".join(parts).encode("utf-8"))


folder = tempfile.mkdtemp(prefix="c17_f1_")
results = {}
for suffix, writer in ((".csv", write_csv), (".xlsx", write_xlsx), (".ods", write_ods)):
    cid_path = os.path.join(folder, "customers" + suffix)
    writer(cid_path, CID_ROWS)
    cid = interface.Cid(cid_path)  # loads fine for all three containers
    print("Cid(%s) loads: %s, checks=%s" % (os.path.basename(cid_path), cid, cid.check_names))
    sql_path = os.path.join(folder, "customers_create.sql")
    if os.path.exists(sql_path):
        os.remove(sql_path)
    exit_code = applications.main(["cutplace", "--create", cid_path])
    has_sql = os.path.exists(sql_path)
    print("  cutplace --create %s -> exit code %d, SQL written: %s" % (os.path.basename(cid_path), exit_code, has_sql))
    # The same through the API.
    try:
        sql.write_create(cid_path, interface.Cid())
        api_result = "ok"
    except Exception as error:
        api_result = "%s: %s" % (type(error).__name__, error)
    print("  sql.write_create(%s) -> %s" % (os.path.basename(cid_path), api_result))
    results[suffix] = (exit_code, has_sql, api_result == "ok")

print("results:", results)
is_violated = len(set(results.values())) != 1
print("VIOLATION PRESENT" if is_violated else "no violation")
sys.exit(1 if is_violated else 0)
