"""
Finding 5: a check supplied by the user as an object cannot be added to a CID: Cid.add_check(), the
documented counterpart of Cid.add_field_format(), always fails with an AttributeError.
"""
import sys
sys.path.insert(0, "/tmp/audit_C20")
import io
import warnings
warnings.simplefilter("ignore")

import cutplace
from cutplace import checks, errors, fields, interface

LOG = []


class F5TraceCheck(checks.AbstractCheck):
    def reset(self):
        LOG.append("reset")

    def check_row(self, field_name_to_value_map, location):
        LOG.append("row")

    def check_at_end(self, location):
        LOG.append("end")

    def cleanup(self):
        LOG.append("cleanup")


cid = interface.Cid()
cid.add_data_format_row(["format", "delimited"])
cid.data_format.validate()
cid.add_field_format(fields.TextFieldFormat("a", False, "", "", cid.data_format))
print("Cid() with format delimited and Text field 'a' built through the API: ok")
is_violated = False
for title, check in (("user supplied check", F5TraceCheck("traced", "", cid.field_names)),
                     ("built-in check", checks.IsUniqueCheck("a_is_unique", "a", cid.field_names))):
    try:
        cid.add_check(check)
        print("cid.add_check(<%s>): ok" % title)
    except Exception as error:
        is_violated = True
        print("cid.add_check(<%s>): %s: %s" % (title, type(error).__name__, error))
if not is_violated:
    cutplace.validate(cid, io.StringIO("x\ny\n"))
    print("calls received by the user supplied check:", LOG)
    if LOG != ["reset", "row", "row", "end", "cleanup"]:
        is_violated = True
    try:
        cutplace.validate(cid, io.StringIO("x\nx\n"))
        is_violated = True
        print("duplicate data accepted although IsUnique was added")
    except errors.CheckError as error:
        print("duplicate data rejected as expected:", error)
if is_violated:
    print("VIOLATION: expected add_check() to register the check so the reset / check_row / check_at_end / "
          "cleanup protocol is applied to it")
print("RESULT:", "violation present" if is_violated else "ok")
sys.exit(1 if is_violated else 0)
