"""
Finding 2: field formats and checks imported from a plugin folder stop being resolvable as soon as
Python's garbage collector runs, because import_plugins() keeps no reference to the imported modules
(built-ins and classes defined in regularly imported modules are not affected).

Part A (API): import_plugins(); gc.collect(); Cid(...)   -> "cannot find class"
Part B (command line, no explicit gc): a plugin folder with two modules; depending on the order in
        which the modules get imported (a set, i.e. depends on the hash seed) the classes of the module
        imported first are already gone when the CID is read.
"""
import sys
sys.path.insert(0, "/tmp/audit_C20")
import os
import subprocess
import tempfile

PLUGIN_SOURCE = '''
from cutplace import checks, errors, fields

class F2ColorFieldFormat(fields.AbstractFieldFormat):
    def __init__(self, field_name, is_allowed_to_be_empty, length, rule, data_format):
        super().__init__(field_name, is_allowed_to_be_empty, length, rule, data_format, empty_value="")
    def validated_value(self, value):
        if value not in ("red", "green", "blue"):
            raise errors.FieldValueError("color is %r" % value)
        return value

class F2SmallIntFieldFormat(fields.IntegerFieldFormat):
    pass

class F2NothingCheck(checks.AbstractCheck):
    pass
'''
CID_TEXT = "d,format,delimited\nf,color,,,,F2Color\nf,size,,,,F2SmallInt,0...9\nc,nothing,F2Nothing,\n"
DATA_TEXT = "red,1\ngreen,2\n"

PART_A = '''
import sys
sys.path.insert(0, "/tmp/audit_C20")
import gc, warnings
warnings.simplefilter("ignore")
from cutplace import errors, interface
interface.import_plugins(sys.argv[1])
cid_before = interface.Cid(sys.argv[2])
print("   before gc.collect(): CID read,", cid_before)
del cid_before
gc.collect()
try:
    print("   after gc.collect():  CID read,", interface.Cid(sys.argv[2]))
except errors.InterfaceError as error:
    print("   after gc.collect():  InterfaceError:", str(error)[:160], "...")
    sys.exit(1)
'''
PART_B = '''
import sys
sys.path.insert(0, "/tmp/audit_C20")
import logging, warnings
warnings.simplefilter("ignore")
logging.basicConfig(level=logging.ERROR, format="   %(levelname)s %(message).160s ...")
from cutplace import applications
sys.exit(applications.main(["cutplace", "--log", "error", "--plugins", sys.argv[1], sys.argv[2], sys.argv[3]]))
'''

folder = tempfile.mkdtemp()
plugins_folder = os.path.join(folder, "plugins")
os.mkdir(plugins_folder)
with open(os.path.join(plugins_folder, "f2_plugin.py"), "w") as plugin_file:
    plugin_file.write(PLUGIN_SOURCE)
cid_path = os.path.join(folder, "cid_f2.csv")
data_path = os.path.join(folder, "data_f2.csv")
with open(cid_path, "w") as cid_file:
    cid_file.write(CID_TEXT)
with open(data_path, "w") as data_file:
    data_file.write(DATA_TEXT)

is_violated = False
print("plugin folder %s with f2_plugin.py defining F2ColorFieldFormat, F2SmallIntFieldFormat, F2NothingCheck" % plugins_folder)
print("CID: " + CID_TEXT.replace("\n", " | "))
print("-- part A: interface.import_plugins(folder); Cid(cid); gc.collect(); Cid(cid)")
exit_code = subprocess.call([sys.executable, "-c", PART_A, plugins_folder, cid_path])
if exit_code != 0:
    is_violated = True
    print("   VIOLATION: classes from the plugin folder cannot be resolved anymore")

print("-- part B: command line 'cutplace --plugins FOLDER cid_f2.csv data_f2.csv' (valid data, expected exit code 0)")
print("   FOLDER additionally contains f2_other.py, a second (large) plugin module")
other_lines = ["from cutplace import checks"]
for index in range(3000):
    other_lines.append("def function_%d(x):\n    return [x, {x: (x, [x])}]" % index)
other_lines.append("class F2OtherCheck(checks.AbstractCheck):\n    pass")
with open(os.path.join(plugins_folder, "f2_other.py"), "w") as other_file:
    other_file.write("\n".join(other_lines) + "\n")
failed_seeds = []
for hash_seed in range(8):
    environment = dict(os.environ)
    environment["PYTHONHASHSEED"] = str(hash_seed)
    print("   PYTHONHASHSEED=%d" % hash_seed)
    exit_code = subprocess.call([sys.executable, "-c", PART_B, plugins_folder, cid_path, data_path], env=environment)
    print("   -> exit code %d" % exit_code)
    if exit_code != 0:
        failed_seeds.append(hash_seed)
if failed_seeds:
    is_violated = True
    print("   VIOLATION: with hash seeds %s the plugin classes were not found" % failed_seeds)
print("RESULT:", "violation present" if is_violated else "ok")
sys.exit(1 if is_violated else 0)
