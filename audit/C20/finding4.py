"""
Finding 4: a plugin folder whose name contains a character that is special to glob ("[", "]", "*", "?")
is scanned with the folder name taken as a pattern; its modules are silently not imported, so the field
formats and checks in it cannot be resolved.
"""
import sys
sys.path.insert(0, "/tmp/audit_C20")
import logging
import os
import tempfile
import warnings
warnings.simplefilter("ignore")

from cutplace import applications, checks, fields

PLUGIN_SOURCE = '''
from cutplace import checks, fields

class F4%(tag)sFieldFormat(fields.TextFieldFormat):
    pass

class F4%(tag)sCheck(checks.AbstractCheck):
    pass
'''

logging.basicConfig(level=logging.ERROR, format="   %(levelname)s %(message).150s ...")
base_folder = tempfile.mkdtemp()
is_violated = False
for tag, folder_name in (("Plain", "plugins"), ("Bracket", "plugins[v2]"), ("Year", "plugins [2024]")):
    plugins_folder = os.path.join(base_folder, folder_name)
    os.mkdir(plugins_folder)
    with open(os.path.join(plugins_folder, "f4_%s.py" % tag.lower()), "w") as plugin_file:
        plugin_file.write(PLUGIN_SOURCE % {"tag": tag})
    cid_path = os.path.join(base_folder, "cid_%s.csv" % tag.lower())
    with open(cid_path, "w") as cid_file:
        cid_file.write("d,format,delimited\nf,a,,,,F4%s\nc,some,F4%s,\n" % (tag, tag))
    data_path = os.path.join(base_folder, "data_%s.csv" % tag.lower())
    with open(data_path, "w") as data_file:
        data_file.write("x\ny\n")
    print("-- cutplace --plugins %r cid_%s.csv data_%s.csv   (CID uses field type F4%s and check type F4%s)"
          % (plugins_folder, tag.lower(), tag.lower(), tag, tag))
    exit_code = applications.main(["cutplace", "--log", "error", "--plugins", plugins_folder, cid_path, data_path])
    field_class_names = [some_class.__name__ for some_class in fields.TextFieldFormat.__subclasses__()]
    print("   exit code: %d; imported F4 field formats so far: %s"
          % (exit_code, [name for name in field_class_names if name.startswith("F4")]))
    if exit_code != 0:
        is_violated = True
        print("   VIOLATION: expected exit code 0 (valid data), plugin classes were not imported")
print("RESULT:", "violation present" if is_violated else "ok")
sys.exit(1 if is_violated else 0)
