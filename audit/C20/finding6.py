"""
Finding 6: in fixed-width data a cell is not only stripped of blanks but of everything str.strip() regards
as white space (tab, vertical tab, form feed, U+001C...U+001F, U+0085, no-break space U+00A0,
ideographic space U+3000, ...). A cell that is not empty after blank-stripping is treated as empty - the
value hook is not called and an optional field accepts it - and other cells reach the hook with
characters removed that are no blanks.
"""
import sys
sys.path.insert(0, "/tmp/audit_C20")
import io
import warnings
warnings.simplefilter("ignore")

import cutplace
from cutplace import errors, fields, interface

LOG = []


class F6TraceFieldFormat(fields.AbstractFieldFormat):
    def __init__(self, field_name, is_allowed_to_be_empty, length, rule, data_format):
        super().__init__(field_name, is_allowed_to_be_empty, length, rule, data_format, empty_value="")

    def validated_value(self, value):
        LOG.append(value)
        if not value.isalpha():
            raise errors.FieldValueError("value must consist of letters only: %r" % value)
        return value


CID_TEXT = """d,format,fixed
d,line delimiter,lf
f,code,,x,3,F6Trace
"""
# (cell, value the hook must see after stripping blanks only; None = hook must not be called)
CELLS = [
    ("abc", "abc"),
    (" b ", "b"),
    ("   ", None),
    ("\t\t\t", "\t\t\t"),
    ("\xa0\xa0\xa0", "\xa0\xa0\xa0"),
    ("　　　", "　　　"),
    ("\x1c\x1d\x1e", "\x1c\x1d\x1e"),
    ("a\t ", "a\t"),
    ("\x0cab", "\x0cab"),
]
print("CID:\n" + CID_TEXT)
print("field 'code' may be empty; the user supplied format F6Trace accepts letters only")
is_violated = False
for cell, expected_hook_value in CELLS:
    del LOG[:]
    cid = interface.create_cid_from_string(CID_TEXT)
    try:
        cutplace.validate(cid, io.StringIO(cell + "\n"))
        verdict = "accepted"
    except errors.DataError as error:
        verdict = "rejected"
    expected_calls = [] if expected_hook_value is None else [expected_hook_value]
    is_ok = LOG == expected_calls
    print("cell %-22r hook called with %-22r expected %-22r row %s%s"
          % (cell, LOG, expected_calls, verdict, "" if is_ok else "   <-- VIOLATION"))
    if not is_ok:
        is_violated = True
print("RESULT:", "violation present" if is_violated else "ok")
sys.exit(1 if is_violated else 0)
