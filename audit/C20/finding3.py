"""
Finding 3: a validation run started from the graphical user interface (cutplace --gui, button
"Validate") is never closed: no check is asked for its end-of-data verdict and no check is cleaned up.

No display is needed: CutplaceFrame.validate() is called with a stand-in for ``self`` that provides
the two paths and swallows all widget calls.
"""
import sys
sys.path.insert(0, "/tmp/audit_C20")
import os
import tempfile
import warnings
warnings.simplefilter("ignore")
from unittest import mock

from cutplace import checks, errors, gui

LOG = []


class F3TraceCheck(checks.AbstractCheck):
    def reset(self):
        LOG.append(("reset", self.description))

    def check_row(self, field_name_to_value_map, location):
        LOG.append(("row", self.description))

    def check_at_end(self, location):
        LOG.append(("end", self.description))

    def cleanup(self):
        LOG.append(("cleanup", self.description))


if not gui.has_tk:
    print("tkinter is not available, cannot run this script")
    sys.exit(0)

folder = tempfile.mkdtemp()
cid_path = os.path.join(folder, "cid_f3.csv")
data_path = os.path.join(folder, "data_f3.csv")
with open(cid_path, "w") as cid_file:
    cid_file.write("d,format,delimited\nf,a\nc,traced,F3Trace,\nc,three_distinct_values,DistinctCount,a == 3\n")
with open(data_path, "w") as data_file:
    data_file.write("x\nx\n")
print("CID: ", open(cid_path).read().replace("\n", " | "))
print("data:", repr(open(data_path).read()), "(1 distinct value, so check 'three_distinct_values' must fail)")

report_lines = []
frame = mock.MagicMock()
frame.cid_path = cid_path
frame.data_path = data_path
frame._validation_report_text.insert.side_effect = lambda _position, text: report_lines.append(text.rstrip("\n"))
gui.CutplaceFrame.validate(frame)

print("validation report shown by the GUI:")
for line in report_lines:
    print("   ", line)
print("calls received by the user supplied check:", LOG)
kinds = [kind for kind, _ in LOG]
is_violated = False
if "end" not in kinds:
    is_violated = True
    print("VIOLATION: check_at_end() never called")
if "cleanup" not in kinds:
    is_violated = True
    print("VIOLATION: cleanup() never called")
if not any("three_distinct_values" in line or "distinct count" in line for line in report_lines if "ERROR" in line):
    is_violated = True
    print("VIOLATION: failing DistinctCount check is not reported, data are shown as accepted")
print("RESULT:", "violation present" if is_violated else "ok")
sys.exit(1 if is_violated else 0)
