"""
Finding 1: when the end-of-data verdict of one check is negative, the checks
declared after it are never asked for theirs.
"""
import sys
sys.path.insert(0, "/tmp/audit_C20")
import io
import warnings
warnings.simplefilter("ignore")

import cutplace
from cutplace import checks, errors, interface

LOG = []


class F1TraceCheck(checks.AbstractCheck):
    def reset(self):
        LOG.append(("reset", self.description))

    def check_row(self, field_name_to_value_map, location):
        LOG.append(("row", self.description))

    def check_at_end(self, location):
        LOG.append(("end", self.description))
        if self.rule == "fail":
            raise errors.CheckError("end of data rejected by %s" % self.description, location)

    def cleanup(self):
        LOG.append(("cleanup", self.description))


CID_TEXT = """d,format,delimited
f,a
c,first,F1Trace,
c,second,F1Trace,fail
c,third,F1Trace,
c,fourth,DistinctCount,a == 99
"""
DATA = "x\ny\n"


def run(title, action):
    del LOG[:]
    print("--", title)
    try:
        action()
        print("   no error raised")
    except errors.CheckError as error:
        print("   CheckError:", error)
    asked = [description for kind, description in LOG if kind == "end"]
    cleaned = [description for kind, description in LOG if kind == "cleanup"]
    print("   asked for verdict at end:", asked)
    print("   cleaned up:              ", cleaned)
    return asked


def via_validate():
    cutplace.validate(interface.create_cid_from_string(CID_TEXT), io.StringIO(DATA))


def via_reader():
    reader = cutplace.Reader(interface.create_cid_from_string(CID_TEXT), io.StringIO(DATA), on_error="continue")
    for _ in reader.rows():
        pass
    reader.close()


def via_writer():
    writer = cutplace.Writer(interface.create_cid_from_string(CID_TEXT), io.StringIO())
    writer.write_rows([["x"], ["y"]])
    writer.close()


print("CID:\n" + CID_TEXT)
print("data: %r" % DATA)
print("expected: every check (first, second, third) is asked for its verdict once, in this order")
is_violated = False
for title, action in (("cutplace.validate()", via_validate), ("Reader, on_error='continue'", via_reader),
                      ("Writer", via_writer)):
    asked = run(title, action)
    if asked != ["first", "second", "third"]:
        is_violated = True
        print("   VIOLATION: checks declared after 'second' were never asked")
print("RESULT:", "violation present" if is_violated else "ok")
sys.exit(1 if is_violated else 0)
