"""
Finding 2: fixed_rows() takes a single read(n) that returns fewer than n
characters as a short record, although io.TextIOBase.read(size) is documented
to "read and return AT MOST size characters" and only '' means end of stream.
A character stream that delivers its data in smaller pieces (here: at most 2
characters per call) makes a well-formed input fail.
"""
import sys; sys.path.insert(0, "/tmp/audit_C13")
import io
from cutplace import errors, interface, rowio, validio


class ChunkedTextStream(io.TextIOBase):
    """A conforming text stream whose read() never returns more than ``chunk`` characters at once."""

    def __init__(self, text, chunk=2):
        self._text = text
        self._pos = 0
        self._chunk = chunk

    def readable(self):
        return True

    def read(self, size=-1):
        if size is None or size < 0:
            size = len(self._text)
        size = min(size, self._chunk)
        result = self._text[self._pos:self._pos + size]
        self._pos += len(result)
        return result


text = "abcde\nfghij\n"
fields = [("code", 3), ("kind", 2)]
print("input %r, widths [3, 2], line delimiter LF" % text)
reference = list(rowio.fixed_rows(io.StringIO(text, newline=""), "utf-8", fields, "\n"))
print("  via io.StringIO        ->", reference)
violations = 0
try:
    rows = list(rowio.fixed_rows(ChunkedTextStream(text), "utf-8", fields, "\n"))
    print("  via ChunkedTextStream  ->", rows)
    if rows != reference:
        violations += 1
except errors.DataFormatError as error:
    print("  via ChunkedTextStream  -> DataFormatError:", error)
    print("  VIOLATION: well-formed input rejected (same characters, same widths, same delimiter)")
    violations += 1

cid = interface.create_cid_from_string("d,format,fixed\nd,line delimiter,crlf\nf,a,,,1\n")
try:
    # read(2) for the CRLF delimiter gets only '\r' from a stream handing out 1 character at a time.
    with validio.Reader(cid, ChunkedTextStream("a\r\nb\r\n", chunk=1)) as reader:
        rows = list(reader.rows())
    print("Reader, CRLF, 1 char per read ->", rows)
    if rows != [["a"], ["b"]]:
        violations += 1
except errors.DataFormatError as error:
    print("Reader, CRLF, 1 char per read -> DataFormatError:", error)
    print("  VIOLATION: well-formed input rejected")
    violations += 1

print("violations:", violations)
sys.exit(1 if violations else 0)
