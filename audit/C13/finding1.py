"""
Finding 1: with line delimiter 'any', a well-formed input whose only valid
decomposition uses a lone CR as delimiter followed by a row starting with LF
is rejected, because the reader always glues CR + LF into one delimiter
(no backtracking).
"""
import sys; sys.path.insert(0, "/tmp/audit_C13")
import io
from cutplace import errors, interface, rowio, validio

violations = 0

def well_formed_rows(text, widths):
    """Reference: all ways to split text into rows of the given widths separated by LF, CR or CRLF (last optional)."""
    total = sum(widths)
    found = []
    def rec(pos, rows):
        if pos == len(text):
            found.append(list(rows)); return
        if len(text) - pos < total:
            return
        row, p = [], pos
        for w in widths:
            row.append(text[p:p + w]); p += w
        rows.append(row)
        if p == len(text):
            found.append(list(rows))
        else:
            for delimiter in ("\r\n", "\r", "\n"):
                if text.startswith(delimiter, p):
                    rec(p + len(delimiter), rows)
        rows.pop()
    rec(0, [])
    return found

cases = [
    ("a\r\n\rb", (1,)),           # 'a' CR '\n' CR 'b'
    ("ab\r\nc\rde", (2,)),        # 'ab' CR '\nc' CR 'de'
    ("x1\r\n2\ry3", (1, 1)),      # ['x','1'] CR ['\n','2'] CR ['y','3']
]
for text, widths in cases:
    expected = well_formed_rows(text, widths)
    print("input %r, widths %r, line delimiter 'any'" % (text, widths))
    print("  valid decompositions by the property:", expected)
    fields = [("f%d" % i, w) for i, w in enumerate(widths)]
    try:
        rows = list(rowio.fixed_rows(io.StringIO(text, newline=""), "utf-8", fields, "any"))
        print("  rowio.fixed_rows ->", rows)
        if expected and rows not in expected:
            violations += 1
    except errors.DataFormatError as error:
        print("  rowio.fixed_rows -> DataFormatError:", error)
        if expected:
            print("  VIOLATION: well-formed input rejected")
            violations += 1

# Same through a CID and validio.Reader.
cid = interface.create_cid_from_string("d,format,fixed\nd,line delimiter,any\nf,a,,X,1\n")
try:
    with validio.Reader(cid, io.StringIO("a\r\n\rb", newline="")) as reader:
        print("Reader ->", list(reader.rows()))
except errors.DataFormatError as error:
    print("Reader -> DataFormatError:", error)
    print("  VIOLATION: well-formed input rejected")
    violations += 1

print("violations:", violations)
sys.exit(1 if violations else 0)
