"""
Finding 3: the ODS reader ignores table:number-rows-repeated. Two identical
header rows (LibreOffice stores identical consecutive rows, for instance two
empty rows above the data, as ONE <table:table-row> with
table:number-rows-repeated="2") count as a single row, so with Header=2 the
first data row is dropped as "header", and every later row number (and with
it the validation limit N) is off.
Exit code 1 = violation present, 0 = not present.
"""
import sys

sys.path.insert(0, "/tmp/audit_C07")
import os
import tempfile
import warnings
import zipfile

warnings.simplefilter("ignore")
from cutplace import errors, interface, rowio, validio

_NS = (
    "xmlns:office=\"urn:oasis:names:tc:opendocument:xmlns:office:1.0\" "
    "xmlns:table=\"urn:oasis:names:tc:opendocument:xmlns:table:1.0\" "
    "xmlns:text=\"urn:oasis:names:tc:opendocument:xmlns:text:1.0\""
)


def write_ods(path, table_xml):
    xml = (
        "<?xml version=\"1.0\" encoding=\"UTF-8\"?><office:document-content %s office:version=\"1.2\">"
        "<office:body><office:spreadsheet><table:table table:name=\"Sheet1\">%s</table:table>"
        "</office:spreadsheet></office:body></office:document-content>"
    ) % (_NS, table_xml)
    with zipfile.ZipFile(path, "w") as ods_zip:
        ods_zip.writestr("mimetype", "application/vnd.oasis.opendocument.spreadsheet")
        ods_zip.writestr("content.xml", xml)


def row_xml(cells, attributes=""):
    return "<table:table-row%s>%s</table:table-row>" % (
        attributes,
        "".join(
            "<table:table-cell office:value-type=\"string\"><text:p>%s</text:p></table:table-cell>" % cell
            for cell in cells
        ),
    )


def cid_with_header(header):
    result = interface.Cid()
    result.read(
        "inline",
        [
            ["d", "format", "ods"],
            ["d", "header", str(header)],
            ["f", "a", "", "", "", "Integer", "0...9"],
            ["f", "b"],
        ],
    )
    return result


def read_all(cid, path, **keywords):
    try:
        return list(validio.rows(cid, path, **keywords))
    except errors.CutplaceError as error:
        return error


folder = tempfile.mkdtemp()
plain_path = os.path.join(folder, "plain.ods")
repeated_path = os.path.join(folder, "repeated.ods")
data_rows = row_xml(["77", "x"]) + row_xml(["2", "y"]) + row_xml(["88", "z"])  # rows 3 and 5 are outside 0...9
write_ods(plain_path, row_xml(["", ""]) + row_xml(["", ""]) + data_rows)
write_ods(repeated_path, row_xml(["", ""], ' table:number-rows-repeated="2"') + data_rows)

cid = cid_with_header(2)
violations = 0
print("CID: format=ods, header=2, a: Integer 0...9, b: text")
print("sheet: rows 1-2 empty (header), row 3 ['77','x'] (offending), row 4 ['2','y'], row 5 ['88','z'] (offending)")
expected_rows = [["77", "x"], ["2", "y"], ["88", "z"]]

print("-- no limit: row 3 has to be rejected")
for name, path in (("two <table:table-row>", plain_path), ("one row, number-rows-repeated=2", repeated_path)):
    result = read_all(cid, path)
    print("%-32s -> %r" % (name, result))
    if not (isinstance(result, errors.CutplaceError) and "R3C1" in str(result)):
        violations += 1
        print("VIOLATION: expected a rejection of row 3 (R3C1)")

print("-- validate_until=0: all 3 data rows have to be returned")
for name, path in (("two <table:table-row>", plain_path), ("one row, number-rows-repeated=2", repeated_path)):
    result = read_all(cid, path, validate_until=0)
    print("%-32s -> %r" % (name, result))
    if result != expected_rows:
        violations += 1
        print("VIOLATION: expected %r" % expected_rows)

print("-- validate_until=4: row 5 is beyond the limit, so only row 3 may be reported; on_error='yield'")
for name, path in (("two <table:table-row>", plain_path), ("one row, number-rows-repeated=2", repeated_path)):
    result = read_all(cid, path, validate_until=4, on_error="yield")
    shown = [item if isinstance(item, list) else "ERROR(%s)" % item for item in result]
    print("%-32s -> %r" % (name, shown))
    if len(shown) != 3 or not str(shown[0]).startswith("ERROR") or shown[1:] != expected_rows[1:]:
        violations += 1
        print("VIOLATION: expected [ERROR(row 3), ['2','y'], ['88','z']]")

print("violations: %d" % violations)
sys.exit(1 if violations else 0)
