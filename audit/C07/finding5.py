"""
Finding 5: header rows are not skipped "whatever they contain" - the low
level readers parse them like data rows:
 5a fixed:     a header line that is not exactly as long as a data row (even
               an empty line) makes the whole data set unreadable;
 5b excel:     a header cell formatted as date with a value before 1900-03-01
               makes the whole workbook "damaged";
 5c delimited: (informational) a header line with a quote in the "wrong"
               place, because the csv reader is run with strict=True.
Exit code 1 = 5a or 5b present, 0 = neither.
"""
import sys

sys.path.insert(0, "/tmp/audit_C07")
import io
import os
import tempfile
import warnings

warnings.simplefilter("ignore")
import xlsxwriter

from cutplace import errors, interface, validio


def cid_for(format_rows):
    is_fixed = format_rows[0][2] == "fixed"
    result = interface.Cid()
    result.read(
        "inline",
        format_rows
        + [
            ["f", "a", "", "", "2" if is_fixed else "", "Integer", "0...99"],
            ["f", "b", "", "", "3" if is_fixed else ""],
        ],
    )
    return result


def read_all(cid, source, **keywords):
    try:
        return list(validio.rows(cid, source, **keywords))
    except errors.CutplaceError as error:
        return "ERROR(%s)" % error


violations = 0

print("== 5a fixed: header=1, line delimiter=lf, a: 2 characters, b: 3 characters")
fixed_cid = cid_for([["d", "format", "fixed"], ["d", "header", "1"], ["d", "line delimiter", "lf"]])
expected = [[" 1", "xyz"], [" 2", "abc"]]
for header_line in ("aabbb", "a b", "number text", "", "# customers 2024-01-01"):
    data = header_line + "\n 1xyz\n 2abc\n"
    for limit in (None, 0):
        result = read_all(fixed_cid, io.StringIO(data), validate_until=limit)
        print("data %-40r validate_until=%-4s -> %s" % (data, limit, result))
        if result != expected:
            violations += 1
            print("VIOLATION: expected %r" % expected)

print("== 5b excel: header=1, header cell A1 is the number 15 with number format yyyy-mm-dd (1900-01-15)")
excel_cid = cid_for([["d", "format", "excel"], ["d", "header", "1"]])
path = os.path.join(tempfile.mkdtemp(), "date_in_header.xlsx")
workbook = xlsxwriter.Workbook(path)
worksheet = workbook.add_worksheet()
worksheet.write_number(0, 0, 15, workbook.add_format({"num_format": "yyyy-mm-dd"}))
worksheet.write_string(0, 1, "b")
worksheet.write_row(1, 0, [1, "xyz"])
worksheet.write_row(2, 0, [2, "abc"])
workbook.close()
expected = [["1", "xyz"], ["2", "abc"]]
for limit in (None, 0):
    result = read_all(excel_cid, path, validate_until=limit)
    print("validate_until=%-4s -> %s" % (limit, result))
    if result != expected:
        violations += 1
        print("VIOLATION: expected %r" % expected)

print("== 5c delimited (informational): header=1, header line '\"a\"b,c'")
delimited_cid = cid_for([["d", "format", "delimited"], ["d", "header", "1"]])
result = read_all(delimited_cid, io.StringIO('"a"b,c\n1,xyz\n2,abc\n'))
print("-> %s" % result)
if result != expected:
    print("(not counted) expected %r" % expected)

print("violations: %d" % violations)
sys.exit(1 if violations else 0)
