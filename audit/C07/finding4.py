"""
Finding 4: Excel - what the header row contains decides whether the data rows
are accepted. A header row with more cells than the data rows (an extra
caption, a remark) makes every data row wider (padded with ''), so each data
row is rejected and, without validation, returned changed.
Exit code 1 = violation present, 0 = not present.
"""
import sys

sys.path.insert(0, "/tmp/audit_C07")
import os
import tempfile
import warnings

warnings.simplefilter("ignore")
import xlsxwriter

from cutplace import errors, interface, validio


def write_xlsx(path, rows):
    workbook = xlsxwriter.Workbook(path)
    worksheet = workbook.add_worksheet()
    for row_index, row in enumerate(rows):
        worksheet.write_row(row_index, 0, row)
    workbook.close()


def read_all(cid, path, **keywords):
    try:
        return list(validio.rows(cid, path, **keywords))
    except errors.CutplaceError as error:
        return "ERROR(%s)" % error


cid = interface.Cid()
cid.read(
    "inline",
    [["d", "format", "excel"], ["d", "header", "1"], ["f", "a", "", "", "", "Integer", "0...9"], ["f", "b"]],
)
folder = tempfile.mkdtemp()
data_rows = [[1, "x"], [2, "y"]]
expected = [["1", "x"], ["2", "y"]]
violations = 0
print("CID: format=excel, header=1, a: Integer 0...9, b: text; data rows %r" % data_rows)
for header_row in (["a", "b"], ["a"], [], ["a", "b", "remark"], ["customers as of today", "", "", "page 1"]):
    path = os.path.join(folder, "header_with_%d_cells.xlsx" % len(header_row))
    write_xlsx(path, [header_row] + data_rows)
    for limit in (None, 0):
        result = read_all(cid, path, validate_until=limit)
        print("header row %-45r validate_until=%-4s -> %s" % (header_row, limit, result))
        if result != expected:
            violations += 1
            print("VIOLATION: expected %r" % expected)

print("violations: %d" % violations)
sys.exit(1 if violations else 0)
