"""
Finding 6: the validate-only entry points other than cutplace.validate() -
Reader.validate_rows() and with it the command line option --until - do not
stop after N rows. They read the whole file, so a row far beyond the limit
that cannot be parsed is still reported (exit code 1), even with --until 0,
and all rows are counted as "accepted".
Exit code 1 = violation present, 0 = not present.
"""
import sys

sys.path.insert(0, "/tmp/audit_C07")
import logging
import os
import tempfile
import warnings

warnings.simplefilter("ignore")
from cutplace import applications, errors, validio

logging.basicConfig(level=logging.INFO, stream=sys.stdout)
folder = tempfile.mkdtemp()
violations = 0


def check(title, cid_text, data_text, offending_row):
    global violations
    cid_path = os.path.join(folder, "cid.csv")
    data_path = os.path.join(folder, "data.txt")
    with open(cid_path, "w", encoding="utf-8") as cid_file:
        cid_file.write(cid_text)
    with open(data_path, "w", encoding="utf-8", newline="") as data_file:
        data_file.write(data_text)
    print("== %s; data %r; the only offending row is row %d" % (title, data_text, offending_row))
    for limit in (0, 2):
        assert limit < offending_row
        try:
            validio.validate(cid_path, data_path, validate_until=limit)
            print("cutplace.validate(validate_until=%d)            -> accepted" % limit)
        except errors.CutplaceError as error:
            violations += 1
            print("cutplace.validate(validate_until=%d)            -> VIOLATION: %s" % (limit, error))
        try:
            with validio.Reader(cid_path, data_path, validate_until=limit) as reader:
                reader.validate_rows()
            print("Reader(validate_until=%d).validate_rows()       -> accepted" % limit)
        except errors.CutplaceError as error:
            violations += 1
            print("Reader(validate_until=%d).validate_rows()       -> VIOLATION: %s" % (limit, error))
        exit_code = applications.main(["cutplace", "--until", str(limit), cid_path, data_path])
        print("cutplace --until %d cid.csv data.txt            -> exit code %d" % (limit, exit_code))
        if exit_code != 0:
            violations += 1
            print("VIOLATION: expected exit code 0, row %d is beyond the limit %d" % (offending_row, limit))


check(
    "delimited, header=1",
    "d,format,delimited\nd,header,1\nd,encoding,utf-8\nf,a,,,,Integer,0...9\nf,b\n",
    'a,b\n1,x\n2,y\n3,z\n4,"w"w\n5,v\n',
    5,
)
check(
    "fixed, header=1",
    "d,format,fixed\nd,header,1\nd,encoding,utf-8\nd,line delimiter,lf\nf,a,,,1,Integer,0...9\nf,b,,,1\n",
    "ab\n1x\n2y\n3z\n4\n5v\n",
    5,
)

print("violations: %d" % violations)
sys.exit(1 if violations else 0)
