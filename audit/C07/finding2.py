"""
Finding 2: in an ODS document the header rows that are stored in
<table:table-header-rows> (what LibreOffice writes for "rows to repeat" /
header rows of a sheet) are not seen by the reader, so "Header" many DATA rows
are dropped instead: they are neither validated nor returned.
Exit code 1 = violation present, 0 = not present.
"""
import sys

sys.path.insert(0, "/tmp/audit_C07")
import os
import tempfile
import warnings
import zipfile

warnings.simplefilter("ignore")
from cutplace import errors, interface, rowio, validio

_NS = (
    "xmlns:office=\"urn:oasis:names:tc:opendocument:xmlns:office:1.0\" "
    "xmlns:table=\"urn:oasis:names:tc:opendocument:xmlns:table:1.0\" "
    "xmlns:text=\"urn:oasis:names:tc:opendocument:xmlns:text:1.0\""
)


def write_ods(path, table_xml):
    xml = (
        "<?xml version=\"1.0\" encoding=\"UTF-8\"?><office:document-content %s office:version=\"1.2\">"
        "<office:body><office:spreadsheet><table:table table:name=\"Sheet1\">%s</table:table>"
        "</office:spreadsheet></office:body></office:document-content>"
    ) % (_NS, table_xml)
    with zipfile.ZipFile(path, "w") as ods_zip:
        ods_zip.writestr("mimetype", "application/vnd.oasis.opendocument.spreadsheet")
        ods_zip.writestr("content.xml", xml)


def row_xml(cells, attributes=""):
    return "<table:table-row%s>%s</table:table-row>" % (
        attributes,
        "".join(
            "<table:table-cell office:value-type=\"string\"><text:p>%s</text:p></table:table-cell>" % cell
            for cell in cells
        ),
    )


def cid_with_header(header):
    result = interface.Cid()
    result.read(
        "inline",
        [
            ["d", "format", "ods"],
            ["d", "header", str(header)],
            ["f", "a", "", "", "", "Integer", "0...9"],
            ["f", "b"],
        ],
    )
    return result


def read_all(cid, path, **keywords):
    try:
        return list(validio.rows(cid, path, **keywords))
    except errors.CutplaceError as error:
        return error


folder = tempfile.mkdtemp()
plain_path = os.path.join(folder, "plain.ods")
grouped_path = os.path.join(folder, "grouped.ods")
header_rows = row_xml(["title a", "title b"]) + row_xml(["unit a", "unit b"])
data_rows = row_xml(["1", "x"]) + row_xml(["77", "y"]) + row_xml(["3", "z"])  # 77 is outside 0...9
write_ods(plain_path, header_rows + data_rows)
write_ods(grouped_path, "<table:table-header-rows>" + header_rows + "</table:table-header-rows>" + data_rows)

cid = cid_with_header(2)
violations = 0
print("CID: format=ods, header=2, a: Integer 0...9, b: text")
print("sheet: 2 header rows, then ['1','x'], ['77','y'] (offending), ['3','z']")

plain_result = read_all(cid, plain_path)
print("header rows as plain <table:table-row>              -> %r" % (plain_result,))
grouped_result = read_all(cid, grouped_path)
print("header rows inside <table:table-header-rows>         -> %r" % (grouped_result,))
print("raw rows seen by rowio.ods_rows()                    -> %r" % list(rowio.ods_rows(grouped_path)))
if not isinstance(grouped_result, errors.CutplaceError):
    violations += 1
    print("VIOLATION: row ['77','y'] is not rejected (expected the same FieldValueError as for the plain sheet)")
grouped_unvalidated = read_all(cid, grouped_path, validate_until=0)
expected_rows = [["1", "x"], ["77", "y"], ["3", "z"]]
print("same, validate_until=0                              -> %r" % (grouped_unvalidated,))
if grouped_unvalidated != expected_rows:
    violations += 1
    print("VIOLATION: expected all data rows %r to be returned" % expected_rows)

print("violations: %d" % violations)
sys.exit(1 if violations else 0)
