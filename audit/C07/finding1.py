"""
Finding 1: the checks "at the end" (DistinctCount) are evaluated although a
validation limit kept (some or all) rows from being validated, so flawless
data are rejected - even with N = 0 ("validates nothing").
Exit code 1 = violation present, 0 = not present.
"""
import sys

sys.path.insert(0, "/tmp/audit_C07")
import io
import logging
import os
import tempfile
import warnings

warnings.simplefilter("ignore")
from cutplace import applications, errors, interface, validio

CID_ROWS = [
    ["d", "format", "delimited"],
    ["d", "header", "1"],
    ["d", "encoding", "utf-8"],
    ["f", "a", "", "", "", "Integer", "0...9"],
    ["f", "b"],
    ["c", "at least two different b", "DistinctCount", "b >= 2"],
]
DATA = "h,h\n1,x\n2,y\n3,z\n"  # flawless: 3 distinct values in b, every a in 0...9


def cid():
    result = interface.Cid()
    result.read("inline", CID_ROWS)
    return result


violations = 0
print("CID rows: %r" % CID_ROWS)
print("data    : %r (no row is offending, validate_until=None accepts it)" % DATA)
validio.validate(cid(), io.StringIO(DATA))
print("validate(validate_until=None) -> accepted")

for limit in (0, 1, 2, 3):
    for api_name in ("validate", "rows"):
        try:
            if api_name == "validate":
                validio.validate(cid(), io.StringIO(DATA), validate_until=limit)
                outcome = "accepted"
            else:
                outcome = "returned %r" % list(validio.rows(cid(), io.StringIO(DATA), validate_until=limit))
            print("%-8s validate_until=%d -> %s" % (api_name, limit, outcome))
        except errors.CutplaceError as error:
            violations += 1
            print("%-8s validate_until=%d -> VIOLATION, rejection without offending row <= N: %s" % (api_name, limit, error))

# The same with the command line.
folder = tempfile.mkdtemp()
cid_path = os.path.join(folder, "cid.csv")
data_path = os.path.join(folder, "data.csv")
with open(cid_path, "w", encoding="utf-8") as cid_file:
    for row in CID_ROWS:
        cid_file.write(",".join(row) + "\n")
with open(data_path, "w", encoding="utf-8") as data_file:
    data_file.write(DATA)
logging.basicConfig(level=logging.INFO, stream=sys.stdout)
exit_code = applications.main(["cutplace", "--until", "0", cid_path, data_path])
print("cutplace --until 0 cid.csv data.csv -> exit code %d (expected 0)" % exit_code)
if exit_code != 0:
    violations += 1

print("violations: %d" % violations)
sys.exit(1 if violations else 0)
