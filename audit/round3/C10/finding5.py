"""
Finding 5: a Decimal rule with a limit whose exponent is below -2147483647 (legal for
decimal.Decimal) is accepted when the CID is read; as soon as the range has to be shown in
a message (a value out of range, overlapping parts) "%.*f" % (precision, limit) raises
OverflowError instead of the FieldValueError / InterfaceError.
"""
import sys

sys.path.insert(0, "/tmp/audit3_C10")
import io
import logging
import os
import tempfile

from cutplace import applications, errors, interface, validio

violations = 0
cid_text = "d,format,delimited\nf,amount,,,,Decimal,0...1e-3000000000\n"
print("CID: %r, data: '2'" % cid_text)
try:
    cid = interface.create_cid_from_string(cid_text)
    print("  CID accepted")
    validio.validate(cid, io.StringIO("2\r\n"))
    print("  data accepted")
except errors.CutplaceError as error:
    print("  ok: %s: %s" % (type(error).__name__, str(error)[:100]))
except Exception as error:
    print("  VIOLATION: %s escaped the API: %s" % (type(error).__name__, error))
    violations += 1

cid_text = "d,format,delimited\nf,amount,,,,Decimal,\"0...1e-3000000000, 0\"\n"
print("CID: %r" % cid_text)
try:
    interface.create_cid_from_string(cid_text)
    print("  CID accepted")
except errors.InterfaceError as error:
    print("  ok: %s: %s" % (type(error).__name__, str(error)[:100]))
except Exception as error:
    print("  VIOLATION: %s escaped the API: %s" % (type(error).__name__, error))
    violations += 1

logging.getLogger("cutplace").disabled = True
folder = tempfile.mkdtemp()
cid_path = os.path.join(folder, "cid.csv")
data_path = os.path.join(folder, "data.csv")
with open(cid_path, "w", encoding="utf-8") as cid_file:
    cid_file.write("d,format,delimited\nf,amount,,,,Decimal,0...1e-3000000000\n")
with open(data_path, "w", encoding="utf-8") as data_file:
    data_file.write("2\n")
exit_code = applications.main(["cutplace", cid_path, data_path])
print("command line: cutplace cid.csv data.csv -> exit code %r" % exit_code)
if exit_code == 4:
    print("  VIOLATION: exit code 4")
    violations += 1
sys.exit(1 if violations else 0)
