"""
Finding 2: a CID stored as ODS in which a cell starts with formatted text
(<text:p><text:span>..</text:span></text:p>, what LibreOffice writes for a
partly formatted cell or an auto-detected hyperlink) is delivered by ods_rows()
as None, and Cid.read() fails with AttributeError; exit code 4 on the command line.
"""
import sys

sys.path.insert(0, "/tmp/audit3_C10")
import logging
import os
import tempfile
import zipfile
from xml.sax.saxutils import escape

from cutplace import applications, errors, interface

NAMESPACES = (
    'xmlns:office="urn:oasis:names:tc:opendocument:xmlns:office:1.0" '
    'xmlns:table="urn:oasis:names:tc:opendocument:xmlns:table:1.0" '
    'xmlns:text="urn:oasis:names:tc:opendocument:xmlns:text:1.0"'
)


class Formatted(str):
    """Text of a cell that is written as <text:p><text:span>text</text:span></text:p>."""


def write_ods(path, rows):
    body = '<table:table table:name="cid">'
    for row in rows:
        body += "<table:table-row>"
        for cell in row:
            if isinstance(cell, Formatted):
                body += "<table:table-cell><text:p><text:span>%s</text:span></text:p></table:table-cell>" % escape(cell)
            else:
                body += "<table:table-cell><text:p>%s</text:p></table:table-cell>" % escape(cell)
        body += "</table:table-row>"
    body += "</table:table>"
    content = (
        '<?xml version="1.0" encoding="UTF-8"?><office:document-content %s><office:body><office:spreadsheet>'
        "%s</office:spreadsheet></office:body></office:document-content>" % (NAMESPACES, body)
    )
    with zipfile.ZipFile(path, "w") as ods_zip:
        ods_zip.writestr("mimetype", "application/vnd.oasis.opendocument.spreadsheet")
        ods_zip.writestr("content.xml", content)


folder = tempfile.mkdtemp()
violations = 0
cases = [
    ("row mark", [[Formatted("D"), "format", "delimited"], ["F", "customer_id"]]),
    ("property name", [["D", Formatted("format"), "delimited"], ["F", "customer_id"]]),
    ("property value", [["D", "format", Formatted("delimited")], ["F", "customer_id"]]),
    ("field name", [["D", "format", "delimited"], ["F", Formatted("customer_id")]]),
    ("field type", [["D", "format", "delimited"], ["F", "customer_id", "", "", "", Formatted("Integer")]]),
    ("field rule", [["D", "format", "delimited"], ["F", "customer_id", "", "", "", "Integer", Formatted("1...9")]]),
    ("check rule", [["D", "format", "delimited"], ["F", "customer_id"], ["C", "unique id", "IsUnique", Formatted("customer_id")]]),
]
for index, (name, rows) in enumerate(cases):
    cid_path = os.path.join(folder, "cid%d.ods" % index)
    write_ods(cid_path, rows)
    print("ODS CID with formatted text in the cell for the %s" % name)
    try:
        interface.Cid(cid_path)
        print("  accepted")
    except errors.InterfaceError as error:
        print("  ok: InterfaceError: %s" % error)
    except Exception as error:
        print("  VIOLATION: %s escaped the API: %s" % (type(error).__name__, error))
        violations += 1

logging.getLogger("cutplace").disabled = True
data_path = os.path.join(folder, "data.csv")
with open(data_path, "w", encoding="utf-8") as data_file:
    data_file.write("1\n")
exit_code = applications.main(["cutplace", os.path.join(folder, "cid0.ods"), data_path])
print("command line: cutplace cid0.ods data.csv -> exit code %r" % exit_code)
if exit_code == 4:
    print("  VIOLATION: exit code 4")
    violations += 1
sys.exit(1 if violations else 0)
