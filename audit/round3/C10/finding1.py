"""
Finding 1: a RegEx field whose rule combines the inline flags (?a) and (?u)
makes re.compile() raise ValueError, which escapes Cid.read() / Cid() and
gives exit code 4 on the command line.
"""
import sys

sys.path.insert(0, "/tmp/audit3_C10")
import logging
import os
import tempfile

from cutplace import applications, errors, interface

violations = 0
for rule in ("(?a)(?u)x", "(?u)(?a)x", "(?a)(?u)"):
    cid_text = "d,format,delimited\nf,code,,,,RegEx,%s\n" % rule
    print("CID with RegEx rule %r" % rule)
    try:
        interface.create_cid_from_string(cid_text)
        print("  accepted")
    except errors.InterfaceError as error:
        print("  ok: InterfaceError: %s" % error)
    except Exception as error:
        print("  VIOLATION: %s escaped the API: %s" % (type(error).__name__, error))
        violations += 1

logging.basicConfig(level=logging.CRITICAL)
logging.getLogger("cutplace").disabled = True
folder = tempfile.mkdtemp()
cid_path = os.path.join(folder, "cid.csv")
data_path = os.path.join(folder, "data.csv")
with open(cid_path, "w", encoding="utf-8") as cid_file:
    cid_file.write("d,format,delimited\nf,code,,,,RegEx,(?a)(?u)x\n")
with open(data_path, "w", encoding="utf-8") as data_file:
    data_file.write("x\n")
exit_code = applications.main(["cutplace", cid_path, data_path])
print("command line: cutplace cid.csv data.csv -> exit code %r" % exit_code)
if exit_code == 4:
    print("  VIOLATION: exit code 4")
    violations += 1
sys.exit(1 if violations else 0)
