"""
Finding 3: validio.Writer for fixed data with "header" >= 1 does not validate the header
rows and hands them unchecked to FixedRowWriter, which only has assertions: a header
cell that is too long, a header row with too few / too many cells or a cell that is no
string end in AssertionError (or, under "python -O", in a malformed line being written).
"""
import sys

sys.path.insert(0, "/tmp/audit3_C10")
import io

from cutplace import errors, interface, validio

CID_TEXT = "d,format,fixed\nd,header,1\nf,id,,,3\nf,name,,x,5\n"
violations = 0
for header_row in (["id", "name"], ["ident", "name"], ["id"], ["id", "name", "more"], ["id", None], ["id", 7]):
    cid = interface.create_cid_from_string(CID_TEXT)
    out = io.StringIO()
    print("fixed CID with header 1, Writer.write_row(%r) as heading" % (header_row,))
    try:
        writer = validio.Writer(cid, out)
        writer.write_row(header_row)
        writer.write_row(["123", "Alice"])
        writer.close()
        print("  written: %r" % out.getvalue())
    except errors.DataError as error:
        print("  ok: %s: %s" % (type(error).__name__, error))
    except Exception as error:
        print("  VIOLATION: %s escaped the API: %s" % (type(error).__name__, error))
        violations += 1
sys.exit(1 if violations else 0)
