"""
Finding 6: cutplace.Writer for a CID whose data format is excel or ods raises
NotImplementedError from its constructor.
"""
import sys

sys.path.insert(0, "/tmp/audit3_C10")
import io
import os
import tempfile

from cutplace import errors, interface, validio

violations = 0
for data_format in ("excel", "ods"):
    cid = interface.create_cid_from_string("d,format,%s\nf,customer_id\n" % data_format)
    target_path = os.path.join(tempfile.mkdtemp(), "out." + ("xlsx" if data_format == "excel" else "ods"))
    print("Writer(cid with format %s, %r)" % (data_format, os.path.basename(target_path)))
    try:
        with validio.Writer(cid, target_path) as writer:
            writer.write_row(["1"])
        print("  written")
    except errors.CutplaceError as error:
        print("  ok: %s: %s" % (type(error).__name__, error))
    except Exception as error:
        print("  VIOLATION: %s escaped the API: %r" % (type(error).__name__, error))
        violations += 1
sys.exit(1 if violations else 0)
