"""
Finding 4: rowio.XlsxRowWriter.write_row() accepts numbers as cells but lets the errors
of xlsxwriter for NaN, infinity and integers beyond the float range escape as TypeError /
OverflowError - after the cells to the left have already been written and the cell
position has been advanced, so the sheet is damaged from then on.
"""
import sys

sys.path.insert(0, "/tmp/audit3_C10")
import decimal
import os
import tempfile

from cutplace import errors, rowio

violations = 0
target_path = os.path.join(tempfile.mkdtemp(), "out.xlsx")
writer = rowio.XlsxRowWriter(target_path)
writer.write_row(["id", "amount", "note"])
for bad_item in (float("nan"), float("inf"), decimal.Decimal("NaN"), 10**400):
    row = ["REJECTED", bad_item, "x"]
    print("XlsxRowWriter.write_row(%s)" % (repr(row)[:60],))
    try:
        writer.write_row(row)
        print("  written")
    except errors.DataError as error:
        print("  ok: %s: %s" % (type(error).__name__, error))
    except Exception as error:
        print("  VIOLATION: %s escaped the API: %s" % (type(error).__name__, error))
        print("  location is now %s" % writer.location)
        violations += 1
writer.write_row(["1", "2.5", "fine"])
writer.close()
rows = list(rowio.excel_rows(target_path))
print("rows read back: %r" % rows)
if rows != [["id", "amount", "note"], ["1", "2.5", "fine"]]:
    print("  VIOLATION: cells of the refused rows ended up in the sheet / the next row is shifted")
    violations += 1
sys.exit(1 if violations else 0)
