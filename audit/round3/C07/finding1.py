"""
Finding 1: with a validation limit N, an undecodable byte in a row far beyond
N (delimited and fixed data read from a path) is reported as a rejection - and
is located at row 1.
"""
import sys

sys.path.insert(0, "/tmp/audit3_C07")
import io
import logging
import os
import tempfile

from cutplace import applications, errors, interface, validio

logging.basicConfig(level=logging.ERROR)
violations = []
folder = tempfile.mkdtemp(prefix="finding1_", dir=os.path.dirname(os.path.abspath(__file__)))
import atexit, shutil
atexit.register(shutil.rmtree, folder, True)


def note(is_violation, text):
    print(("VIOLATION: " if is_violation else "ok:        ") + text)
    if is_violation:
        violations.append(text)


# --- delimited -----------------------------------------------------------
delimited_cid = interface.create_cid_from_string(
    "d,format,delimited\nd,encoding,utf-8\nd,header,1\nf,a,,,,Integer,0...50\nf,b,,,,Choice,\"x,y\"\n"
)
delimited_path = os.path.join(folder, "data.csv")
with open(delimited_path, "wb") as data_file:
    # Row 1 is the header, rows 2 to 4 are fine, row 5 holds a byte that is no UTF-8.
    data_file.write(b"a,b\n1,x\n2,x\n3,x\n4,\xff\n5,x\n")
print("delimited data: %r" % open(delimited_path, "rb").read())

for limit in (1, 2, 3):
    try:
        validio.validate(delimited_cid, delimited_path, validate_until=limit)
        note(False, "validate(delimited, validate_until=%d) accepts the data" % limit)
    except errors.DataError as error:
        note(True, "validate(delimited, validate_until=%d) reports the bad byte of row 5: %s" % (limit, error))

for limit in (0, 2):
    rows_read = []
    try:
        for row in validio.rows(delimited_cid, delimited_path, validate_until=limit):
            rows_read.append(row)
        note(True, "rows() read everything?! %s" % rows_read)
    except errors.DataError as error:
        # Rows 2 to 4 can be decoded and must be returned before the reader gives up at row 5.
        note(
            rows_read != [["1", "x"], ["2", "x"], ["3", "x"]],
            "rows(delimited, validate_until=%d) returned %s before failing with: %s" % (limit, rows_read, error),
        )

with validio.Reader(delimited_cid, delimited_path, validate_until=2) as reader:
    try:
        reader.validate_rows()
        note(False, "Reader.validate_rows(delimited, validate_until=2) accepts the data")
    except errors.DataError as error:
        note(True, "Reader.validate_rows(delimited, validate_until=2): %s" % error)

cid_path = os.path.join(folder, "cid.csv")
with open(cid_path, "w") as cid_file:
    cid_file.write("d,format,delimited\nd,encoding,utf-8\nd,header,1\nf,a,,,,Integer,0...50\nf,b,,,,Choice,\"x,y\"\n")
exit_code = applications.main(["cutplace", "--until", "2", cid_path, delimited_path])
note(exit_code != 0, "cutplace --until 2 cid.csv data.csv exits with %d" % exit_code)

# The same byte, but more than one read buffer (8192 bytes) away from the start, goes unnoticed:
far_path = os.path.join(folder, "far.csv")
with open(far_path, "wb") as data_file:
    data_file.write(b"a,b\n1,x\n2,x\n" + b"3,x\n" * 3000 + b"4,\xff\n")
try:
    validio.validate(delimited_cid, far_path, validate_until=2)
    print("info:      the same byte in row 3004 with validate_until=2: accepted (so the result depends on a buffer size)")
except errors.DataError as error:
    print("info:      the same byte in row 3004 with validate_until=2: %s" % error)

# --- fixed ------------------------------------------------------------------
fixed_cid = interface.create_cid_from_string(
    "d,format,fixed\nd,encoding,utf-8\nd,header,1\nf,a,,,2,Integer,0...50\nf,b,,,1,Choice,\"x,y\"\n"
)
fixed_path = os.path.join(folder, "data.txt")
with open(fixed_path, "wb") as data_file:
    data_file.write(b"aab\n 1x\n 2x\n 3x\n 4\xff\n 5x\n")
print("fixed data: %r" % open(fixed_path, "rb").read())
for limit in (1, 2, 3):
    try:
        validio.validate(fixed_cid, fixed_path, validate_until=limit)
        note(False, "validate(fixed, validate_until=%d) accepts the data" % limit)
    except errors.DataError as error:
        note(True, "validate(fixed, validate_until=%d) reports the bad byte of row 5: %s" % (limit, error))

print()
print("%d violation(s)" % len(violations))
sys.exit(1 if violations else 0)
