"""
Finding 2 (weaker, writing side): validio.Writer for fixed data does not leave
the header rows alone. A header row whose items do not have the length, type
or number of the fields ends in an AssertionError (and, with assertions
switched off, in a data set nobody can read back), while the delimited Writer
writes any header row.
"""
import sys

sys.path.insert(0, "/tmp/audit3_C07")
import io

from cutplace import errors, interface, validio

violations = []

FIXED_CID = 'd,format,fixed\nd,header,1\nf,customer_id,,,5,Integer,0...99999\nf,kind,,,1,Choice,"x,y"\n'
DELIMITED_CID = 'd,format,delimited\nd,header,1\nf,customer_id,,,,Integer,0...99999\nf,kind,,,,Choice,"x,y"\n'

for header_row in (["customer_id", "kind"], ["id"], ["id", "kind", "remark"], [1, 2]):
    for cid_text in (DELIMITED_CID, FIXED_CID):
        cid = interface.create_cid_from_string(cid_text)
        target = io.StringIO()
        description = "%s Writer, Header 1, header row %r" % (cid.data_format.format, header_row)
        try:
            with validio.Writer(cid, target) as writer:
                writer.write_row(header_row)
                writer.write_row(["12345", "x"])
            print("ok:        %s: written" % description)
        except errors.CutplaceError as error:
            print("ok:        %s: refused with a cutplace error: %s" % (description, error))
        except Exception as error:
            print("VIOLATION: %s: %s: %s" % (description, type(error).__name__, error))
            violations.append(description)

# What the header row is good for when it is written (python -O): the data cannot be read back.
if not __debug__:
    cid = interface.create_cid_from_string(FIXED_CID)
    target = io.StringIO()
    with validio.Writer(cid, target) as writer:
        writer.write_row(["customer_id", "kind"])
        writer.write_row(["12345", "x"])
    print("written with -O: %r" % target.getvalue())
    try:
        print("read back: %s" % list(validio.rows(cid, io.StringIO(target.getvalue()))))
    except errors.DataError as error:
        print("VIOLATION: the data set written cannot be read back: %s" % error)
        violations.append("read back")

print()
print("%d violation(s)" % len(violations))
sys.exit(1 if violations else 0)
