"""
Finding 1: a field format added with Cid.add_field_format() (documented: "it can be copied from
existing Cid.field_formats") keeps the data format of the CID it came from. The protocol of
validated() - blank stripping, allowed characters, length - is then driven by the WRONG data
format, so the value hook is called for cells the CID it now belongs to does not allow.
"""
import sys

sys.path.insert(0, "/tmp/audit3_C20")
import io

from cutplace import data, errors, fields, interface, validio

HOOK_CALLS = []


class SpyFieldFormat(fields.AbstractFieldFormat):
    def __init__(self, field_name, is_allowed_to_be_empty, length, rule, data_format):
        super().__init__(field_name, is_allowed_to_be_empty, length, rule, data_format, empty_value="")

    def validated_value(self, value):
        HOOK_CALLS.append((self.field_name, value))
        return value


violations = []

# (a) allowed characters: the target CID allows digits only.
source_cid = interface.create_cid_from_string("d,format,delimited\nf,a,,,,Spy\n")
target_cid = interface.Cid()
target_cid.add_data_format_row([data.KEY_FORMAT, data.FORMAT_DELIMITED])
target_cid.add_data_format_row([data.KEY_ALLOWED_CHARACTERS, "48...57"])
target_cid.add_field_format(source_cid.field_formats[0])  # copied, as the docstring suggests
target_cid.add_field_format_row(["b", "", "", "", "Spy"])  # declared in the target CID
target_cid.data_format.validate()

del HOOK_CALLS[:]
with validio.Reader(target_cid, io.StringIO("xyz,1\n"), on_error="yield") as reader:
    result = list(reader.rows())
print("(a) delimited, allowed characters 48...57, row ['xyz', '1'] ->", result)
print("    hook calls:", HOOK_CALLS)
if ("a", "xyz") in HOOK_CALLS:
    print("    VIOLATION: hook of field 'a' was called for 'xyz' although x, y, z are not allowed characters")
    violations.append("a")
del HOOK_CALLS[:]
with validio.Reader(target_cid, io.StringIO("1,xyz\n"), on_error="yield") as reader:
    result = list(reader.rows())
print("    same cell in field 'b' (declared in the target CID) ->", result, "hook calls:", HOOK_CALLS)

# (b) blank stripping: a field copied from a delimited CID into a fixed CID.
fixed_cid = interface.Cid()
fixed_cid.add_data_format_row([data.KEY_FORMAT, data.FORMAT_FIXED])
copied_field = interface.create_cid_from_string("d,format,delimited\nf,a,,x,3,Spy\n").field_formats[0]
fixed_cid.add_field_format(copied_field)
fixed_cid.add_field_format_row(["b", "", "x", "3", "Spy"])
fixed_cid.data_format.validate()
del HOOK_CALLS[:]
with validio.Reader(fixed_cid, io.StringIO("   x  \n"), on_error="yield") as reader:
    result = list(reader.rows())
print("(b) fixed, row '   x  ' (a blank, b='x  ') ->", result)
print("    hook calls:", HOOK_CALLS)
if ("a", "   ") in HOOK_CALLS:
    print("    VIOLATION: hook of field 'a' was called for a cell that is empty after blank-stripping")
    violations.append("b")
if ("b", "x") not in HOOK_CALLS:
    print("    (unexpected: field 'b' not called with stripped value)")

print("violation present" if violations else "no violation")
sys.exit(1 if violations else 0)
