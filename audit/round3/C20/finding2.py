"""
Finding 2: two classes with the same name that come from a plugin folder (or from a module that is not
in sys.modules, or from an interactive session) cannot be told apart by Cid._class_info(): the "source
path" of every plugin class is "(internal)". They are taken for the same class imported twice, one of
them is dropped silently, and WHICH one depends on the iteration order of a set of classes. So a CID
type name resolves to an arbitrary one of the classes: after a plugin file was edited and the folder
imported again (import_plugins keeps every module alive since the last repair) about half of the names
resolve to the stale class; two folders that both hold a "myplugins.py" with a same-named class are
not reported as "clashing plugin class names" either.
"""
import sys

sys.path.insert(0, "/tmp/audit3_C20")
import os
import tempfile

from cutplace import errors, interface

CLASS_COUNT = 24


def write_plugin(folder, version):
    os.makedirs(folder, exist_ok=True)
    with open(os.path.join(folder, "myplugins.py"), "w") as plugin_file:
        plugin_file.write("from cutplace import errors, fields\n\n")
        for index in range(CLASS_COUNT):
            plugin_file.write(
                "class Kind%dFieldFormat(fields.AbstractFieldFormat):\n"
                "    VERSION = %d\n"
                "    def validated_value(self, value):\n"
                "        return value\n\n" % (index, version)
            )


cid_text = "d,format,delimited\n" + "".join("f,f%d,,,,Kind%d\n" % (index, index) for index in range(CLASS_COUNT))
os.makedirs("/tmp/audit3_C20/out/work", exist_ok=True)
base_folder = tempfile.mkdtemp(prefix="finding2_", dir="/tmp/audit3_C20/out/work")

# Case 1: the plugin file is edited, the folder is imported again (long running process, test suite, ...).
folder = os.path.join(base_folder, "plugins")
write_plugin(folder, 1)
interface.import_plugins(folder)
versions = [type(field_format).VERSION for field_format in interface.create_cid_from_string(cid_text).field_formats]
print("after first import :", versions)
write_plugin(folder, 2)
interface.import_plugins(folder)
versions = [type(field_format).VERSION for field_format in interface.create_cid_from_string(cid_text).field_formats]
print("after second import:", versions)
stale_count = versions.count(1)
print("%d of %d type names resolve to the class of the file as it was BEFORE the edit" % (stale_count, CLASS_COUNT))

# Case 2: another folder with a module and classes of the same names; must be a clash like for built-ins
# (a plugin class named IntegerFieldFormat is refused with "clashing plugin class names must be resolved").
other_folder = os.path.join(base_folder, "other_plugins")
write_plugin(other_folder, 3)
interface.import_plugins(other_folder)
try:
    versions = [type(field_format).VERSION for field_format in interface.create_cid_from_string(cid_text).field_formats]
    print("after import of a second folder with same-named classes: no clash reported, versions:", versions)
    has_silent_clash = True
except errors.CutplaceError as error:
    print("clash reported:", str(error)[:120])
    has_silent_clash = False

has_violation = (stale_count > 0) or has_silent_clash
print("violation present" if has_violation else "no violation")
sys.exit(1 if has_violation else 0)
