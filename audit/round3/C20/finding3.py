"""
Finding 3: a Cid resolves type names against a snapshot of the classes taken in Cid.__init__().
Built-in names resolve in every later add_field_format_row() / add_check_row() / read(), but a field
format or check the user defines - or a plugin folder imported - after the Cid object was created does
not resolve (the order shown in docs/api.rst: "cid = Cid()" first, own field formats later).
"""
import sys

sys.path.insert(0, "/tmp/audit3_C20")
import os

from cutplace import checks, data, errors, fields, interface

problems = []

cid = interface.Cid()
cid.add_data_format_row([data.KEY_FORMAT, data.FORMAT_DELIMITED])


class LateFieldFormat(fields.AbstractFieldFormat):
    def validated_value(self, value):
        return value


class LateCheck(checks.AbstractCheck):
    pass


cid.add_field_format_row(["built_in", "", "", "", "Integer"])
print("built-in field type 'Integer' resolves in a Cid created before")
try:
    cid.add_field_format_row(["own", "", "", "", "Late"])
    print("user field type 'Late' resolves")
except errors.InterfaceError as error:
    print("user field type 'Late' does NOT resolve:", str(error)[:110], "...")
    problems.append("field")
cid.add_check_row(["built-in check", "IsUnique", "built_in"])
print("built-in check type 'IsUnique' resolves")
try:
    cid.add_check_row(["own check", "Late", ""])
    print("user check type 'Late' resolves")
except errors.InterfaceError as error:
    print("user check type 'Late' does NOT resolve:", str(error)[:110], "...")
    problems.append("check")

# Same with a plugin folder imported between Cid() and Cid.read().
plugin_folder = "/tmp/audit3_C20/out/work/finding3_plugins"
os.makedirs(plugin_folder, exist_ok=True)
with open(os.path.join(plugin_folder, "lateplugins.py"), "w") as plugin_file:
    plugin_file.write(
        "from cutplace import fields\n"
        "class FromFolderFieldFormat(fields.TextFieldFormat):\n"
        "    pass\n"
    )
cid_path = "/tmp/audit3_C20/out/work/finding3_cid.csv"
with open(cid_path, "w") as cid_file:
    cid_file.write("d,format,delimited\nf,a,,,,FromFolder\n")
plugin_cid = interface.Cid()
interface.import_plugins(plugin_folder)
try:
    plugin_cid.read(cid_path, interface.rowio.auto_rows(cid_path))
    print("plugin field type 'FromFolder' resolves")
except errors.InterfaceError as error:
    print("plugin field type 'FromFolder' does NOT resolve:", str(error)[:110], "...")
    problems.append("plugin")
interface.Cid(cid_path)
print("(a Cid created after the import resolves it)")

print("violation present" if problems else "no violation")
sys.exit(1 if problems else 0)
