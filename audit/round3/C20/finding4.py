"""
Finding 4: validio.BaseValidator ("A general validator to validate a single row ... perform final
checks when done with all rows"; the base to derive validators for other row sources from) resets the
checks only in validate_row(). A run WITHOUT rows is closed without any reset (only Reader.close() got
that repair), so the end-of-data verdict of the checks is computed from what the previous, completely
finished run on the same Cid left behind, and reset() is not called at all for this data set.
"""
import sys

sys.path.insert(0, "/tmp/audit3_C20")
import io

from cutplace import checks, errors, interface, validio

CALLS = []


class SpyCheck(checks.AbstractCheck):
    def reset(self):
        CALLS.append("reset")

    def check_row(self, field_name_to_value_map, location):
        CALLS.append("row")

    def check_at_end(self, location):
        CALLS.append("end")

    def cleanup(self):
        CALLS.append("cleanup")


class ListValidator(validio.BaseValidator):
    """Validate rows that come from somewhere else, for example a database cursor."""

    def __init__(self, cid, rows):
        super().__init__(cid)
        self._location = errors.Location("<list>", has_cell=True)
        self._rows = rows

    def validate_all(self):
        for row in self._rows:
            self.validate_row(row)
            self._location.advance_line()


cid = interface.create_cid_from_string(
    "d,format,delimited\n" "f,branch\n" "c,spy,Spy,\n" "c,at most 2 branches,DistinctCount,branch <= 2\n"
)

# Run 1: a complete, closed run with 3 distinct branches; fails as it should.
try:
    validio.validate(cid, io.StringIO("a\nb\nc\n"))
    print("run 1: accepted (unexpected)")
except errors.CheckError as error:
    print("run 1 (Reader, 3 rows):", error)

# Run 2, strictly after run 1: a data set without any row.
del CALLS[:]
run_2_error = None
try:
    with ListValidator(cid, []) as validator:
        validator.validate_all()
    print("run 2 (BaseValidator, 0 rows): accepted")
except errors.CheckError as error:
    run_2_error = error
    print("run 2 (BaseValidator, 0 rows): REJECTED:", error)
print("calls of the spy check in run 2:", CALLS)
calls_in_run_2 = list(CALLS)

# For comparison: the same with a Reader.
del CALLS[:]
validio.validate(cid, io.StringIO("a\nb\nc\n"), validate_until=0)
print("calls of the spy check in a Reader run without rows:", CALLS)

has_violation = (run_2_error is not None) or (calls_in_run_2[:1] != ["reset"])
print("violation present" if has_violation else "no violation")
sys.exit(1 if has_violation else 0)
