"""
Finding 3: COLUMN_VALUE and NESTED_TABLE_ID are reserved words of Oracle SQL (cannot be used as
unquoted column names) but the PL/SQL dialect does not quote them.
"""
import sys

sys.path.insert(0, "/tmp/audit3_C19")
from cutplace import interface, sql  # noqa: E402

# Reserved words of Oracle SQL (SQL Language Reference, appendix "Oracle SQL Reserved Words";
# V$RESERVED_WORDS with RESERVED = 'Y') that are legal cutplace field names.
ORACLE_RESERVED = """access add all alter and any as asc audit between by char check cluster column
column_value comment compress connect create current date decimal default delete desc distinct drop
else exclusive exists file float for from grant group having identified immediate in increment index
initial insert integer intersect into is level like lock long maxextents minus mlslabel mode modify
nested_table_id noaudit nocompress not nowait null number of offline on online option or order pctfree
prior public raw rename resource revoke row rowid rownum rows select session set share size smallint
start successful synonym sysdate table then to trigger uid union unique update user validate values
varchar varchar2 view whenever where with""".split()

import keyword  # noqa: E402

violations = 0
for word in ORACLE_RESERVED:
    if keyword.iskeyword(word):
        continue  # cannot be a cutplace field name
    cid = interface.Cid()
    cid.read("finding3", [["d", "format", "delimited"], ["f", word, "", "", "...10"]])
    statement = sql.SqlFactory(cid, "t", sql.PL_SQL_DIALECT).create_table_statement()
    column_line = statement.split("\n")[1].strip()
    if not column_line.startswith('"%s" ' % word):
        print("VIOLATION: PL/SQL, field %r -> %s" % (word, column_line))
        violations += 1
print("violations: %d" % violations)
sys.exit(1 if violations else 0)
