"""
Finding 1: an Integer field whose bounded range does not fit the largest integer type of the
dialect gets decimal(<LIMIT VALUE>) / number(<LIMIT VALUE>, 0): the sign adjusted limit itself is
written where the number of digits (precision) belongs.
"""
import re
import sys

sys.path.insert(0, "/tmp/audit3_C19")
from cutplace import interface, sql  # noqa: E402

MAX_PRECISION = {sql.PL: 38, sql.DB2: 31, sql.TRANSACT: 38}
INT_CAPACITY = {
    "tinyint": (0, 2**8 - 1),
    "smallint": (-(2**15), 2**15 - 1),
    "int": (-(2**31), 2**31 - 1),
    "integer": (-(2**31), 2**31 - 1),
    "bigint": (-(2**63), 2**63 - 1),
}


def capacity(dialect_name, column_type):
    match = re.fullmatch(r"(\w+)(?:\((\d+)(?:, (\d+))?\))?", column_type)
    type_name, precision = match.group(1), match.group(2)
    if type_name in INT_CAPACITY:
        if dialect_name == sql.PL and type_name == "int":
            return -(10**38) + 1, 10**38 - 1  # Oracle: int is number(38)
        return INT_CAPACITY[type_name]
    if type_name in ("decimal", "number") and precision is not None:
        precision = int(precision)
        if precision > MAX_PRECISION[dialect_name]:
            return None  # no such type in this dialect
        return -(10**precision) + 1, 10**precision - 1
    return None


CASES = [
    # dialect, rule (all limits need at most 20 digits, every dialect has a type for that)
    (sql.PL_SQL_DIALECT, "0...3000000000"),  # e.g. a 10 digit id
    (sql.PL_SQL_DIALECT, "-2147483649...0"),
    (sql.DB2_SQL_DIALECT, "0...9223372036854775808"),
    (sql.TRANSACT_SQL_DIALECT, "0...18446744073709551615"),  # unsigned 64 bit
]

violations = 0
for dialect, rule in CASES:
    cid = interface.Cid()
    cid.read("finding1", [["d", "format", "delimited"], ["f", "big_id", "", "", "", "Integer", rule]])
    lower, upper = cid.field_formats[0].valid_range.lower_limit, cid.field_formats[0].valid_range.upper_limit
    statement = sql.SqlFactory(cid, "t", dialect).create_table_statement()
    column_type = re.search(r"big_id (.*?) not null", statement).group(1)
    limits = capacity(str(dialect), column_type)
    is_ok = limits is not None and limits[0] <= lower and upper <= limits[1]
    print("%-12s Integer %-28s -> %-38s %s" % (dialect, rule, column_type, "ok" if is_ok else "VIOLATION"))
    if not is_ok:
        violations += 1

print("violations: %d" % violations)
sys.exit(1 if violations else 0)
