"""
Finding 2: no CREATE TABLE statement at all (TypeError) for a CID holding an Integer or Decimal
field whose ``empty_value`` is a number - which is the type the API documentation asks for.
"""
import decimal
import sys

sys.path.insert(0, "/tmp/audit3_C19")
from cutplace import fields, interface, sql  # noqa: E402

violations = 0
for description, create_field in [
    (
        "IntegerFieldFormat('amount', True, '', '0...9', data_format, empty_value=0)",
        lambda data_format: fields.IntegerFieldFormat("amount", True, "", "0...9", data_format, empty_value=0),
    ),
    (
        "DecimalFieldFormat('amount', True, '', '0...9.99', data_format, empty_value=Decimal(0))",
        lambda data_format: fields.DecimalFieldFormat(
            "amount", True, "", "0...9.99", data_format, empty_value=decimal.Decimal(0)
        ),
    ),
]:
    cid = interface.Cid()
    cid.add_data_format_row(["format", "delimited"])
    cid.add_field_format(create_field(cid.data_format))
    cid.add_field_format(fields.TextFieldFormat("name", False, "...5", "", cid.data_format))
    print(description)
    print("  validated('') = %r" % cid.field_formats[0].validated(""))
    for dialect in (sql.ANSI_SQL_DIALECT, sql.DB2_SQL_DIALECT, sql.TRANSACT_SQL_DIALECT, sql.PL_SQL_DIALECT):
        try:
            statement = sql.SqlFactory(cid, "t", dialect).create_table_statement()
        except Exception as error:  # noqa: BLE001
            print("  %-12s VIOLATION: no statement: %s: %s" % (dialect, type(error).__name__, error))
            violations += 1
        else:
            lines = statement.split("\n")
            has_both_columns = (
                len(lines) == 4 and lines[1].strip().startswith("amount ") and lines[2].strip().startswith("name ")
            )
            print("  %-12s %s" % (dialect, " ".join(line.strip() for line in lines)))
            if not has_both_columns:
                print("    VIOLATION: not one column per field")
                violations += 1

print("violations: %d" % violations)
sys.exit(1 if violations else 0)
