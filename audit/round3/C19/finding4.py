"""
Finding 4: ``cutplace --create`` takes the table name from the file name of the CID without checking
that it is a name; a blank, hyphen, dot or leading digit in the file name ends up verbatim after
"create table", so the result is no CREATE TABLE statement with the columns of the CID.
"""
import os
import re
import shutil
import sys
import tempfile

sys.path.insert(0, "/tmp/audit3_C19")
from cutplace import applications  # noqa: E402

CID_TEXT = "d,format,delimited\nf,customer_id,,,,Integer,0...99999\nf,surname,,x,...60\n"
REGULAR_OR_QUOTED_NAME_REGEX = re.compile(r'^create table ([A-Za-z_][A-Za-z0-9_]*|"[^"]+") \($')

violations = 0
folder = tempfile.mkdtemp(prefix="finding4_")
try:
    for cid_name in ["customers.csv", "order items.csv", "2024-orders.csv", "customers.v2.csv"]:
        cid_path = os.path.join(folder, cid_name)
        with open(cid_path, "w", encoding="utf-8") as cid_file:
            cid_file.write(CID_TEXT)
        exit_code = applications.main(["cutplace", "--create", cid_path])
        with open(os.path.splitext(cid_path)[0] + "_create.sql", encoding="utf-8") as sql_file:
            first_line = sql_file.read().split("\n")[0]
        is_ok = REGULAR_OR_QUOTED_NAME_REGEX.match(first_line) is not None
        print("%-20s exit code %d: %-35s %s" % (cid_name, exit_code, first_line, "ok" if is_ok else "VIOLATION"))
        if not is_ok:
            violations += 1
finally:
    shutil.rmtree(folder)
print("violations: %d" % violations)
sys.exit(1 if violations else 0)
