"""
Finding 1: the data format property 'Line delimiter' is ignored when DELIMITED data are read.

A CID that declares 'Line delimiter: LF' (or CRLF, or CR)
 (a) reads a file whose rows end differently without any DataFormatError, in every error mode,
     although the same mismatch in FIXED data stops reading with a DataFormatError, and
 (b) splits the single LF-terminated data row 'x,a<CR>b<LF>' at the bare CR into two rows, so after a complete
     pass accepted_rows_count + rejected_rows_count == 2 although the data hold 1 row.

Exit code: 1 = violation present, 0 = not present.
"""
import sys

sys.path.insert(0, "/tmp/audit3_C06")
import io

from cutplace import errors, interface, validio

MODES = ("yield", "continue", "raise")


def run(cid, text, mode):
    reader = validio.Reader(cid, io.StringIO(text, newline=""), on_error=mode)
    items, raised = [], None
    try:
        for item in reader.rows():
            items.append(item)
    except errors.DataError as error:
        raised = error
    return items, raised, reader.accepted_rows_count, reader.rejected_rows_count


violations = []

# (a) rows ending in something else than the declared line delimiter
for declared, data_text in (("LF", "1,a\r\n2,b\r\n"), ("CRLF", "1,a\n2,b\n"), ("CR", "1,a\n2,b\n"), ("LF", "1,a\r2,b\r")):
    delimited_cid = interface.create_cid_from_string(
        "D,Format,Delimited\nD,Line delimiter,%s\nF,id,,,,Integer\nF,name\n" % declared
    )
    for mode in MODES:
        items, raised, accepted, rejected = run(delimited_cid, data_text, mode)
        print("delimited, declared %-4s data %-18r mode %-8s -> items=%r raised=%r" % (declared, data_text, mode, items, raised))
        if not isinstance(raised, errors.DataFormatError):
            violations.append("delimited data %r read without DataFormatError under Line delimiter %s (mode %s)" % (data_text, declared, mode))

# the same mismatch in fixed data is a DataFormatError (for comparison)
fixed_cid = interface.create_cid_from_string("D,Format,Fixed\nD,Line delimiter,LF\nF,id,,,1,Integer\nF,name,,,1\n")
items, raised, _, _ = run(fixed_cid, "1a\r\n2b\r\n", "yield")
print("fixed,     declared LF   data '1a\\r\\n2b\\r\\n' -> items=%r raised=%r" % (items, raised))

# (b) a bare CR inside an LF terminated row
lf_cid = interface.create_cid_from_string("D,Format,Delimited\nD,Line delimiter,LF\nF,id\nF,name\n")
data_text = "x,a\rb\n"
expected_data_rows = data_text.count("\n")  # rows are terminated by LF, as declared
for mode in ("yield", "continue"):
    items, raised, accepted, rejected = run(lf_cid, data_text, mode)
    print(
        "declared LF, data %r, mode %s -> items=%r raised=%r accepted=%r rejected=%r (LF terminated data rows: %d)"
        % (data_text, mode, [str(i) if isinstance(i, Exception) else i for i in items], raised, accepted, rejected, expected_data_rows)
    )
    if raised is None and (accepted + rejected) != expected_data_rows:
        violations.append(
            "counters add up to %d but the data hold %d LF terminated row(s) (mode %s)"
            % (accepted + rejected, expected_data_rows, mode)
        )

print()
if violations:
    print("VIOLATION PRESENT:")
    for violation in violations:
        print(" -", violation)
    sys.exit(1)
print("no violation")
sys.exit(0)
