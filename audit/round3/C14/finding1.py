"""
XlsxRowWriter: a row it rejects half way (a number Excel cannot store, such as NaN) leaves its
first cells in the sheet, and the next accepted row is written into the SAME sheet row, shifted
to the right.
"""
import sys

sys.path.insert(0, "/tmp/audit3_C14")
import os
import tempfile

from cutplace import errors, rowio

path = os.path.join(tempfile.mkdtemp(), "finding1.xlsx")
writer = rowio.XlsxRowWriter(path)
accepted = []
for row in (["a1", "b1", "c1"], ["a2", float("nan"), "c2"], ["a3", "b3", "c3"]):
    try:
        writer.write_row(row)
        accepted.append(row)
        print("accepted:", row)
    except Exception as error:  # noqa
        print("rejected:", row, "->", type(error).__name__, error)
writer.close()
read_back = list(rowio.excel_rows(path))
print("accepted rows:", accepted)
print("read back    :", read_back)
if read_back != accepted:
    print("VIOLATION: the sheet does not hold exactly the accepted rows")
    sys.exit(1)
print("ok")
sys.exit(0)
