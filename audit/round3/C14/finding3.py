"""
Fixed data with a header: Writer.write_row() does not validate header rows at all and hands them
to FixedRowWriter, whose only protection are assert statements.

 * normal mode: a heading longer than its field (or a header row with a different number of
   items) ends in an AssertionError instead of a CutplaceError,
 * python -O: the row is accepted and emitted as it is, the fixed layout of the file is broken and
   the file cannot be read back under the same CID.
"""
import subprocess
import sys

CHILD = r'''
import sys
sys.path.insert(0, "/tmp/audit3_C14")
import io
from cutplace import errors, interface, validio

CID_TEXT = "\n".join(["d,format,fixed", "d,header,1", "d,line delimiter,lf", "f,id,,,3", "f,nm,,,2"])
cid = interface.create_cid_from_string(CID_TEXT)
out = io.StringIO()
accepted = []
result = 0
with validio.Writer(cid, out) as writer:
    for row in (["ident", "nm"], ["id", "nm"], ["1", "ab"], ["2", "cd"]):
        try:
            writer.write_row(row)
            accepted.append(row)
            print("  accepted:", row)
        except errors.CutplaceError as error:
            print("  rejected:", row, "->", type(error).__name__, error)
        except Exception as error:
            print("  FAILED  :", row, "->", type(error).__name__, error)
            result = 1
print("  written : %r" % out.getvalue())
expected_data = [[a.ljust(3), b.ljust(2)] for a, b in accepted[1:]]
try:
    read_back = list(validio.rows(interface.create_cid_from_string(CID_TEXT), io.StringIO(out.getvalue())))
    print("  read back:", read_back)
    if read_back != expected_data:
        result = 1
except errors.CutplaceError as error:
    print("  read back FAILED:", type(error).__name__, error)
    result = 1
sys.exit(result)
'''

result = 0
for options in ([], ["-O"]):
    print("python %s:" % " ".join(options))
    exit_code = subprocess.call([sys.executable] + options + ["-W", "ignore", "-c", CHILD])
    if exit_code != 0:
        result = 1
if result:
    print("VIOLATION: header row neither rejected with a CutplaceError nor written in a form that can be read back")
else:
    print("ok")
sys.exit(result)
