"""
Delimited data whose items are separated by blanks ("item delimiter: space" together with
"skip initial space: true", i.e. columns separated by runs of blanks): the writer accepts a row
with an empty item and writes nothing at all for that item, so the row read back has fewer
items and is rejected under the same CID.
"""
import sys

sys.path.insert(0, "/tmp/audit3_C14")
import io

from cutplace import errors, interface, validio

CID_TEXT = "\n".join(
    [
        "d,format,delimited",
        "d,encoding,utf-8",
        "d,item delimiter,32",
        "d,skip initial space,true",
        "f,code,,,1...",
        "f,note,,x",
        "f,name,,x",
    ]
)
rows_to_write = [["1", "", "a"], ["2", "b", ""], ["3", "", ""], ["4", "c", "d"]]

cid = interface.create_cid_from_string(CID_TEXT)
out = io.StringIO()
accepted = []
with validio.Writer(cid, out) as writer:
    for row in rows_to_write:
        try:
            writer.write_row(row)
            accepted.append(row)
        except errors.CutplaceError as error:
            print("rejected by writer:", row, error)
print("accepted by writer:", accepted)
print("written           : %r" % out.getvalue())

read_back = list(validio.rows(interface.create_cid_from_string(CID_TEXT), io.StringIO(out.getvalue()), on_error="yield"))
for item in read_back:
    print("read back         :", repr(item) if isinstance(item, list) else "REJECTED: %s" % item)
if read_back != accepted:
    print("VIOLATION: rows accepted by the writer are rejected (or changed) when read back under the same CID")
    sys.exit(1)
print("ok")
sys.exit(0)
