"""
XlsxRowWriter accepts date / datetime / time items but stores them as plain numbers (no date
number format), so reading the workbook back gives the Excel serial number ('43832') instead of
the date, and a CID with a DateTime field rejects the row.
"""
import sys

sys.path.insert(0, "/tmp/audit3_C14")
import datetime
import os
import tempfile

from cutplace import interface, rowio, validio

path = os.path.join(tempfile.mkdtemp(), "finding4.xlsx")
rows_to_write = [["1", datetime.date(2020, 1, 2)], ["2", datetime.datetime(2020, 1, 2, 3, 4, 5)]]
with rowio.XlsxRowWriter(path) as writer:
    for row in rows_to_write:
        writer.write_row(row)
        print("accepted :", row)
raw = list(rowio.excel_rows(path))
print("excel_rows:", raw)

CID_TEXT = "\n".join(["d,format,excel", "f,id,,,,Integer", "f,day,,,,DateTime,YYYY-MM-DD hh:mm:ss"])
read_back = list(validio.rows(interface.create_cid_from_string(CID_TEXT), path, on_error="yield"))
for item in read_back:
    print("read back :", repr(item) if isinstance(item, list) else "REJECTED: %s" % item)
expected = [["1", "2020-01-02 00:00:00"], ["2", "2020-01-02 03:04:05"]]
if read_back != expected:
    print("VIOLATION: expected", expected)
    sys.exit(1)
print("ok")
sys.exit(0)
