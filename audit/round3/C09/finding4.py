"""
Finding 4: a length or rule that consists of commas only (or has empty parts
between commas) is accepted; a length of "," then refuses every value.
"""
import sys

sys.path.insert(0, "/tmp/audit3_C09")
import io
import warnings

warnings.simplefilter("ignore")
from cutplace import errors, interface, validio

CASES = [
    ('length ","', 'D,Format,delimited\nF,a,,,","\n'),
    ('length ",,,"', 'D,Format,delimited\nF,a,,,",,,"\n'),
    ('length "1,,2"', 'D,Format,delimited\nF,a,,,"1,,2"\n'),
    ('length ",1"', 'D,Format,delimited\nF,a,,,",1"\n'),
    ('Integer rule ","', 'D,Format,delimited\nF,a,,,,Integer,","\n'),
    ('Decimal rule ",,"', 'D,Format,delimited\nF,a,,,,Decimal,",,"\n'),
    ('Allowed characters ","', 'D,Format,delimited\nD,Allowed characters,","\nF,a\n'),
]

violations = 0
for description, cid_text in CASES:
    try:
        cid = interface.create_cid_from_string(cid_text)
        print("%-28s -> accepted; length=%r (items=%r)" % (description, str(cid.field_formats[0].length), cid.field_formats[0].length.items))
        violations += 1
    except errors.InterfaceError as error:
        print("%-28s -> refused: %s" % (description, error))

print()
print('what the accepted length "," means for data (field a, not allowed to be empty):')
try:
    cid = interface.create_cid_from_string('D,Format,delimited\nF,a,,,","\n')
    for value in ("x", "xx", "xxx"):
        try:
            validio.validate(cid, io.StringIO(value + "\n"))
            print("  %r accepted" % value)
        except errors.DataError as error:
            print("  %r rejected: %s" % (value, error))
except errors.InterfaceError as error:
    print("  CID refused: %s" % error)

print("VIOLATION PRESENT" if violations else "no violation")
sys.exit(1 if violations else 0)
