"""
Finding 3: whether a length or rule with overlapping parts is refused depends
on the order in which the parts are written.
"""
import sys

sys.path.insert(0, "/tmp/audit3_C09")
import warnings

warnings.simplefilter("ignore")
from cutplace import errors, interface

PAIRS = [
    ("1...10, 5...6", "5...6, 1...10"),
    ("1...10, 5", "5, 1...10"),
    ("...10, 5...6", "5...6, ...10"),
    ("1..., 5", "5, 1..."),
    ("...10, ...3", "...3, ...10"),
    ("1..., 5...", "5..., 1..."),
]


def verdict(cid_text):
    try:
        interface.create_cid_from_string(cid_text)
        return "accepted"
    except errors.InterfaceError as error:
        return "refused (%s)" % error


violations = 0
for kind, template in (
    ("length of a Text field", 'D,Format,delimited\nF,a,,,"%s"\n'),
    ("rule of an Integer field", 'D,Format,delimited\nF,a,,,,Integer,"%s"\n'),
    ("rule of a Decimal field", 'D,Format,delimited\nF,a,,,,Decimal,"%s"\n'),
    ("allowed characters", 'D,Format,delimited\nD,Allowed characters,"%s"\nF,a\n'),
):
    for one, other in PAIRS:
        verdict_one = verdict(template % one)
        verdict_other = verdict(template % other)
        is_same = verdict_one.split(" ")[0] == verdict_other.split(" ")[0]
        print("%s: %-15r -> %s" % (kind, one, verdict_one.split(" ")[0]))
        print("%s: %-15r -> %s%s" % (kind, other, verdict_other.split(" ")[0], "" if is_same else "   <-- differs"))
        if not is_same:
            violations += 1

print("%d pairs with an order dependent verdict" % violations)
print("VIOLATION PRESENT" if violations else "no violation")
sys.exit(1 if violations else 0)
