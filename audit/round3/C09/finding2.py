"""
Finding 2: a data format property that contradicts another one is reported at a
row after the end of the CID instead of at the offending row.
"""
import sys

sys.path.insert(0, "/tmp/audit3_C09")
import warnings

warnings.simplefilter("ignore")
from cutplace import errors, interface

CASES = [
    # (description, CID text, rows that may be named)
    (
        "thousands separator '.' in row 2 clashes with the default decimal separator",
        "D,Format,delimited\nD,Thousands separator,.\nF,a\nF,b\n",
        (2,),
    ),
    (
        "item delimiter line feed in row 2",
        "D,Format,delimited\nD,Item delimiter,Lf\nF,a\n",
        (2,),
    ),
    (
        "item delimiter (row 2) and quote character (row 3) are both ';', followed by fields and comment rows",
        "D,Format,delimited\nD,Item delimiter,;\nD,Quote character,;\nF,a\nF,b\n,comment\n,comment\n",
        (2, 3),
    ),
    (
        "fixed: decimal separator (row 2) and thousands separator (row 3) are both ','",
        'D,Format,fixed\nD,Decimal separator,","\nD,Thousands separator,","\nF,a,,,3\n',
        (2, 3),
    ),
]

violations = 0
for description, cid_text, possible_rows in CASES:
    row_count = len(cid_text.splitlines())
    print("%s (CID has %d rows)" % (description, row_count))
    try:
        interface.create_cid_from_string(cid_text)
        print("  CID accepted?!")
        violations += 1
    except errors.InterfaceError as error:
        named_row = error.location.line + 1
        print("  InterfaceError: %s" % error)
        print("  expected row named: %s, observed: %d" % (" or ".join(map(str, possible_rows)), named_row))
        if named_row not in possible_rows:
            violations += 1

print("VIOLATION PRESENT" if violations else "no violation")
sys.exit(1 if violations else 0)
