"""
Finding 5: the rule of a DistinctCount check may use the name "count" although
no field of that name is declared.
"""
import sys

sys.path.insert(0, "/tmp/audit3_C09")
import io
import warnings

warnings.simplefilter("ignore")
from cutplace import errors, interface, validio

violations = 0
for rule in ("branch_id > 1 and count < 5", "branch_id < count + 1", "branch_id == count"):
    cid_text = "D,Format,delimited\nF,branch_id\nF,customer_id\nC,distinct branches,DistinctCount,%s\n" % rule
    print("declared fields: branch_id, customer_id; DistinctCount rule: %r" % rule)
    try:
        cid = interface.create_cid_from_string(cid_text)
        print("  accepted, checks=%s" % cid.check_names)
        violations += 1
    except errors.InterfaceError as error:
        print("  refused: %s" % error)

print("for comparison, other undeclared names:")
for rule in ("branch_id > 1 and other < 5", "branch_id > 1 and customer_id < 5"):
    cid_text = "D,Format,delimited\nF,branch_id\nF,customer_id\nC,distinct branches,DistinctCount,%s\n" % rule
    try:
        interface.create_cid_from_string(cid_text)
        print("  %r accepted" % rule)
    except errors.InterfaceError as error:
        print("  %r refused: %s" % (rule, error))

print("VIOLATION PRESENT" if violations else "no violation")
sys.exit(1 if violations else 0)
