"""
Finding 1: a CSV CID with an undecodable byte is refused with an InterfaceError
that names the wrong row (row 1, or wherever the 8 KB read-ahead started).
"""
import sys

sys.path.insert(0, "/tmp/audit3_C09")
import os
import tempfile
import warnings

warnings.simplefilter("ignore")
from cutplace import errors, interface


def named_row(cid_bytes):
    folder = tempfile.mkdtemp(prefix="finding1_")
    cid_path = os.path.join(folder, "cid.csv")
    with open(cid_path, "wb") as cid_file:
        cid_file.write(cid_bytes)
    try:
        interface.Cid(cid_path)
    except errors.InterfaceError as error:
        print("  InterfaceError: %s" % error)
        return error.location.line + 1
    finally:
        os.remove(cid_path)
        os.rmdir(folder)
    print("  CID accepted?!")
    return None


violations = 0

print("case 1: byte 0xE9 (latin-1 e acute, no valid UTF-8) in a comment cell of row 5 of a 6 row CID")
small_cid = b"D,Format,delimited\nF,a\nF,b\nF,c\nF,d,,,,,,caf\xe9\nF,e\n"
row = named_row(small_cid)
print("  expected row named: 5, observed: %s" % row)
if row != 5:
    violations += 1

print("case 2: the same broken row as row 3002 of a long CID")
long_cid = b"D,Format,delimited\n" + b"".join(b"F,f%d\n" % number for number in range(3000)) + b"F,d,,,,,,caf\xe9\nF,e\n"
row = named_row(long_cid)
print("  expected row named: 3002, observed: %s" % row)
if row != 3002:
    violations += 1

print("VIOLATION PRESENT" if violations else "no violation")
sys.exit(1 if violations else 0)
