"""
Finding 6: the rule of an IsUnique check is refused if the field names are
separated by a comma and a line break (a cell with two lines), although line
breaks are accepted in every other rule and length that is a list.
"""
import sys

sys.path.insert(0, "/tmp/audit3_C09")
import warnings

warnings.simplefilter("ignore")
from cutplace import errors, interface

FIELDS = "D,Format,delimited\nF,branch_id\nF,customer_id\n"


def verdict(description, cid_text):
    try:
        cid = interface.create_cid_from_string(cid_text)
        print("%-62s -> accepted" % description)
        return True
    except errors.InterfaceError as error:
        print("%-62s -> refused: %s" % (description, error))
        return False


violations = 0
if not verdict('IsUnique rule "branch_id,<LF>customer_id"', FIELDS + 'C,customer must be unique,IsUnique,"branch_id,\ncustomer_id"\n'):
    violations += 1
if not verdict('IsUnique rule "branch_id,<CR><LF>customer_id"', FIELDS + 'C,customer must be unique,IsUnique,"branch_id,\r\ncustomer_id"\n'):
    violations += 1
if not verdict('IsUnique rule "branch_id<LF>, customer_id"', FIELDS + 'C,customer must be unique,IsUnique,"branch_id\n, customer_id"\n'):
    violations += 1
print("for comparison:")
verdict('IsUnique rule "branch_id,<TAB>customer_id"', FIELDS + 'C,customer must be unique,IsUnique,"branch_id,\tcustomer_id"\n')
verdict('Choice rule with a line break after the comma', 'D,Format,delimited\nF,color,,,,Choice,"""red"",\n""green"""\n')
verdict('length "1...3,<LF>5"', 'D,Format,delimited\nF,a,,,"1...3,\n5"\n')
verdict('Integer rule "1...3,<LF>5"', 'D,Format,delimited\nF,a,,,,Integer,"1...3,\n5"\n')

print("VIOLATION PRESENT" if violations else "no violation")
sys.exit(1 if violations else 0)
