"""
Finding 2: a run of a BaseValidator descendant that ends without any row is finished with the
check state the previous (already completed) run on the same Cid has left behind.

BaseValidator.validate_row() resets the checks at the first row of a run and Reader.close()
resets them when no row was requested, but BaseValidator.close() itself does not. A validator that
feeds its rows to validate_row() itself (the use case of commit 730f34d) and happens to get no
row at all therefore evaluates DistinctCount over the rows of the previous data set.

Exit code 1 = violation present, 0 = not present.
"""
import sys

sys.path.insert(0, "/tmp/audit3_C05")
import io
import warnings

warnings.simplefilter("ignore")

from cutplace import errors, interface, validio

CID_TEXT = "D,Format,Delimited\n" "F,branch\n" "C,at most one branch,DistinctCount,branch < 2\n"


class RowFeedValidator(validio.BaseValidator):
    """
    A validator for rows that come from somewhere else (a database cursor, a message queue...),
    as described by the docstring of BaseValidator: the descendant only has to set the location.
    """

    def __init__(self, cid, name):
        super().__init__(cid)
        self._location = errors.Location(name, has_cell=True)

    def feed(self, rows):
        for row in rows:
            self.validate_row(row)
            self.location.advance_line()


cid = interface.create_cid_from_string(CID_TEXT)

# Run 1: a complete, sequential run with 3 distinct branches; it properly fails at its end.
print("run 1: reader over 3 rows with 3 distinct branches")
try:
    validio.validate(cid, io.StringIO("a\nb\nc\n"))
    print("  unexpected: run 1 succeeded")
except errors.CheckError as error:
    print("  run 1 failed as it should: %s" % error)

# Run 2: another data set, which is empty. 0 distinct values satisfy 'branch < 2'.
print("run 2: row feed validator over an empty data set")
violation = False
with_rows = RowFeedValidator(cid, "<empty feed>")
with_rows.feed([])
try:
    with_rows.close()
    print("  run 2 finished without error (expected)")
except errors.CheckError as error:
    print("  VIOLATION: run 2 has 0 distinct values but fails with: %s" % error)
    violation = True

# For comparison: with one row the run is reset and passes.
print("run 3: row feed validator over one row")
one_row = RowFeedValidator(cid, "<one row feed>")
one_row.feed([["a"]])
try:
    one_row.close()
    print("  run 3 finished without error (expected)")
except errors.CheckError as error:
    print("  run 3 failed: %s" % error)
    violation = True

sys.exit(1 if violation else 0)
