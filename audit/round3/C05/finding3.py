"""
Finding 3 (marginal): the comparison operators 'is' and 'is not' are accepted in a DistinctCount rule
(they are ast.cmpop nodes and pass _validated_expression), but compare object identity. For counts
outside CPython's cache of small integers (-5...256) 'field is n' fails although the count equals n
and 'field is not n' passes although the count equals n; up to 256 they behave like == and !=.

Exit code 1 = violation present, 0 = not present (rule refused or evaluated by value).
"""
import sys

sys.path.insert(0, "/tmp/audit3_C05")
import io
import warnings

warnings.simplefilter("ignore")

from cutplace import errors, interface, validio


def end_of_validation(rule, distinct_count):
    cid_text = "D,Format,Delimited\nF,customer_id\nC,number of customers,DistinctCount,%s\n" % rule
    try:
        cid = interface.create_cid_from_string(cid_text)
    except errors.InterfaceError as error:
        return "refused: %s" % error
    data = "".join("%d\n" % customer_id for customer_id in range(distinct_count))
    try:
        validio.validate(cid, io.StringIO(data))
    except errors.CheckError as error:
        return "fails: %s" % error
    return "passes"


violations = 0
for rule, distinct_count, expected in [
    ("customer_id is 2", 2, "passes"),
    ("customer_id is 300", 300, "passes"),
    ("customer_id is not 300", 300, "fails"),
    ("customer_id is not 300", 299, "passes"),
]:
    observed = end_of_validation(rule, distinct_count)
    print("rule %r, %d distinct values: expected %s, observed %s" % (rule, distinct_count, expected, observed))
    if not observed.startswith("refused") and not observed.startswith(expected):
        print("  VIOLATION")
        violations += 1
sys.exit(1 if violations else 0)
