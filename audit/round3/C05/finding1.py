"""
Finding 1: IsUnique and DistinctCount compare the raw text of a cell, not the value of the field.

Rows whose key fields hold the same value (as the field formats themselves
understand it, and as docs/api.rst promises to hand to the checks: "a dictionary
which maps the field name to its native value", e.g. 'customer_id': 96) but are
spelled differently are all accepted by IsUnique, and are counted as different
values by DistinctCount.

Exit code 1 = violation present, 0 = not present.
"""
import sys

sys.path.insert(0, "/tmp/audit3_C05")
import io
import warnings

warnings.simplefilter("ignore")

from cutplace import errors, interface, validio


def outcome(cid_text, data_text):
    """
    (rows accepted, errors of rejected rows, error of close() or None)
    """
    cid = interface.create_cid_from_string(cid_text)
    reader = validio.Reader(cid, io.StringIO(data_text), on_error="yield")
    accepted = []
    rejected = []
    for item in reader.rows():
        if isinstance(item, errors.DataError):
            rejected.append(str(item))
        else:
            accepted.append(item)
    end_error = None
    try:
        reader.close()
    except errors.CheckError as error:
        end_error = str(error)
    return accepted, rejected, end_error


violations = 0

# Case A: fixed width data; the padding of a cell is not part of its value
# (validated() strips it, Writer adds it), yet it is part of the key.
FIXED_CID = (
    "D,Format,Fixed\n"
    "D,Line delimiter,lf\n"
    "F,customer_id,,,3,Integer\n"
    "F,name,,,2\n"
    "C,customer must be unique,IsUnique,customer_id\n"
)
FIXED_DATA = "7  aa\n 7 bb\n  7cc\n"
accepted, rejected, end_error = outcome(FIXED_CID, FIXED_DATA)
print("A) fixed, IsUnique customer_id, data %r" % FIXED_DATA)
print("   accepted=%r rejected=%r" % (accepted, rejected))
if len(accepted) != 1 or len(rejected) != 2:
    print("   VIOLATION: customer 7 occurs 3 times, expected rows 2 and 3 to be rejected with a reference to row 1")
    violations += 1

# Case B: the same with DistinctCount.
FIXED_CID_B = (
    "D,Format,Fixed\n"
    "D,Line delimiter,lf\n"
    "F,customer_id,,,3,Integer\n"
    "F,name,,,2\n"
    "C,only one customer,DistinctCount,customer_id == 1\n"
)
accepted, rejected, end_error = outcome(FIXED_CID_B, FIXED_DATA)
print("B) fixed, DistinctCount customer_id == 1, same data")
print("   end of validation: %r" % end_error)
if end_error is not None:
    print("   VIOLATION: there is 1 distinct customer_id (7) but finishing the validation fails")
    violations += 1

# Case C: delimited data, typed fields.
DELIMITED_CID = (
    "D,Format,Delimited\n"
    "F,customer_id,,,,Integer\n"
    "F,amount,,,,Decimal\n"
    "F,day,,,,DateTime,DD.MM.YYYY\n"
    "C,customer must be unique,IsUnique,customer_id\n"
    "C,amount must be unique,IsUnique,amount\n"
    "C,only one day,DistinctCount,day == 1\n"
)
DELIMITED_DATA = "96,1.5,01.02.2020\n096,1.50,01.02.2020\n"
accepted, rejected, end_error = outcome(DELIMITED_CID, DELIMITED_DATA)
print("C) delimited, IsUnique over Integer and Decimal field, data %r" % DELIMITED_DATA)
print("   accepted=%r rejected=%r end=%r" % (accepted, rejected, end_error))
if len(accepted) != 1:
    print("   VIOLATION: customer_id 96 == 096 and amount 1.5 == 1.50, expected row 2 to be rejected")
    violations += 1

# Case D: the writer, fixed data.
cid = interface.create_cid_from_string(FIXED_CID)
target = io.StringIO()
writer = validio.Writer(cid, target)
written = []
for row in (["7", "aa"], [" 7", "bb"], ["  7", "cc"]):
    try:
        writer.write_row(row)
        written.append(row)
    except errors.CheckError as error:
        print("   writer rejected %r: %s" % (row, error))
writer.close()
print("D) fixed Writer wrote %r" % target.getvalue())
if len(written) != 1:
    print("   VIOLATION: customer 7 has been written %d times despite IsUnique" % len(written))
    violations += 1

print("violations: %d" % violations)
sys.exit(1 if violations else 0)
