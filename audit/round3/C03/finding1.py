"""
Finding 1: in fixed-width data a cell consisting only of blanks (as str.strip()
understands blanks, e.g. tabs) is refused although its field is marked as
allowed to be empty, as soon as one of the blanks is not U+0020 and lies
outside the allowed characters - or, variant (b), as soon as the cell mixes an
allowed blank (tab) with the padding blanks U+0020 that are not in the range.

Exit code 1: violation present, 0: not present.
"""
import io
import sys

sys.path.insert(0, "/tmp/audit3_C03")

from cutplace import errors, interface, validio  # noqa: E402

violations = 0


def check(title, cid_text, data, expect_accepted):
    global violations
    cid = interface.create_cid_from_string(cid_text)
    try:
        rows = list(validio.Reader(cid, io.StringIO(data, newline="")).rows())
        accepted, detail = True, rows
    except errors.DataError as error:
        accepted, detail = False, error
    print("%s\n  data=%r\n  expected accepted=%s, observed accepted=%s (%s)" % (title, data, expect_accepted, accepted, detail))
    if accepted != expect_accepted:
        violations += 1
        print("  --> VIOLATION")


CID_A = "\n".join(
    [
        "D,Format,Fixed",
        "D,Line delimiter,LF",
        "D,Allowed characters,32...126",
        "F,may_be_empty,,X,3,Text",
        "F,other,,,1,Text",
    ]
) + "\n"
# Control: blanks U+0020 only.
check("(control) empty cell of U+0020, field may be empty", CID_A, "   x\n", True)
# The cell '\t\t\t' is empty (str.strip() removes everything), the field may be empty.
check("(a) empty cell of tabs, field may be empty, tab not an allowed character", CID_A, "\t\t\tx\n", True)
check("(a) empty cell ' \\t ', field may be empty", CID_A, " \t x\n", True)

CID_B = "\n".join(
    [
        "D,Format,Fixed",
        "D,Line delimiter,LF",
        'D,Allowed characters,"9, 33..."',
        "F,may_be_empty,,X,3,Text",
        "F,other,,,1,Text",
    ]
) + "\n"
check("(control) empty cell of U+0020 although U+0020 is not allowed", CID_B, "   x\n", True)
check("(b) empty cell '\\t  ': the tab is allowed, the padding U+0020 is 'exempt'", CID_B, "\t  x\n", True)

# Same through the writer: the writer itself pads '\t' with U+0020 and then refuses its own padding.
cid = interface.create_cid_from_string(CID_B)
out = io.StringIO()
writer = validio.Writer(cid, out)
try:
    writer.write_row(["\t", "x"])
    print("(b) Writer.write_row(['\\t', 'x']) accepted, wrote %r" % out.getvalue())
except errors.DataError as error:
    violations += 1
    print("(b) Writer.write_row(['\\t', 'x']) refused: %s\n  --> VIOLATION" % error)
writer.close()

print("violations: %d" % violations)
sys.exit(1 if violations else 0)
