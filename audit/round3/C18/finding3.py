"""
A Decimal rule with a very small exponent is accepted when the CID is loaded
and accepts values in range, but every value that has to be REJECTED ends in
an OverflowError while the error message is built: exit code 4 instead of 1,
and cutplace.validate() raises OverflowError instead of a CutplaceError.
"""
import shutil
import sys
import warnings

warnings.simplefilter("ignore")

# --- helpers (run the real command in a sub process) ---
import os
import subprocess
import sys
import tempfile

ROOT = "/tmp/audit3_C18"
sys.path.insert(0, ROOT)
_RUN = "import sys; sys.path.insert(0, %r); from cutplace.applications import main_for_script; main_for_script()" % ROOT


def work_dir():
    return tempfile.mkdtemp(prefix="finding_", dir=os.path.join(ROOT, "out"))


def write(folder, name, content):
    path = os.path.join(folder, name)
    mode = "wb" if isinstance(content, bytes) else "w"
    kwargs = {} if isinstance(content, bytes) else {"encoding": "utf-8", "newline": ""}
    with open(path, mode, **kwargs) as target:
        target.write(content)
    return path


def cutplace_exit_code(*args):
    """Exit code of ``cutplace args...`` run as a separate process."""
    process = subprocess.run(
        [sys.executable, "-W", "ignore", "-c", _RUN] + list(args), cwd=ROOT, capture_output=True, text=True
    )
    last_lines = [line for line in process.stderr.splitlines() if line.strip()][-2:]
    print("  $ cutplace %s\n    -> exit code %d   %s" % (" ".join(args), process.returncode, " | ".join(last_lines)[:200]))
    return process.returncode


def api_accepts(cid_path, data_path, validate_until=None):
    """True if cutplace.validate() accepts, False if it raises a CutplaceError."""
    import cutplace
    from cutplace import errors

    try:
        cutplace.validate(cid_path, data_path, validate_until=validate_until)
        return True
    except errors.CutplaceError:
        return False
# --- end of helpers ---


folder = work_dir()
try:
    cid = write(folder, "cid.csv", "d,format,delimited\nd,encoding,utf-8\nf,amount,,,,Decimal,0...1e-3000000000\n")
    inside = write(folder, "inside.csv", "0\n")
    outside = write(folder, "outside.csv", "5\n")
    cid_code = cutplace_exit_code(cid)
    inside_code = cutplace_exit_code(cid, inside)
    outside_code = cutplace_exit_code(cid, outside)
    import cutplace
    from cutplace import errors

    try:
        cutplace.validate(cid, outside)
        api_result = "accepted"
    except errors.CutplaceError as error:
        api_result = "rejected"
    except Exception as error:
        api_result = "%s: %s" % (type(error).__name__, error)
    print("cutplace.validate(cid, outside.csv):", api_result)
finally:
    shutil.rmtree(folder, ignore_errors=True)

print("CID alone: %d, value in range: %d, value out of range: %d (expected 1)" % (cid_code, inside_code, outside_code))
# Acceptable after a repair: the value is rejected (1), or the rule is refused when the CID is read (1, 1, 1).
is_violated = (outside_code != 1) or (cid_code not in (0, 1)) or (inside_code not in (0, 1))
print("VIOLATION" if is_violated else "ok")
sys.exit(1 if is_violated else 0)
