"""
--plugins with a folder that does not exist (or that is a plain file) is not
an error at all: nothing is imported, no message above INFO appears and the
command carries on and exits 0. An argument that cannot be used must give 2
(or, seen as a named file system object that cannot be read, 3).
"""
import shutil
import sys
import warnings

warnings.simplefilter("ignore")

# --- helpers (run the real command in a sub process) ---
import os
import subprocess
import sys
import tempfile

ROOT = "/tmp/audit3_C18"
sys.path.insert(0, ROOT)
_RUN = "import sys; sys.path.insert(0, %r); from cutplace.applications import main_for_script; main_for_script()" % ROOT


def work_dir():
    return tempfile.mkdtemp(prefix="finding_", dir=os.path.join(ROOT, "out"))


def write(folder, name, content):
    path = os.path.join(folder, name)
    mode = "wb" if isinstance(content, bytes) else "w"
    kwargs = {} if isinstance(content, bytes) else {"encoding": "utf-8", "newline": ""}
    with open(path, mode, **kwargs) as target:
        target.write(content)
    return path


def cutplace_exit_code(*args):
    """Exit code of ``cutplace args...`` run as a separate process."""
    process = subprocess.run(
        [sys.executable, "-W", "ignore", "-c", _RUN] + list(args), cwd=ROOT, capture_output=True, text=True
    )
    last_lines = [line for line in process.stderr.splitlines() if line.strip()][-2:]
    print("  $ cutplace %s\n    -> exit code %d   %s" % (" ".join(args), process.returncode, " | ".join(last_lines)[:200]))
    return process.returncode


def api_accepts(cid_path, data_path, validate_until=None):
    """True if cutplace.validate() accepts, False if it raises a CutplaceError."""
    import cutplace
    from cutplace import errors

    try:
        cutplace.validate(cid_path, data_path, validate_until=validate_until)
        return True
    except errors.CutplaceError:
        return False
# --- end of helpers ---


folder = work_dir()
try:
    cid = write(folder, "cid.csv", "d,format,delimited\nd,encoding,utf-8\nf,amount,,,,Integer\n")
    good = write(folder, "good.csv", "1\n2\n")
    no_such_folder = folder + "/no_such_folder"
    codes = [
        cutplace_exit_code("--plugins", no_such_folder, cid, good),
        cutplace_exit_code("-P", good, cid, good),  # a plain file instead of a folder
        cutplace_exit_code("--plugins", no_such_folder, cid),
    ]
finally:
    shutil.rmtree(folder, ignore_errors=True)

is_violated = any(code not in (2, 3) for code in codes)
print("expected 2 (or 3) each, observed %s" % codes)
print("VIOLATION" if is_violated else "ok")
sys.exit(1 if is_violated else 0)
