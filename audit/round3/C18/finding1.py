"""
With --create the data files named on the command line are silently ignored:
the exit code is 0 although a file is rejected by the API (should be 1) or
does not even exist (should be 3).
"""
import shutil
import sys
import warnings

warnings.simplefilter("ignore")

# --- helpers (run the real command in a sub process) ---
import os
import subprocess
import sys
import tempfile

ROOT = "/tmp/audit3_C18"
sys.path.insert(0, ROOT)
_RUN = "import sys; sys.path.insert(0, %r); from cutplace.applications import main_for_script; main_for_script()" % ROOT


def work_dir():
    return tempfile.mkdtemp(prefix="finding_", dir=os.path.join(ROOT, "out"))


def write(folder, name, content):
    path = os.path.join(folder, name)
    mode = "wb" if isinstance(content, bytes) else "w"
    kwargs = {} if isinstance(content, bytes) else {"encoding": "utf-8", "newline": ""}
    with open(path, mode, **kwargs) as target:
        target.write(content)
    return path


def cutplace_exit_code(*args):
    """Exit code of ``cutplace args...`` run as a separate process."""
    process = subprocess.run(
        [sys.executable, "-W", "ignore", "-c", _RUN] + list(args), cwd=ROOT, capture_output=True, text=True
    )
    last_lines = [line for line in process.stderr.splitlines() if line.strip()][-2:]
    print("  $ cutplace %s\n    -> exit code %d   %s" % (" ".join(args), process.returncode, " | ".join(last_lines)[:200]))
    return process.returncode


def api_accepts(cid_path, data_path, validate_until=None):
    """True if cutplace.validate() accepts, False if it raises a CutplaceError."""
    import cutplace
    from cutplace import errors

    try:
        cutplace.validate(cid_path, data_path, validate_until=validate_until)
        return True
    except errors.CutplaceError:
        return False
# --- end of helpers ---


folder = work_dir()
try:
    cid = write(folder, "cid.csv", "d,format,delimited\nd,encoding,utf-8\nf,amount,,,,Integer\n")
    bad = write(folder, "bad.csv", "1\nx\n")
    missing = folder + "/no_such_file.csv"
    print("API accepts bad.csv:", api_accepts(cid, bad))
    print("Without --create:")
    plain_rejected = cutplace_exit_code(cid, bad)
    plain_missing = cutplace_exit_code(cid, missing)
    print("With --create:")
    create_rejected = cutplace_exit_code("--create", cid, bad)
    create_missing = cutplace_exit_code("--create", cid, missing)
    create_short = cutplace_exit_code("-C", cid, bad, missing)
finally:
    shutil.rmtree(folder, ignore_errors=True)

assert (plain_rejected, plain_missing) == (1, 3), "baseline changed"
# Acceptable after a repair: judge the files (1 / 3) or refuse the combination as unusable arguments (2).
is_violated = (create_rejected == 0) or (create_missing == 0) or (create_short == 0)
print("VIOLATION" if is_violated else "ok")
sys.exit(1 if is_violated else 0)
