"""
A data file for an Excel CID that can be opened but not be read (the read
fails with an OSError) is reported as rejected data (exit code 1) instead of
"file cannot be read" (exit code 3). The same unreadable file under a
delimited or fixed CID gives 3.

Demonstrated with /proc/self/mem: open() succeeds, the first read() fails
with EIO. (Any I/O error after the successful open() takes the same path:
network share gone, bad sector, ...)
"""
import shutil
import sys
import warnings

warnings.simplefilter("ignore")

# --- helpers (run the real command in a sub process) ---
import os
import subprocess
import sys
import tempfile

ROOT = "/tmp/audit3_C18"
sys.path.insert(0, ROOT)
_RUN = "import sys; sys.path.insert(0, %r); from cutplace.applications import main_for_script; main_for_script()" % ROOT


def work_dir():
    return tempfile.mkdtemp(prefix="finding_", dir=os.path.join(ROOT, "out"))


def write(folder, name, content):
    path = os.path.join(folder, name)
    mode = "wb" if isinstance(content, bytes) else "w"
    kwargs = {} if isinstance(content, bytes) else {"encoding": "utf-8", "newline": ""}
    with open(path, mode, **kwargs) as target:
        target.write(content)
    return path


def cutplace_exit_code(*args):
    """Exit code of ``cutplace args...`` run as a separate process."""
    process = subprocess.run(
        [sys.executable, "-W", "ignore", "-c", _RUN] + list(args), cwd=ROOT, capture_output=True, text=True
    )
    last_lines = [line for line in process.stderr.splitlines() if line.strip()][-2:]
    print("  $ cutplace %s\n    -> exit code %d   %s" % (" ".join(args), process.returncode, " | ".join(last_lines)[:200]))
    return process.returncode


def api_accepts(cid_path, data_path, validate_until=None):
    """True if cutplace.validate() accepts, False if it raises a CutplaceError."""
    import cutplace
    from cutplace import errors

    try:
        cutplace.validate(cid_path, data_path, validate_until=validate_until)
        return True
    except errors.CutplaceError:
        return False
# --- end of helpers ---


UNREADABLE = "/proc/self/mem"
try:
    with open(UNREADABLE, "rb") as probe:
        try:
            probe.read(8)
            print("precondition not met: %s can be read here; nothing to demonstrate" % UNREADABLE)
            sys.exit(0)
        except OSError as error:
            print("open(%r) works, read() fails with: %s" % (UNREADABLE, error))
except OSError as error:
    print("precondition not met: cannot open %s: %s" % (UNREADABLE, error))
    sys.exit(0)

folder = work_dir()
try:
    delimited_cid = write(folder, "cid_delimited.csv", "d,format,delimited\nd,encoding,utf-8\nf,a\n")
    fixed_cid = write(folder, "cid_fixed.csv", "d,format,fixed\nd,encoding,utf-8\nf,a,,,1\n")
    excel_cid = write(folder, "cid_excel.csv", "d,format,excel\nf,a\n")
    delimited_code = cutplace_exit_code(delimited_cid, UNREADABLE)
    fixed_code = cutplace_exit_code(fixed_cid, UNREADABLE)
    excel_code = cutplace_exit_code(excel_cid, UNREADABLE)
finally:
    shutil.rmtree(folder, ignore_errors=True)

assert (delimited_code, fixed_code) == (3, 3), "baseline changed"
is_violated = excel_code != 3
print("excel: expected 3, observed %d" % excel_code)
print("VIOLATION" if is_violated else "ok")
sys.exit(1 if is_violated else 0)
