"""
Finding 1: an Integer field that declares only a length (no rule) rejects
integers whose text fits the length but has leading zeros (or is zero).
Exit code 1 = violation present, 0 = repaired.
"""
import io
import os
import sys
import tempfile

sys.path.insert(0, "/tmp/audit3_C02")

from cutplace import errors, interface, validio  # noqa: E402

violations = 0


def check(title, cid_text, cell, expected_value):
    global violations
    cid = interface.create_cid_from_string(cid_text)
    field = cid.field_formats[0]
    try:
        actual = field.validated(cell)
        verdict = "accepted as %r" % (actual,)
        ok = actual == expected_value
    except errors.FieldValueError as error:
        verdict = "REJECTED: %s" % error
        ok = False
    print("%-34s cell %-7r expected int %-3r -> %s" % (title, cell, expected_value, verdict))
    if not ok:
        violations += 1


LENGTH_2 = "d,format,delimited\nf,x,,,2,Integer\n"
LENGTH_2_3 = "d,format,delimited\nf,x,,,2...3,Integer\n"
LENGTH_3_OPEN = "d,format,excel\nf,x,,,3...,Integer\n"

print("Integer field, only a length declared; each cell is an integer literal whose text fits the length")
check("delimited, length 2", LENGTH_2, "05", 5)
check("delimited, length 2", LENGTH_2, "00", 0)
check("delimited, length 2", LENGTH_2, "-0", 0)
check("delimited, length 2...3", LENGTH_2_3, "007", 7)
check("delimited, length 2...3", LENGTH_2_3, "05", 5)
check("excel, length 3...", LENGTH_3_OPEN, "0042", 42)

print()
print("for comparison: the same spellings ARE integer literals for the field as soon as a rule or lower length 1 is used")
check("delimited, length 1...2", "d,format,delimited\nf,x,,,1...2,Integer\n", "05", 5)
check("delimited, no length, rule 0...99", "d,format,delimited\nf,x,,,,Integer,0...99\n", "05", 5)
check("fixed, length 2", "d,format,fixed\nf,x,,,2,Integer\n", "05", 5)

print()
print("same through validio.Reader and a CSV file")
with tempfile.TemporaryDirectory() as folder:
    cid_path = os.path.join(folder, "cid.csv")
    data_path = os.path.join(folder, "data.csv")
    with open(cid_path, "w", encoding="utf-8") as cid_file:
        cid_file.write(LENGTH_2)
    with open(data_path, "w", encoding="cp1252", newline="") as data_file:
        data_file.write("10\r\n05\r\n00\r\n")
    with validio.Reader(cid_path, data_path, on_error="yield") as reader:
        for row_or_error in reader.rows():
            if isinstance(row_or_error, Exception):
                print("  rejected: %s" % row_or_error)
                violations += 1
            else:
                print("  accepted: %r" % row_or_error)

print()
if violations:
    print("VIOLATION PRESENT (%d deviating cases)" % violations)
    sys.exit(1)
print("no violation")
sys.exit(0)
