"""
Finding 2: a DateTime rule in which the month placeholder MM is directly
followed by an "m" (for example the minutes placeholder: "MMmm", "DDMMmm",
"YYYYMMmmss") is translated into a wrong strptime format, so real dates in
that layout are rejected and the literal text "%Mm" is accepted as a "date".
Exit code 1 = violation present, 0 = repaired.
"""
import sys

sys.path.insert(0, "/tmp/audit3_C02")

from cutplace import errors, interface  # noqa: E402

violations = 0


def check(rule, cell, expected):
    """expected: None = must be rejected, otherwise dict of struct_time attributes the result must have."""
    global violations
    cid = interface.create_cid_from_string('d,format,delimited\nf,x,,,,DateTime,"%s"\n' % rule)
    field = cid.field_formats[0]
    try:
        actual = field.validated(cell)
        accepted = True
    except errors.FieldValueError as error:
        actual = str(error)
        accepted = False
    if expected is None:
        ok = not accepted
        expected_text = "rejected"
    else:
        ok = accepted and all(getattr(actual, name) == value for name, value in expected.items())
        expected_text = "accepted with %s" % expected
    print("rule %-12r (strptime %-12r) cell %-12r expected: %s" % (rule, field.strptime_format, cell, expected_text))
    print("      observed: %s %s" % ("ACCEPTED" if accepted else "REJECTED", actual))
    if not ok:
        print("      ==> deviates")
        violations += 1


# Month immediately followed by minutes.
check("MMmm", "0130", {"tm_mon": 1, "tm_min": 30})
check("MMmm", "%Mm", None)
check("DDMMmm", "310145", {"tm_mday": 31, "tm_mon": 1, "tm_min": 45})
check("hhMMmm", "120130", {"tm_hour": 12, "tm_mon": 1, "tm_min": 30})
# Control: the same placeholders with a separator or in another order work.
check("MM:mm", "01:30", {"tm_mon": 1, "tm_min": 30})
check("mmMM", "3001", {"tm_mon": 1, "tm_min": 30})

print()
if violations:
    print("VIOLATION PRESENT (%d deviating cases)" % violations)
    sys.exit(1)
print("no violation")
sys.exit(0)
