"""
Finding 3: blanks at the beginning or end of a RegEx / Pattern rule are cut off
when the CID is read, so cells the declared regular expression / glob does not
match are accepted (and the valid regular expression 'foo\\ ' is refused).
Exit code 1 = violation present, 0 = repaired.
"""
import re
import sys

sys.path.insert(0, "/tmp/audit3_C02")

from cutplace import errors, interface  # noqa: E402

violations = 0


def check(field_type, rule, cell, expected_accept):
    global violations
    cid_text = 'd,format,delimited\nf,x,,,,%s,"%s"\n' % (field_type, rule.replace('"', '""'))
    try:
        cid = interface.create_cid_from_string(cid_text)
    except errors.InterfaceError as error:
        print("%-7s rule %-9r -> CID REFUSED: %s" % (field_type, rule, error))
        violations += 1
        return
    field = cid.field_formats[0]
    try:
        field.validated(cell)
        accepted = True
    except errors.FieldValueError:
        accepted = False
    flag = "" if accepted == expected_accept else "   <== deviates"
    print(
        "%-7s rule %-9r (used as %-7r) cell %-9r expected %-8s observed %-8s%s"
        % (
            field_type,
            rule,
            field.rule,
            cell,
            "accept" if expected_accept else "reject",
            "accept" if accepted else "reject",
            flag,
        )
    )
    if accepted != expected_accept:
        violations += 1


# What Python's re / the glob say about the rules as declared:
assert re.compile("foo ", re.IGNORECASE).match("foo") is None
assert re.compile("foo ", re.IGNORECASE).match("foo bar") is not None

check("RegEx", "foo ", "foo", False)  # the expression requires a blank after foo
check("RegEx", "foo ", "foox", False)
check("RegEx", "foo ", "foo bar", True)
check("RegEx", " foo", "foo", False)  # the expression requires a leading blank
check("RegEx", " foo", " foo", True)
check("Pattern", "* ", "a", False)  # the glob requires a blank at the end
check("Pattern", "* ", "a ", True)
check("Pattern", " *", "a", False)
check("RegEx", "foo\\ ", "foo ", True)  # escaped blank: a valid regular expression

print()
if violations:
    print("VIOLATION PRESENT (%d deviating cases)" % violations)
    sys.exit(1)
print("no violation")
sys.exit(0)
