"""
Finding 1: a row rejected by a row check that raises its CheckError the way
docs/api.rst shows it (without a location) is reported without any location.
"""
import sys

sys.path.insert(0, "/tmp/audit3_C04")
import io
import logging
import os
import tempfile
import warnings

warnings.simplefilter("ignore")

import cutplace
from cutplace import applications, checks, errors, interface


class FullNameLengthIsInRangeCheck(checks.AbstractCheck):
    """The check of docs/api.rst, section "Adding your own checks" (rule parsing left out)."""

    def __init__(self, description, rule, available_field_names, location=None):
        super().__init__(description, rule, available_field_names, location)
        self._full_name_range = cutplace.Range(rule)

    def check_row(self, row_map, location):
        full_name = row_map["surname"] + ", " + row_map["first_name"]
        full_name_length = len(full_name)
        try:
            self._full_name_range.validate("full name", full_name_length)
        except errors.RangeValueError:
            # Exactly as in docs/api.rst: no location is passed on.
            raise errors.CheckError(
                "full name length is %d but must be in range %s: %r"
                % (full_name_length, self._full_name_range, full_name)
            )


CID_TEXT = (
    "d,format,delimited\n"
    "d,header,1\n"
    "f,first_name\n"
    "f,surname\n"
    "c,full_name_fits,FullNameLengthIsInRange,...10\n"
)
DATA_TEXT = "first_name,surname\nJo,Doe\nMaximilian,Mustermann\n"

is_violated = False

# 1. API
cid = interface.create_cid_from_string(CID_TEXT)
data_stream = io.StringIO(DATA_TEXT)
data_stream.name = "customers.csv"
results = list(cutplace.rows(cid, data_stream, on_error="yield"))
print("API, on_error='yield':")
for result in results:
    print("   %r" % (result,))
rejected = [result for result in results if isinstance(result, errors.DataError)]
assert len(rejected) == 1, "row 3 must be rejected"
error = rejected[0]
print("   location of the rejected row: %r (expected: customers.csv (R3C...))" % (error.location,))
if error.location is None or "customers.csv" not in str(error) or "R3" not in str(error):
    is_violated = True

# 2. Command line
with tempfile.TemporaryDirectory() as folder:
    cid_path = os.path.join(folder, "cid.csv")
    data_path = os.path.join(folder, "customers.csv")
    with open(cid_path, "w", newline="") as cid_file:
        cid_file.write(CID_TEXT)
    with open(data_path, "w", newline="") as data_file:
        data_file.write(DATA_TEXT)
    log_stream = io.StringIO()
    handler = logging.StreamHandler(log_stream)
    logging.getLogger("cutplace").addHandler(handler)
    logging.getLogger("cutplace").setLevel(logging.INFO)
    exit_code = applications.main(["cutplace", cid_path, data_path])
    logging.getLogger("cutplace").removeHandler(handler)
    print("command line: exit code %d, log:" % exit_code)
    for line in log_stream.getvalue().splitlines():
        print("   " + line)
    error_lines = [line for line in log_stream.getvalue().splitlines() if "full name length" in line]
    assert exit_code == 1 and error_lines
    if "customers.csv (R3" not in error_lines[0]:
        is_violated = True

print("VIOLATION PRESENT" if is_violated else "no violation")
sys.exit(1 if is_violated else 0)
