"""
Finding 5: a row of a delimited file that the csv parser refuses is reported with the
number of the physical LINE instead of the number of the ROW, and without a column.
"""
import sys

sys.path.insert(0, "/tmp/audit3_C04")
import os
import tempfile
import warnings

warnings.simplefilter("ignore")

import cutplace
from cutplace import errors, interface

cid = interface.create_cid_from_string("d,format,delimited\nf,note\nf,amount,,,,Integer\n")
# Row 1 spans the physical lines 1 to 3, row 2 is line 4, row 3 is line 5.
data_text = '"to\nbe\ndone",1\nx,zz\n"x"y,2\n'
results = []
with tempfile.TemporaryDirectory() as folder:
    data_path = os.path.join(folder, "notes.csv")
    with open(data_path, "w", newline="") as data_file:
        data_file.write(data_text)
    try:
        for result in cutplace.rows(cid, data_path, on_error="yield"):
            results.append(result)
    except errors.DataError as error:
        results.append(error)
print("data: %r" % data_text)
for result in results:
    print("   %s" % (result,))
field_error, parse_error = results[1], results[2]
assert isinstance(field_error, errors.FieldValueError) and isinstance(parse_error, errors.DataFormatError)
print("row 2 (amount 'zz') is reported as row %d" % (field_error.location.line + 1))
print("row 3 (quote followed by y) is reported as 'row' %d; expected 3 and column 1" % (parse_error.location.line + 1))
is_violated = (parse_error.location.line + 1 != 3) or ("R3C1" not in str(parse_error))
print("VIOLATION PRESENT" if is_violated else "no violation")
sys.exit(1 if is_violated else 0)
