"""
Finding 4: a row rejected by an IsUnique check is always located at column 1, whichever
column holds the field that must be unique.
"""
import sys

sys.path.insert(0, "/tmp/audit3_C04")
import io
import warnings

warnings.simplefilter("ignore")

import cutplace
from cutplace import errors, interface

is_violated = False
for format_rows, data_text in (
    ("d,format,delimited\nf,name\nf,town\nf,id,,,,Integer\n", "Jo,Graz,1\nJim,Wien,2\nJoe,Linz,1\n"),
    ("d,format,fixed\nf,name,,,3\nf,town,,,4\nf,id,,,1,Integer\n", "Jo Graz1\nJimWien2\nJoeLinz1\n"),
):
    cid = interface.create_cid_from_string(format_rows + "c,id must be unique,IsUnique,id\n")
    data_stream = io.StringIO(data_text)
    data_stream.name = "people.txt"
    results = list(cutplace.rows(cid, data_stream, on_error="yield"))
    error = results[-1]
    print("%s data %r, IsUnique on field 'id' (column 3):" % (cid.data_format.format, data_text))
    print("   expected: people.txt (R3C3): ... 'id' ...")
    print("   observed: %s" % error)
    assert isinstance(error, errors.DataError)
    if error.location.cell != 2 or error.see_also_location.cell != 2:
        is_violated = True

print("VIOLATION PRESENT" if is_violated else "no violation")
sys.exit(1 if is_violated else 0)
