"""
Finding 2: the data format property "line delimiter" is ignored when delimited
data are read, so the rows that are validated are not the rows the declared
format defines; rows that must be rejected are accepted.
"""
import sys

sys.path.insert(0, "/tmp/audit3_C04")
import os
import tempfile
import warnings

warnings.simplefilter("ignore")

import cutplace
from cutplace import errors, interface


def results_for(cid_text, data_bytes):
    cid = interface.create_cid_from_string(cid_text)
    with tempfile.TemporaryDirectory() as folder:
        data_path = os.path.join(folder, "data.csv")
        with open(data_path, "wb") as data_file:
            data_file.write(data_bytes)
        try:
            return list(cutplace.rows(cid, data_path, on_error="yield"))
        except errors.DataError as error:
            return [error]


is_violated = False

# Case 1: rows end with CR, the data contain only LF. Under the declared format the file is
# ONE row with the three items '1', '2\n3' and '4\n', while the CID declares two fields.
cid_text = "d,format,delimited\nd,line delimiter,cr\nf,a,,,,Integer\nf,b,,,,Integer\n"
data = b"1,2\n3,4\n"
results = results_for(cid_text, data)
print("case 1: line delimiter CR, data %r" % data)
print("   expected: one row with 3 items, rejected (CID declares 2 fields) - or a DataFormatError")
print("   observed: %r" % (results,))
if results == [["1", "2"], ["3", "4"]]:
    is_violated = True

# Case 2: rows end with LF, the data use CR LF, so the last item of each row ends with a CR.
cid_text = "d,format,delimited\nd,line delimiter,lf\nf,a,,,,Integer\nf,b,,,1,Choice,\"x,y\"\n"
data = b"1,x\r\n2,y\r\n"
results = results_for(cid_text, data)
print("case 2: line delimiter LF, data %r, field b = Choice x,y with length 1" % data)
print("   expected: both rows rejected at column 2 (item is 'x\\r' / 'y\\r') - or a DataFormatError")
print("   observed: %r" % (results,))
if results == [["1", "x"], ["2", "y"]]:
    is_violated = True

# For comparison: fixed data enforce the declared line delimiter.
cid_text = "d,format,fixed\nd,line delimiter,lf\nf,a,,,1,Integer\nf,b,,,1,Choice,\"x,y\"\n"
data = b"1x\r\n2y\r\n"
results = results_for(cid_text, data)
print("for comparison, fixed data with line delimiter LF, data %r:" % data)
print("   observed: %s" % [str(result) for result in results])

print("VIOLATION PRESENT" if is_violated else "no violation")
sys.exit(1 if is_violated else 0)
