"""
Finding 3: a row rejected for its number of items is reported at whatever column the
location happens to hold (column 1 when reading, a stale column when writing) and its
message names no field.
"""
import sys

sys.path.insert(0, "/tmp/audit3_C04")
import io
import warnings

warnings.simplefilter("ignore")

import cutplace
from cutplace import errors, interface, validio

CID_TEXT = "d,format,delimited\nd,header,1\nf,a,,,,Integer\nf,b,,,,Integer\nf,c,,,,Integer\n"

is_violated = False

# 1. Reading: the third item (field 'c', column 3) is missing in row 3.
cid = interface.create_cid_from_string(CID_TEXT)
data_stream = io.StringIO("a,b,c\n1,2,3\n4,5\n")
data_stream.name = "data.csv"
results = list(cutplace.rows(cid, data_stream, on_error="yield"))
error = results[-1]
print("reading %r:" % data_stream.getvalue())
print("   expected: data.csv (R3C3): ... names field 'c' (the first field without an item)")
print("   observed: %s" % error)
assert isinstance(error, errors.DataError)
if (error.location.cell != 2) or ("'c'" not in error.message):
    is_violated = True

# 2. Writing: the column is the one left behind by the row rejected before.
cid = interface.create_cid_from_string(CID_TEXT)
target = io.StringIO()
target.name = "out.csv"
messages = []
with validio.Writer(cid, target) as writer:
    for row in (["a", "b", "c"], ["1", "x", "3"], ["4", "5"], ["7", "8", "9", "10"]):
        try:
            writer.write_row(row)
        except errors.DataError as error:
            messages.append(str(error))
print("writing [a,b,c], [1,x,3], [4,5], [7,8,9,10] (header 1):")
for message in messages:
    print("   " + message)
print("   expected for [4,5]: column 3 ('c' is missing); for [7,8,9,10]: column 4 (first surplus item);")
print("   observed: both at column 2, the column of the error reported before for [1,x,3]")
if "C2): row must contain 3 fields but only has 2" in messages[1] and "C2): row must contain 3 fields but has 4" in messages[2]:
    is_violated = True

print("VIOLATION PRESENT" if is_violated else "no violation")
sys.exit(1 if is_violated else 0)
