"""
Strings in which two '_xHHHH_' look-alikes share an underscore ('_x0041_x0042_') do not read back.
"""
import os
import sys
import tempfile

sys.path.insert(0, "/tmp/audit3_C16")
import warnings

warnings.simplefilter("ignore")
from cutplace import rowio

path = os.path.join(tempfile.mkdtemp(), "finding2.xlsx")
rows_written = [
    ["_x0041_"],  # fine: a single look-alike is escaped properly
    ["_x0041_x0042_"],
    ["_x005F_x0041_"],
    ["id_x1234_xABCD_end"],
]
with rowio.XlsxRowWriter(path) as writer:
    writer.write_rows(rows_written)
rows_read = list(rowio.excel_rows(path))
violations = 0
for row_written, row_read in zip(rows_written, rows_read):
    is_ok = row_written == row_read
    print("written: %r  read: %r  -> %s" % (row_written, row_read, "ok" if is_ok else "VIOLATION"))
    if not is_ok:
        violations += 1
if len(rows_written) != len(rows_read):
    violations += 1
print("%d violation(s)" % violations)
sys.exit(1 if violations else 0)
