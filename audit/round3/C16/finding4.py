"""
A row XlsxRowWriter cannot write because of a number (NaN, infinity, an int beyond the float range) is not refused
as a whole: the cells before the number are written, the column position stays advanced, the error is no
cutplace error, and the next row is glued to the rest of the failed one.
"""
import os
import sys
import tempfile

sys.path.insert(0, "/tmp/audit3_C16")
import warnings

warnings.simplefilter("ignore")
from cutplace import errors, rowio

violations = 0
for bad_item in [float("nan"), float("inf"), 10**400]:
    path = os.path.join(tempfile.mkdtemp(), "finding4.xlsx")
    writer = rowio.XlsxRowWriter(path)
    writer.write_row(["h1", "h2"])
    print("write_row(['a', %s])" % repr(bad_item)[:20])
    try:
        writer.write_row(["a", bad_item])
        print("  accepted")
    except errors.DataFormatError as error:
        print("  refused with DataFormatError: %s" % error)
    except Exception as error:
        print("  note: refused with %s instead of a cutplace error: %s" % (type(error).__name__, error))
    print("  location after the refused row: %s" % writer.location)
    writer.write_row(["b", "c"])
    writer.close()
    rows_read = list(rowio.excel_rows(path))
    expected = [["h1", "h2"], ["b", "c"]]
    is_ok = rows_read == expected
    print("  rows accepted: %r\n  rows read:     %r  -> %s" % (expected, rows_read, "ok" if is_ok else "VIOLATION"))
    if not is_ok:
        violations += 1
print("%d violation(s)" % violations)
sys.exit(1 if violations else 0)
