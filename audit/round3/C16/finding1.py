"""
A string that starts with '<r>' and ends with '</r>' written with XlsxRowWriter does not read back:
xlsxwriter copies it as raw rich text XML into sharedStrings.xml.
"""
import os
import sys
import tempfile

sys.path.insert(0, "/tmp/audit3_C16")
import warnings

warnings.simplefilter("ignore")
from cutplace import errors, rowio

folder = tempfile.mkdtemp()
violations = 0
for text in ["<r>hello</r>", "<r></r>", "<r>&</r>", "<r>a<b</r>"]:
    path = os.path.join(folder, "finding1.xlsx")
    rows_written = [["before", text, "after"]]
    with rowio.XlsxRowWriter(path) as writer:
        writer.write_rows(rows_written)
    try:
        rows_read = list(rowio.excel_rows(path))
    except errors.DataFormatError as error:
        rows_read = "DataFormatError: %s" % error
    is_ok = rows_read == rows_written
    print("written: %r\n   read: %r\n   -> %s" % (rows_written, rows_read, "ok" if is_ok else "VIOLATION"))
    if not is_ok:
        violations += 1
print("%d violation(s)" % violations)
sys.exit(1 if violations else 0)
