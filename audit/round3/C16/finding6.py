"""
Time cells using an elapsed time / seconds-with-fraction number format ('[mm]:ss.000', '[m]:ss.00', 'ss.00', '[h]', '[s]')
are not recognized as times: excel_rows() returns the raw serial number instead of 'hh:mm:ss'.
The workbook is created with XlsxRowWriter and its documented access to workbook / worksheet.
"""
import datetime
import os
import sys
import tempfile

sys.path.insert(0, "/tmp/audit3_C16")
import warnings

warnings.simplefilter("ignore")
from cutplace import rowio

path = os.path.join(tempfile.mkdtemp(), "finding6.xlsx")
num_formats = ["hh:mm:ss", "mm:ss.000", "[h]:mm:ss.000", "[mm]:ss.000", "[m]:ss.00", "ss.00", "[h]", "[s]"]
stop_watch = datetime.time(0, 12, 34, 567000)
writer = rowio.XlsxRowWriter(path)
for row_index, num_format in enumerate(num_formats):
    cell_format = writer.workbook.add_format({"num_format": num_format})
    writer.worksheet.write_string(row_index, 0, num_format)
    writer.worksheet.write_datetime(row_index, 1, stop_watch, cell_format)
writer.close()
violations = 0
for num_format, row_read in zip(num_formats, rowio.excel_rows(path)):
    is_ok = row_read[1] in ("00:12:34", "00:12:35")
    print("number format %-16r read: %-22r -> %s" % (num_format, row_read[1], "ok" if is_ok else "VIOLATION (expected '00:12:35')"))
    if not is_ok:
        violations += 1
print("%d violation(s)" % violations)
sys.exit(1 if violations else 0)
