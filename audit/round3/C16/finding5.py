"""
datetime.datetime / date / time items written with XlsxRowWriter are stored as plain numbers (no date format),
so they read back as Excel serial numbers instead of 'YYYY-MM-DD hh:mm:ss' / 'hh:mm:ss'.
"""
import datetime
import os
import sys
import tempfile

sys.path.insert(0, "/tmp/audit3_C16")
import warnings

warnings.simplefilter("ignore")
from cutplace import rowio

path = os.path.join(tempfile.mkdtemp(), "finding5.xlsx")
row_written = [datetime.datetime(2020, 1, 2, 3, 4, 5), datetime.date(2020, 1, 2), datetime.time(3, 4, 5), True, 17]
expected = ["2020-01-02 03:04:05", "2020-01-02 00:00:00", "03:04:05", "1", "17"]
with rowio.XlsxRowWriter(path) as writer:
    writer.write_row(row_written)
rows_read = list(rowio.excel_rows(path))
print("written:  %r" % row_written)
print("expected: %r" % expected)
print("read:     %r" % rows_read[0])
is_ok = rows_read == [expected]
print("ok" if is_ok else "VIOLATION")
sys.exit(0 if is_ok else 1)
