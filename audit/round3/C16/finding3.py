"""
Floats that need 17 significant digits are changed by XlsxRowWriter (written with '%.16G');
the largest finite float even reads back as 'inf'.
"""
import os
import sys
import tempfile

sys.path.insert(0, "/tmp/audit3_C16")
import warnings

warnings.simplefilter("ignore")
from cutplace import rowio

path = os.path.join(tempfile.mkdtemp(), "finding3.xlsx")
values = [0.1, 0.1 + 0.2, 1.1 * 3, 2.675 * 100, 1234567.1234567892, sys.float_info.max, 123456789.12345679]
with rowio.XlsxRowWriter(path) as writer:
    writer.write_rows([[value] for value in values])
rows_read = list(rowio.excel_rows(path))
violations = 0
for value, row_read in zip(values, rows_read):
    expected = str(value)  # same notion as tests/test_rowio.py XlsxRowWriterTest: str(item) == item read
    is_ok = (row_read == [expected]) and (float(row_read[0]) == value)
    print("written: %r  expected: %r  read: %r  -> %s" % (value, expected, row_read[0], "ok" if is_ok else "VIOLATION"))
    if not is_ok:
        violations += 1
print("%d violation(s)" % violations)
sys.exit(1 if violations else 0)
