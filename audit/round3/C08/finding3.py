"""
finding 3 (borderline, see finding3.txt): Writer resets the checks when it is CREATED, not
when its run starts with the first row (Reader and BaseValidator reset lazily). A complete,
closed read between the creation of a Writer and its first row leaks into the written data set.
"""
import sys

sys.path.insert(0, "/tmp/audit3_C08")
import io

from cutplace import errors, interface, validio

CID_TEXT = "d,format,delimited\nf,id\nc,id_is_unique,IsUnique,id\nc,at_least_one_id,DistinctCount,id >= 1\n"


def load():
    return interface.create_cid_from_string(CID_TEXT)


def write_run(cid_of_writer, cid_of_reader, rows_to_write):
    result = []
    writer = validio.Writer(cid_of_writer, io.StringIO())  # open the output first ...
    validio.validate(cid_of_reader, io.StringIO("1\n2\n"))  # ... validate the input: complete run, closed
    for row in rows_to_write:  # ... only now the first row is written
        try:
            writer.write_row(row)
            result.append("written %s" % row)
        except errors.DataError as error:
            result.append("rejected %s: %s" % (row, error.message))
    try:
        writer.close()
        result.append("end-of-data checks ok")
    except errors.DataError as error:
        result.append("end-of-data check failed: %s" % error.message)
    return result


violations = 0
for rows_to_write in ([["1"], ["3"]], []):
    shared_cid = load()
    on_shared = write_run(shared_cid, shared_cid, rows_to_write)
    on_fresh = write_run(load(), load(), rows_to_write)
    print("rows to write: %s" % rows_to_write)
    print("  one CID for reader and writer:", on_shared)
    print("  writer on its own fresh CID  :", on_fresh)
    violations += on_shared != on_fresh

if violations:
    print("VIOLATION: keys / counts of the data set read before the first written row are part of the written run")
    sys.exit(1)
print("ok")
sys.exit(0)
