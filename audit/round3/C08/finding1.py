"""
finding 1: BaseValidator.close() without any validated row asks the checks about the
PREVIOUS data set (only Reader.close() and Writer.__init__ reset the checks; the lazy
reset of BaseValidator sits in validate_row() and never happens for a run of zero rows).
"""
import sys

sys.path.insert(0, "/tmp/audit3_C08")
import io

from cutplace import errors, interface, validio

CID_TEXT = """d,format,delimited
f,id
c,at_least_one_id,DistinctCount,id >= 1
"""


class ListValidator(validio.BaseValidator):
    """
    The minimal descendant the docstring of BaseValidator describes: it sets the location,
    feeds rows to validate_row(), advances the line and finally calls close().
    """

    def __init__(self, cid, rows):
        super().__init__(cid)
        self._location = errors.Location("<list>", has_cell=True)
        self._rows = rows

    def run(self):
        try:
            for row in self._rows:
                self.validate_row(row)
                self._location.advance_line()
            self.close()
            return "accepted"
        except errors.CutplaceError as error:
            return "%s: %s" % (type(error).__name__, error)


def outcomes(first_run):
    """Outcome of a run over ZERO rows on a used CID and on a freshly loaded CID."""
    shared_cid = interface.create_cid_from_string(CID_TEXT)
    print("  first run on shared CID ->", first_run(shared_cid))
    on_shared = ListValidator(shared_cid, []).run()
    on_fresh = ListValidator(interface.create_cid_from_string(CID_TEXT), []).run()
    print("  run over 0 rows, shared CID:", on_shared)
    print("  run over 0 rows, fresh CID :", on_fresh)
    return on_shared, on_fresh


violations = 0

print("case A: previous run = ListValidator over rows [['a'], ['b']], closed")
shared, fresh = outcomes(lambda cid: ListValidator(cid, [["a"], ["b"]]).run())
violations += shared != fresh

print("case B: previous run = cutplace.validate(cid, 'a\\nb\\n') (Reader, closed)")


def reader_run(cid):
    validio.validate(cid, io.StringIO("a\nb\n"))
    return "accepted"


shared, fresh = outcomes(reader_run)
violations += shared != fresh

print("case C: previous run = Writer writing 2 rows, never closed")


def writer_run(cid):
    writer = validio.Writer(cid, io.StringIO())
    writer.write_rows([["a"], ["b"]])
    return "written, not closed"


shared, fresh = outcomes(writer_run)
violations += shared != fresh

if violations:
    print("VIOLATION: end-of-data check of an empty run depends on the data set validated before (%d cases)" % violations)
    sys.exit(1)
print("ok: no carry over")
sys.exit(0)
