"""
finding 2: command line, several data files against one CID: a run that ends in an OSError
(missing file, folder, no read permission) ends ALL following runs - they have no outcome
at all, and the exit code 3 hides the 1 a later broken file would have produced.
"""
import sys

sys.path.insert(0, "/tmp/audit3_C08")
import io
import logging
import os
import tempfile

from cutplace import applications

folder = tempfile.mkdtemp()


def written(name, text):
    path = os.path.join(folder, name)
    with open(path, "w", encoding="utf-8") as target_file:
        target_file.write(text)
    return path


cid_path = written("cid.csv", "d,format,delimited\nd,encoding,utf-8\nf,id\nc,u,IsUnique,id\n")
good_path = written("good.csv", "1\n2\n")
duplicate_path = written("duplicate.csv", "1\n1\n")
missing_path = os.path.join(folder, "missing.csv")


def cutplace(*data_paths):
    log_stream = io.StringIO()
    handler = logging.StreamHandler(log_stream)
    logger = logging.getLogger("cutplace")
    logger.addHandler(handler)
    try:
        exit_code = applications.main(["cutplace", cid_path] + list(data_paths))
    finally:
        logger.removeHandler(handler)
    log_lines = [line.replace(folder + os.sep, "") for line in log_stream.getvalue().splitlines()]
    print("  cutplace cid.csv %s -> exit code %d" % (" ".join(os.path.basename(p) for p in data_paths), exit_code))
    for line in log_lines:
        print("      " + line)
    return exit_code, log_lines


def outcome_lines_for(name, log_lines):
    """The log lines that belong to the run for data file ``name``."""
    result = []
    is_inside = False
    for line in log_lines:
        if line.startswith("validate "):
            is_inside = line == 'validate "%s"' % name
        elif is_inside:
            result.append(line.strip())
    return result


print("each file on its own (fresh CID each):")
_, good_alone = cutplace(good_path)
_, duplicate_alone = cutplace(duplicate_path)
print("one CID, run 1 ends in an error (missing file), then two more runs:")
exit_code, together = cutplace(missing_path, good_path, duplicate_path)

violation = False
for name, alone in (("good.csv", good_alone), ("duplicate.csv", duplicate_alone)):
    expected = outcome_lines_for(name, alone)
    observed = outcome_lines_for(name, together)
    print("run for %s: expected outcome %r, observed %r" % (name, expected, observed))
    if expected != observed:
        violation = True

if violation:
    print("VIOLATION: the runs after the one that ended in an OSError were never performed (exit code %d)" % exit_code)
    sys.exit(1)
print("ok: every data file got its own outcome")
sys.exit(0)
