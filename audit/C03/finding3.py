"""
Finding 3: ODS data: rows that are stored inside <table:table-row-group> (outline / grouped rows),
<table:table-header-rows> (rows repeated on each printed page) or <table:table-rows> are never read,
so their cells are accepted without any validation.
Exit code 1 = violation present, 0 = not present.
"""
import sys

sys.path.insert(0, "/tmp/audit_C03")
import logging
import os
import tempfile
import zipfile

from cutplace import applications, errors, interface, validio

_NAMESPACES = (
    'xmlns:office="urn:oasis:names:tc:opendocument:xmlns:office:1.0" '
    'xmlns:table="urn:oasis:names:tc:opendocument:xmlns:table:1.0" '
    'xmlns:text="urn:oasis:names:tc:opendocument:xmlns:text:1.0"'
)


def write_ods(path, table_body):
    xml = (
        '<?xml version="1.0" encoding="UTF-8"?><office:document-content %s office:version="1.2">'
        '<office:body><office:spreadsheet><table:table table:name="Sheet1">%s</table:table>'
        "</office:spreadsheet></office:body></office:document-content>" % (_NAMESPACES, table_body)
    )
    with zipfile.ZipFile(path, "w") as ods_zip:
        ods_zip.writestr("mimetype", "application/vnd.oasis.opendocument.spreadsheet")
        ods_zip.writestr("content.xml", xml.encode("utf-8"))


def row_xml(*values):
    return "<table:table-row>%s</table:table-row>" % "".join(
        '<table:table-cell office:value-type="string"><text:p>%s</text:p></table:table-cell>' % value
        for value in values
    )


CID_TEXT = """d,format,ods
d,allowed characters,32...126
f,code,,,2...3,Integer
f,name,,,...5
"""
GOOD_ROW = row_xml("12", "abc")
# Too long 'code', EURO SIGN and too many characters in 'name', empty cell in a field not allowed to be empty.
BAD_ROWS = row_xml("123456", "abcdefgh€") + row_xml("", "abc")

CASES = [
    ("control: bad rows directly in table", GOOD_ROW + BAD_ROWS),
    ("bad rows in table:table-row-group", GOOD_ROW + "<table:table-row-group>" + BAD_ROWS + "</table:table-row-group>"),
    ("bad rows in table:table-header-rows", "<table:table-header-rows>" + BAD_ROWS + "</table:table-header-rows>" + GOOD_ROW),
    ("bad rows in table:table-rows", GOOD_ROW + "<table:table-rows>" + BAD_ROWS + "</table:table-rows>"),
]

violations = 0
logging.basicConfig(level=logging.INFO)
cid = interface.create_cid_from_string(CID_TEXT)
print("CID:\n" + CID_TEXT)
with tempfile.TemporaryDirectory() as folder:
    cid_path = os.path.join(folder, "cid.csv")
    with open(cid_path, "w", encoding="utf-8", newline="") as cid_file:
        cid_file.write(CID_TEXT)
    for description, table_body in CASES:
        ods_path = os.path.join(folder, "data.ods")
        write_ods(ods_path, table_body)
        rows_or_errors = list(validio.rows(cid, ods_path, on_error="yield"))
        rejected_count = sum(1 for item in rows_or_errors if isinstance(item, errors.DataError))
        print("%s: %d rows seen, %d rejected (expected: 3 seen, 2 rejected)" % (description, len(rows_or_errors), rejected_count))
        exit_code = applications.main(["cutplace", cid_path, ods_path])
        print("    command line exit code: %d (expected 1)" % exit_code)
        if (rejected_count != 2) or (exit_code != 1):
            print("    -> VIOLATION")
            violations += 1

print("violations: %d" % violations)
sys.exit(1 if violations else 0)
