"""
Finding 2: ODS data: only the text directly at the start of the first paragraph of a cell is
looked at. Text inside <text:span>, after <text:s/>, in <text:a> or in further paragraphs is
ignored, so too long cells and cells with characters outside "Allowed characters" are accepted,
and a non-empty cell is taken for an empty one.
Exit code 1 = violation present, 0 = not present.
"""
import sys

sys.path.insert(0, "/tmp/audit_C03")
import logging
import os
import tempfile
import zipfile

from cutplace import applications, errors, interface, validio

_NAMESPACES = (
    'xmlns:office="urn:oasis:names:tc:opendocument:xmlns:office:1.0" '
    'xmlns:table="urn:oasis:names:tc:opendocument:xmlns:table:1.0" '
    'xmlns:text="urn:oasis:names:tc:opendocument:xmlns:text:1.0"'
)


def write_ods(path, rows):
    """Write an ODS where ``rows`` is a list of lists of XML snippets for the inside of table:table-cell."""
    xml = (
        '<?xml version="1.0" encoding="UTF-8"?><office:document-content %s office:version="1.2">'
        '<office:body><office:spreadsheet><table:table table:name="Sheet1">' % _NAMESPACES
    )
    for row in rows:
        xml += "<table:table-row>"
        for cell in row:
            xml += '<table:table-cell office:value-type="string">%s</table:table-cell>' % cell
        xml += "</table:table-row>"
    xml += "</table:table></office:spreadsheet></office:body></office:document-content>"
    with zipfile.ZipFile(path, "w") as ods_zip:
        ods_zip.writestr("mimetype", "application/vnd.oasis.opendocument.spreadsheet")
        ods_zip.writestr("content.xml", xml.encode("utf-8"))


CID_TEXT = """d,format,ods
d,allowed characters,32...126
f,code,,x,...3,Choice,"ab,abc"
f,name
"""

# (description, cell content, what the cell really contains)
CASES = [
    ("control: plain, too long", "<text:p>abcdefgh</text:p>", "abcdefgh"),
    ("control: plain, EURO SIGN", "<text:p>ab€</text:p>", "ab€"),
    ("too long, part of it bold", "<text:p>ab<text:span>cdefgh</text:span></text:p>", "abcdefgh"),
    ("EURO SIGN inside span", "<text:p>ab<text:span>€</text:span></text:p>", "ab€"),
    ("3 blanks stored as text:s", '<text:p>ab<text:s text:c="3"/>cd</text:p>', "ab   cd"),
    ("two lines in the cell", "<text:p>ab</text:p><text:p>defgh</text:p>", "ab\ndefgh"),
    ("empty first line, then text", "<text:p/><text:p>defgh</text:p>", "\ndefgh"),
]

violations = 0
logging.basicConfig(level=logging.INFO)
cid = interface.create_cid_from_string(CID_TEXT)
print("CID:\n" + CID_TEXT)
with tempfile.TemporaryDirectory() as folder:
    cid_path = os.path.join(folder, "cid.csv")
    with open(cid_path, "w", encoding="utf-8", newline="") as cid_file:
        cid_file.write(CID_TEXT)
    for description, cell, actual_text in CASES:
        ods_path = os.path.join(folder, "data.ods")
        write_ods(ods_path, [[cell, "<text:p>z</text:p>"]])
        is_control = description.startswith("control")
        # Every case has more than 3 characters and/or a character outside 32...126,
        # so every single one has to be rejected.
        try:
            rows = list(validio.rows(cid, ods_path))
            print("%-30s cell text %r: ACCEPTED as %r -> VIOLATION" % (description, actual_text, rows[0][0]))
            violations += 1
        except errors.DataError as error:
            print("%-30s cell text %r: rejected (%s)" % (description, actual_text, str(error)[-60:]))
        if not is_control:
            exit_code = applications.main(["cutplace", cid_path, ods_path])
            print("    command line exit code: %d (expected 1)" % exit_code)
            if exit_code != 1:
                violations += 1

print("violations: %d" % violations)
sys.exit(1 if violations else 0)
