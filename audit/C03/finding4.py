"""
Finding 4: fixed data: a cell that does NOT consist only of blanks but of other white space (tabs,
NO-BREAK SPACE, U+001F, U+3000 ...) is taken for an empty cell: with the field marked as allowed to
be empty it is accepted and yields the empty value, type and rule are never asked.
Exit code 1 = violation present, 0 = not present.
"""
import sys

sys.path.insert(0, "/tmp/audit_C03")
import io
import logging
import os
import tempfile

from cutplace import applications, errors, interface, validio

violations = 0
NOT_BLANK_CELLS = ["\t\t\t", "\xa0\xa0\xa0", "\x1f\x1f\x1f", "　　　", " \t ", "\x0b\x0c\x1c"]

# 1. Field formats on their own; none of the cells is an integer, a decimal, a date or the choice "abc".
for field_type, rule in [("Integer", ""), ("Decimal", ""), ("DateTime", "YY"), ("Choice", "abc"), ("RegEx", "[a-z]+"), ("Pattern", "a*")]:
    cid = interface.create_cid_from_string('d,format,fixed\nf,a,,x,3,%s,"%s"\n' % (field_type, rule))
    field_format = cid.field_formats[0]
    for cell in NOT_BLANK_CELLS:
        try:
            result = field_format.validated(cell)
            print("%-8s rule %-8r cell %-22r ACCEPTED, result %r -> VIOLATION" % (field_type, rule, cell, result))
            violations += 1
        except errors.FieldValueError as error:
            print("%-8s rule %-8r cell %-22r rejected: %s" % (field_type, rule, cell, error))

# 2. Reader and command line.
CID_TEXT = """d,format,fixed
d,line delimiter,lf
f,code,,x,3,Integer,100...999
f,kind,,x,3,Choice,"abc,xyz"
f,name,,,3,Text
"""
DATA_TEXT = "\t\t\t\xa0\xa0\xa0abc\n"
print("\nCID:\n" + CID_TEXT)
print("data: %r" % DATA_TEXT)
cid = interface.create_cid_from_string(CID_TEXT)
try:
    rows = list(validio.rows(cid, io.StringIO(DATA_TEXT)))
    print("validio.rows(): ACCEPTED %r -> VIOLATION" % rows)
    violations += 1
except errors.DataError as error:
    print("validio.rows(): rejected: %s" % error)

logging.basicConfig(level=logging.INFO)
with tempfile.TemporaryDirectory() as folder:
    cid_path = os.path.join(folder, "cid.csv")
    data_path = os.path.join(folder, "data.txt")
    with open(cid_path, "w", encoding="utf-8", newline="") as cid_file:
        cid_file.write(CID_TEXT)
    with open(data_path, "w", encoding="cp1252", newline="") as data_file:
        data_file.write(DATA_TEXT)
    exit_code = applications.main(["cutplace", cid_path, data_path])
    print("command line exit code: %d (expected 1)" % exit_code)
    if exit_code != 1:
        violations += 1

# 3. For information only (not counted): the same cells in a field NOT allowed to be empty are
#    refused as "empty", and a Text field delivers '' instead of the cell.
cid = interface.create_cid_from_string("d,format,fixed\nf,a,,,3,Text\nf,b,,x,3,Text\n")
for field_format in cid.field_formats:
    try:
        print("info: Text %s.validated('\\t\\t\\t') -> %r" % (field_format.field_name, field_format.validated("\t\t\t")))
    except errors.FieldValueError as error:
        print("info: Text %s.validated('\\t\\t\\t') rejected: %s" % (field_format.field_name, error))

print("violations: %d" % violations)
sys.exit(1 if violations else 0)
