"""
Finding 5: Excel (and ODS) data: an empty cell at the end of a row that is not physically stored in
the file is not treated as an empty cell; the row is rejected although the field is marked as
allowed to be empty.
Exit code 1 = violation present, 0 = not present.
"""
import sys

sys.path.insert(0, "/tmp/audit_C03")
import logging
import os
import tempfile
import zipfile

import xlsxwriter

from cutplace import applications, errors, interface, validio

violations = 0
logging.basicConfig(level=logging.INFO)

CID_TEMPLATE = """d,format,%s
f,code,,,3,Integer
f,remark,,x,...10,Text
"""

with tempfile.TemporaryDirectory() as folder:
    # --- Excel: column B is never filled in, which is fine because 'remark' is optional.
    xlsx_path = os.path.join(folder, "data.xlsx")
    workbook = xlsxwriter.Workbook(xlsx_path)
    worksheet = workbook.add_worksheet()
    worksheet.write_string(0, 0, "123")
    worksheet.write_string(1, 0, "456")
    workbook.close()
    control_path = os.path.join(folder, "control.xlsx")
    workbook = xlsxwriter.Workbook(control_path)
    worksheet = workbook.add_worksheet()
    worksheet.write_string(0, 0, "123")
    worksheet.write_string(0, 1, "")  # explicitly stored empty text
    worksheet.write_string(1, 0, "456")
    workbook.close()

    cid_text = CID_TEMPLATE % "excel"
    print("CID:\n" + cid_text)
    cid = interface.create_cid_from_string(cid_text)
    cid_path = os.path.join(folder, "cid_excel.csv")
    with open(cid_path, "w", encoding="utf-8", newline="") as cid_file:
        cid_file.write(cid_text)
    print("control (B1 stored as empty text): %r" % list(validio.rows(cid, control_path)))
    try:
        print("excel, A1='123', A2='456', column B untouched: accepted %r" % list(validio.rows(cid, xlsx_path)))
    except errors.DataError as error:
        print("excel, A1='123', A2='456', column B untouched: VIOLATION, rejected: %s" % error)
        violations += 1
    exit_code = applications.main(["cutplace", cid_path, xlsx_path])
    print("command line exit code: %d (expected 0)" % exit_code)
    if exit_code != 0:
        violations += 1

    # --- ODS: second row stores only its first cell.
    namespaces = (
        'xmlns:office="urn:oasis:names:tc:opendocument:xmlns:office:1.0" '
        'xmlns:table="urn:oasis:names:tc:opendocument:xmlns:table:1.0" '
        'xmlns:text="urn:oasis:names:tc:opendocument:xmlns:text:1.0"'
    )
    content = (
        '<?xml version="1.0" encoding="UTF-8"?><office:document-content %s office:version="1.2">'
        '<office:body><office:spreadsheet><table:table table:name="Sheet1">'
        "<table:table-row><table:table-cell><text:p>123</text:p></table:table-cell>"
        "<table:table-cell><text:p>hello</text:p></table:table-cell></table:table-row>"
        "<table:table-row><table:table-cell><text:p>456</text:p></table:table-cell></table:table-row>"
        "</table:table></office:spreadsheet></office:body></office:document-content>" % namespaces
    )
    ods_path = os.path.join(folder, "data.ods")
    with zipfile.ZipFile(ods_path, "w") as ods_zip:
        ods_zip.writestr("content.xml", content.encode("utf-8"))
    cid = interface.create_cid_from_string(CID_TEMPLATE % "ods")
    try:
        print("ods, row 2 stores only cell A2: accepted %r" % list(validio.rows(cid, ods_path)))
    except errors.DataError as error:
        print("ods, row 2 stores only cell A2: VIOLATION, rejected: %s" % error)
        violations += 1

print("violations: %d" % violations)
sys.exit(1 if violations else 0)
