"""
Finding 1: fixed data, "Allowed characters" without the blank: a cell consisting
only of blanks is rejected although the field is marked as allowed to be empty.
Exit code 1 = violation present, 0 = not present.
"""
import sys

sys.path.insert(0, "/tmp/audit_C03")
import io
import logging
import os
import tempfile

from cutplace import applications, errors, interface, validio

CID_TEXT = """d,format,fixed
d,line delimiter,lf
d,allowed characters,33...126
f,code,,x,3,Integer
f,name,,,3,Text
"""
DATA_TEXT = "   abc\n123abc\n"  # row 1: 'code' is blanks only (= empty), row 2: everything filled

violations = 0

# 1. API, reading.
cid = interface.create_cid_from_string(CID_TEXT)
print("CID:\n" + CID_TEXT)
print("data: %r" % DATA_TEXT)
try:
    rows = list(validio.rows(cid, io.StringIO(DATA_TEXT)))
    print("validio.rows(): accepted %r" % rows)
except errors.DataError as error:
    print("validio.rows(): VIOLATION, blanks-only cell of field marked 'x' rejected: %s" % error)
    violations += 1

# 2. API, field format on its own, every field type that can be declared that way.
for field_type, rule in [
    ("Text", ""), ("Integer", ""), ("Decimal", ""), ("DateTime", "YYYY"), ("Choice", "abc"), ("RegEx", ".*"), ("Pattern", "*"),
]:
    cid_for_type = interface.create_cid_from_string(
        'd,format,fixed\nd,allowed characters,33...126\nf,a,,x,3,%s,"%s"\n' % (field_type, rule)
    )
    field_format = cid_for_type.field_formats[0]
    try:
        result = field_format.validated("   ")
        print("%s.validated('   ') -> %r (expected %r)" % (field_type, result, field_format.empty_value))
        if result != field_format.empty_value:
            violations += 1
    except errors.FieldValueError as error:
        print("%s.validated('   '): VIOLATION, rejected: %s" % (field_type, error))
        violations += 1

# 3. API, writing: Writer pads the empty value with blanks and then refuses its own padding.
with io.StringIO() as target:
    writer = validio.Writer(cid, target)
    try:
        writer.write_row(["", "abc"])
        print("Writer.write_row(['', 'abc']): accepted, wrote %r" % target.getvalue())
    except errors.DataError as error:
        print("Writer.write_row(['', 'abc']): VIOLATION, rejected: %s" % error)
        violations += 1

# 4. Command line.
logging.basicConfig(level=logging.INFO)
with tempfile.TemporaryDirectory() as folder:
    cid_path = os.path.join(folder, "cid.csv")
    data_path = os.path.join(folder, "data.txt")
    with open(cid_path, "w", encoding="utf-8", newline="") as cid_file:
        cid_file.write(CID_TEXT)
    with open(data_path, "w", encoding="cp1252", newline="") as data_file:
        data_file.write(DATA_TEXT)
    exit_code = applications.main(["cutplace", cid_path, data_path])
    print("command line exit code: %d (expected 0)" % exit_code)
    if exit_code != 0:
        violations += 1

print("violations: %d" % violations)
sys.exit(1 if violations else 0)
