"""Locate real source in /repo: modules, classes, functions (ast), import tables."""
import ast, hashlib, os

REPO = os.environ.get("PYVC_REPO", "/repo")

class Module:
    def __init__(self, name):
        self.name = name
        self.path = os.path.join(REPO, "cutplace", name + ".py")
        self.text = open(self.path, encoding="utf-8").read()
        self.tree = ast.parse(self.text)
        self.functions = {}; self.classes = {}; self.imports = {}; self.constants = {}
        for n in self.tree.body:
            if isinstance(n, ast.FunctionDef): self.functions[n.name] = n
            elif isinstance(n, ast.ClassDef): self.classes[n.name] = ClassInfo(self, n)
            elif isinstance(n, ast.ImportFrom):
                for a in n.names: self.imports[a.asname or a.name] = (n.module, a.name)
            elif isinstance(n, ast.Import):
                for a in n.names: self.imports[a.asname or a.name] = (a.name, None)
            elif isinstance(n, ast.Assign) and len(n.targets) == 1 and isinstance(n.targets[0], ast.Name):
                self.constants[n.targets[0].id] = n.value

class ClassInfo:
    def __init__(self, module, node):
        self.module = module; self.node = node; self.name = node.name
        self.bases = [ast.unparse(b) for b in node.bases]
        self.methods = {}; self.properties = {}; self.statics = set(); self.attrs = {}
        for m in node.body:
            if isinstance(m, ast.FunctionDef):
                decos = [ast.unparse(d) for d in m.decorator_list]
                if "property" in decos: self.properties[m.name] = m
                elif any(d.endswith(".setter") for d in decos): self.properties.setdefault(m.name + "@setter", m)
                else:
                    self.methods[m.name] = m
                    if "staticmethod" in decos: self.statics.add(m.name)
            elif isinstance(m, ast.Assign) and len(m.targets) == 1 and isinstance(m.targets[0], ast.Name):
                # e.g. example = property(_get, _set) or class constants
                self.attrs[m.targets[0].id] = m.value

_modules = {}
def module(name):
    if name not in _modules: _modules[name] = Module(name)
    return _modules[name]


_MUTATORS = {"append", "add", "update", "setdefault", "pop", "popitem", "clear", "extend", "insert", "remove", "discard", "sort", "reverse", "__setitem__"}

def shared_mutable_names(mod):
    """names of module-level / class-level containers (dict / list / set built by a display or dict() / list() / set()) that some code of
    the module mutates in place or rebinds through `global`: their content at a call depends on the history of earlier calls, which a
    per-call contract cannot see. The engine refuses to read them (undecided) instead of pretending they are still as initialised."""
    cached = getattr(mod, "_shared_mutable", None)
    if cached is not None: return cached
    def is_container(v):
        return isinstance(v, (ast.Dict, ast.List, ast.Set, ast.DictComp, ast.ListComp, ast.SetComp)) or (isinstance(v, ast.Call) and isinstance(v.func, ast.Name) and v.func.id in ("dict", "list", "set", "defaultdict", "OrderedDict"))
    cand = {n for n, v in mod.constants.items() if is_container(v)}
    for k in mod.classes.values():
        cand |= {n for n, v in k.attrs.items() if is_container(v)}
    hit = set()
    def leaf(e):
        if isinstance(e, ast.Attribute): return e.attr
        if isinstance(e, ast.Name): return e.id
        return None
    for n in ast.walk(mod.tree):
        if isinstance(n, ast.Global): hit |= set(n.names) & set(mod.constants)
        tg = []
        if isinstance(n, ast.Assign): tg = n.targets
        elif isinstance(n, (ast.AugAssign, ast.AnnAssign)): tg = [n.target]
        elif isinstance(n, ast.Delete): tg = n.targets
        for t in tg:
            for sub in ast.walk(t):
                if isinstance(sub, ast.Subscript) and leaf(sub.value) in cand: hit.add(leaf(sub.value))
        if isinstance(n, ast.Call) and isinstance(n.func, ast.Attribute) and n.func.attr in _MUTATORS and leaf(n.func.value) in cand:
            hit.add(leaf(n.func.value))
    # a container nothing ever reads (every use is the receiver of a mutator call whose result is discarded, e.g. a list that only keeps
    # objects alive) cannot carry behaviour from one call to the next: not hidden state in the sense above
    write_only = set()
    for name in hit:
        mut_receivers = set(); loads = 0
        for n in ast.walk(mod.tree):
            if isinstance(n, ast.Expr) and isinstance(n.value, ast.Call) and isinstance(n.value.func, ast.Attribute) and n.value.func.attr in ("append", "add", "extend") and leaf(n.value.func.value) == name:
                mut_receivers.add(id(n.value.func.value))
        for n in ast.walk(mod.tree):
            if isinstance(n, (ast.Name, ast.Attribute)) and leaf(n) == name and isinstance(getattr(n, "ctx", None), ast.Load) and id(n) not in mut_receivers: loads += 1
        if loads == 0 and mut_receivers: write_only.add(name)
    hit -= write_only
    mod._write_only_containers = write_only
    mod._shared_mutable = hit
    return hit

def find_class(name, hint_module=None):
    mods = [hint_module] if hint_module else []
    mods += ["errors", "ranges", "fields", "checks", "data", "interface", "validio", "rowio", "applications", "sql", "_tools", "_compat"]
    for m in mods:
        if m is None: continue
        mod = module(m) if isinstance(m, str) else m
        if name in mod.classes: return mod.classes[name]
    return None

def mro(cls):
    out = [cls]
    for b in cls.bases:
        bn = b.split(".")[-1]
        bc = find_class(bn, cls.module)
        if bc is not None: out += mro(bc)
    return out

def is_subclass(name, base):
    if name == base: return True
    c = find_class(name)
    if c is None: return _builtin_subclass(name, base)
    for k in mro(c):
        if k.name == base: return True
        for b in k.bases:
            if _builtin_subclass(b.split(".")[-1], base): return True
    return False

_BUILTIN_BASES = {"AssertionError": "Exception", "ValueError": "Exception", "KeyError": "LookupError", "IndexError": "LookupError",
                  "LookupError": "Exception", "TypeError": "Exception", "AttributeError": "Exception", "NotImplementedError": "RuntimeError",
                  "RuntimeError": "Exception", "Exception": "BaseException", "GeneratorExit": "BaseException", "UnicodeDecodeError": "UnicodeError",
                  "UnicodeError": "ValueError", "OSError": "Exception", "EnvironmentError": "OSError", "NameError": "Exception", "StopIteration": "Exception",
                  "InvalidOperation": "DecimalException", "DecimalException": "ArithmeticError", "ArithmeticError": "Exception", "ZeroDivisionError": "ArithmeticError",
                  "TokenError": "Exception", "SyntaxError": "Exception", "IndentationError": "SyntaxError", "UnicodeEncodeError": "UnicodeError", "FileNotFoundError": "OSError",
                  "IsADirectoryError": "OSError", "PermissionError": "OSError", "IOError": "OSError", "UnboundLocalError": "NameError", "RecursionError": "RuntimeError",
                  "Error": "Exception", "error": "Exception", "XLRDError": "Exception", "BadZipFile": "Exception", "EOFError": "Exception", "ParseError": "SyntaxError", "SystemExit": "BaseException", "KeyboardInterrupt": "BaseException"}
_ALIASES = {"EnvironmentError": "OSError", "IOError": "OSError"}
def _builtin_subclass(name, base):
    name = _ALIASES.get(name, name); base = _ALIASES.get(base, base)
    while name is not None:
        if name == base: return True
        name = _BUILTIN_BASES.get(name)
    return False

def lookup_method(cls, name):
    for k in mro(cls):
        if name in k.methods: return k, k.methods[name]
    return None, None
def lookup_property(cls, name):
    for k in mro(cls):
        if name in k.properties: return k, k.properties[name]
    return None, None

def get_function(qualname):
    """'ranges.Range.validate' or 'rowio.fixed_rows' -> (module, classinfo|None, FunctionDef)"""
    parts = qualname.split(".")
    mod = module(parts[0])
    if len(parts) == 2: return mod, None, mod.functions[parts[1]]
    cls = mod.classes[parts[1]]
    fn = cls.methods.get(parts[2]) or cls.properties.get(parts[2])
    if fn is None:
        # not defined in the class itself any more: what runs is the inherited method (e.g. an override that was removed)
        k, m = lookup_method(cls, parts[2])
        if m is not None: return k.module, cls, m
    return mod, cls, fn

_PLAIN_DECORATORS = ("property", "staticmethod", "classmethod")

def foreign_decorators(fn):
    """decorators of a FunctionDef other than property / staticmethod / classmethod / <name>.setter: such a wrapper (a cache, a retry, ...)
    runs instead of the body the contract was generated from"""
    out = []
    for d in getattr(fn, "decorator_list", []):
        t = ast.unparse(d)
        if t in _PLAIN_DECORATORS or t.endswith(".setter") or t.endswith(".getter"): continue
        out.append(t)
    return out

def source_hash(mod, fn):
    seg = ast.get_source_segment(mod.text, fn)
    return hashlib.sha256(seg.encode()).hexdigest()[:16], fn.lineno, fn.end_lineno
