"""
pyvc prototype core: typed symbolic values over z3, explicit heap, path states.
(Prototype written during the design phase to validate DESIGN.md; not framework code.)
"""
import itertools, z3

# ---------------------------------------------------------------- types
class Ty:
    def __init__(self, kind, *args, **kw):
        self.kind = kind; self.args = args; self.kw = kw
    def __repr__(self):
        return self.kind + ("[" + ",".join(map(repr, self.args)) + "]" if self.args else "")
    def __eq__(self, o): return isinstance(o, Ty) and repr(self) == repr(o)
    def __hash__(self): return hash(repr(self))

INT = Ty("int"); BOOL = Ty("bool"); STR = Ty("str"); REAL = Ty("real"); NONE = Ty("none")
DEC = Ty("dec")      # decimal.Decimal: mathematical value + finiteness flag (NaN / Infinity are non-finite)
def Opt(t): return Ty("opt", t)
def Tup(*ts): return Ty("tuple", *ts)
def UFList(t): return Ty("uflist", t)
def SeqList(t): return Ty("seqlist", t)
def Obj(cls): return Ty("obj", cls)
def Abs(name): return Ty("abs", name)     # uninterpreted sort
def UFDictOf(k, v): return Ty("ufdict", k, v)    # dict as has/val functions (only as the type of a loop-havoc'ed local; values are decoded as Sym(v))

_sort_cache = {}
def sort_of(ty):
    key = repr(ty)
    if key in _sort_cache: return _sort_cache[key]
    k = ty.kind
    if k == "int": s = z3.IntSort()
    elif k == "bool": s = z3.BoolSort()
    elif k == "str": s = z3.StringSort()
    elif k == "real": s = z3.RealSort()
    elif k == "abs": s = z3.DeclareSort(ty.args[0])
    elif k == "dec":
        d = z3.Datatype("Dec"); d.declare("mkdec", ("dval", z3.RealSort()), ("dfin", z3.BoolSort())); s = d.create()
    elif k == "opt":
        d = z3.Datatype("Opt_" + _mangle(ty.args[0])); d.declare("none"); d.declare("some", ("val", sort_of(ty.args[0]))); s = d.create()
    elif k == "tuple":
        d = z3.Datatype("Tup_" + "_".join(_mangle(a) for a in ty.args))
        d.declare("mk", *[("f%d" % i, sort_of(a)) for i, a in enumerate(ty.args)]); s = d.create()
    elif k == "seqlist": s = z3.SeqSort(sort_of(ty.args[0]))
    elif k == "obj": s = z3.IntSort()   # object ids
    else: raise NotImplementedError(ty)
    _sort_cache[key] = s
    return s

def _mangle(ty): return repr(ty).replace("[", "_").replace("]", "_").replace(",", "_")

# ---------------------------------------------------------------- values
class Sym:
    """A symbolic value: a z3 term with a Ty."""
    __slots__ = ("ty", "z")
    def __init__(self, ty, z): self.ty = ty; self.z = z
    def __repr__(self): return "Sym(%r,%s)" % (self.ty, self.z)

class UFL:
    """UF list: at(i) -> z3 term of elem sort; length z3 Int."""
    def __init__(self, elem_ty, at, length): self.elem_ty = elem_ty; self.at = at; self.length = length
    def __repr__(self): return "UFL(%r,len=%s)" % (self.elem_ty, self.length)

class UFDict:
    """symbolic dict: has(k) / val(k) as functions over z3 key terms, explicit size. Values pass through a codec
    (encode(st, python value) -> z3 term, decode(st, z3 term) -> python value) so that heap objects can be stored as snapshots."""
    def __init__(self, key_ty, val_sort, has, val, size, encode=None, decode=None):
        self.key_ty = key_ty; self.val_sort = val_sort; self.has = has; self.val = val; self.size = size
        self.encode = encode or (lambda st, v: lift(v).z); self.decode = decode
    def updated(self, kz, vz):
        import z3 as _z
        h, v = self.has, self.val
        return UFDict(self.key_ty, self.val_sort, (lambda k, h=h, kz=kz: _z.Or(k == kz, h(k))), (lambda k, v=v, kz=kz, vz=vz: _z.If(k == kz, vz, v(k))),
                      _z.If(h(kz), self.size, self.size + 1), self.encode, self.decode)
    def __repr__(self): return "UFDict(%r)" % (self.key_ty,)

def fresh_ufdict(key_ty, val_sort, hint="d", encode=None, decode=None):
    n = "%s!%d" % (hint, next(_fresh))
    hasf = z3.Function(n + "_has", sort_of(key_ty), z3.BoolSort()); valf = z3.Function(n + "_val", sort_of(key_ty), val_sort); size = z3.Int(n + "_size")
    return UFDict(key_ty, val_sort, (lambda k: hasf(k)), (lambda k: valf(k)), size, encode, decode), [size >= 0]

class Ref:
    """Reference to a heap object (concrete identity)."""
    _ids = itertools.count(1); classes = {}
    def __init__(self, cls, oid=None):
        self.cls = cls; self.oid = oid or next(Ref._ids); Ref.classes[self.oid] = cls
    def __repr__(self): return "<%s#%d>" % (self.cls, self.oid)
    def __eq__(self, o): return isinstance(o, Ref) and o.oid == self.oid
    def __hash__(self): return hash(self.oid)

class Exc:
    """Exception value: class name + attribute dict (message, location ...)."""
    def __init__(self, cls, args=(), attrs=None): self.cls = cls; self.args = tuple(args); self.attrs = attrs or {}
    def __repr__(self): return "Exc(%s,%r)" % (self.cls, self.args)

_fresh = itertools.count()
def fresh(ty, hint="v"):
    n = "%s!%d" % (hint, next(_fresh))
    if ty.kind == "uflist":
        f = z3.Function(n + "_at", z3.IntSort(), sort_of(ty.args[0])); ln = z3.Int(n + "_len")
        return UFL(ty.args[0], (lambda i, f=f: f(i)), ln), [ln >= 0]
    if ty.kind == "ufdict":
        return fresh_ufdict(ty.args[0], sort_of(ty.args[1]), hint, None, (lambda st_, z, t=ty.args[1]: Sym(t, z)))
    return Sym(ty, z3.Const(n, sort_of(ty))), []

def lift(v):
    """Python concrete -> z3 term with type; Sym passes through."""
    if isinstance(v, Sym): return v
    if isinstance(v, bool): return Sym(BOOL, z3.BoolVal(v))
    if isinstance(v, int): return Sym(INT, z3.IntVal(v))
    if isinstance(v, str): return Sym(STR, z3.StringVal(v))
    import decimal as _dec
    if isinstance(v, _dec.Decimal):
        ds = sort_of(DEC)
        if v.is_finite():
            n, d = v.as_integer_ratio(); return Sym(DEC, ds.mkdec(z3.RealVal(n) / z3.RealVal(d) if d != 1 else z3.RealVal(n), z3.BoolVal(True)))
        return Sym(DEC, ds.mkdec(z3.RealVal(0), z3.BoolVal(False)))
    raise TypeError("cannot lift %r" % (v,))

def dec_val(z): return sort_of(DEC).dval(z)
def dec_fin(z): return sort_of(DEC).dfin(z)
def mk_dec(val, fin=True): return sort_of(DEC).mkdec(val, z3.BoolVal(fin) if isinstance(fin, bool) else fin)
def to_real(v):
    """numeric symbolic/concrete value -> z3 Real term (dec: its value)"""
    v = lift(v)
    if v.ty.kind == "dec": return dec_val(v.z)
    if v.ty.kind == "int": return z3.ToReal(v.z)
    return v.z

def is_sym(v): return isinstance(v, Sym)

# option helpers
def opt_is_none(v):
    if v is None: return True
    if isinstance(v, Sym) and v.ty.kind == "opt": return Sym(BOOL, sort_of(v.ty).is_none(v.z))
    return False
def opt_payload(v):
    s = sort_of(v.ty); return Sym(v.ty.args[0], s.val(v.z))
def mk_opt(ty, v):
    s = sort_of(ty)
    if v is None: return Sym(ty, s.none)
    return Sym(ty, s.some(lift(v).z))

# ---------------------------------------------------------------- state
class State:
    def __init__(self):
        self.env = {}; self.heap = {}; self.pc = []; self.ghost = {}; self.notes = []
    def copy(self):
        s = State(); s.env = dict(self.env); s.heap = {k: dict(v) for k, v in self.heap.items()}
        s.pc = list(self.pc); s.ghost = dict(self.ghost); s.notes = list(self.notes); return s
    def assume(self, c):
        if c is True: return
        self.pc.append(c.z if isinstance(c, Sym) else c)

class Stats:
    queries = 0; time = 0.0
def check(pc, extra=None, rlimit=5_000_000):
    import time
    s = z3.Solver(); s.set("rlimit", rlimit)
    for c in pc: s.add(c)
    if extra is not None: s.add(extra)
    t0 = time.time(); r = s.check(); Stats.queries += 1; Stats.time += time.time() - t0
    return r, s
def _has_quant(e, _cache={}):
    k = e.get_id()
    if k in _cache: return _cache[k]
    todo = [e]; seen = set(); res = False
    while todo:
        x = todo.pop()
        if x.get_id() in seen: continue
        seen.add(x.get_id())
        if z3.is_quantifier(x): res = True; break
        todo.extend(x.children())
    _cache[k] = res
    return res
def feasible(pc, extra=None):
    """path feasibility on the quantifier-free part of the path condition (over-approximation: sound,
    an infeasible path that survives only yields obligations that are proved from the full condition)"""
    qf = [c for c in pc if not _has_quant(c)]
    if extra is not None and z3.is_expr(extra):
        # the path condition literally says the opposite: no solver needed (and none that could run out of budget on the string terms next to it)
        neg = extra.arg(0) if z3.is_not(extra) else None
        for c in qf:
            if (z3.is_not(c) and c.arg(0).eq(extra)) or (neg is not None and c.eq(neg)): return False
    r, _ = check(qf, extra, rlimit=2_000_000)
    if r == z3.unknown:          # out of budget, not "feasible": one more try with a larger budget before the path is kept (keeping it is the sound default)
        r, _ = check(qf, extra, rlimit=60_000_000)
    return r != z3.unsat

def unopt(v):
    """payload of an optional value already known (by the path condition) not to be None"""
    if isinstance(v, Sym) and v.ty.kind == "opt": return opt_payload(v)
    return v

def lift_to(ty, v):
    """convert a Python-level value (possibly a tuple of symbolic parts / None) to a z3 term of type ty"""
    if isinstance(v, Sym) and v.ty == ty: return v.z
    k = ty.kind
    if isinstance(v, Sym) and v.ty.kind == "opt" and k != "opt": v = opt_payload(v)       # value known not to be None on this path
    if isinstance(v, Sym) and v.ty == ty: return v.z
    if k == "opt":
        srt = sort_of(ty)
        if v is None: return srt.none
        if isinstance(v, Sym) and v.ty.kind == "opt": return v.z
        return srt.some(lift_to(ty.args[0], v))
    if k == "tuple":
        srt = sort_of(ty)
        if isinstance(v, Sym): return v.z
        return srt.mk(*[lift_to(t, x) for t, x in zip(ty.args, v)])
    return lift(v).z
