"""Discharging obligations: z3 (API, resource-limited) first, cvc5 (CLI) for what z3 leaves unknown.

Budgets are z3 *resource* limits (rlimit), not wall-clock, so that verdicts do not flip when all cores are busy.
cvc5 gets a generous wall-clock limit and is only ever used to turn an `unknown` into `proved` (unsat);
a cvc5 `sat` on a quantified query is not trusted as a counterexample (no model is extracted), it stays `unknown`.
"""
import os, subprocess, tempfile, time
import z3

CVC5 = "/usr/bin/cvc5"
DEFAULT_RLIMIT = int(os.environ.get("PYVC_RLIMIT", "8000000"))
CVC5_TLIMIT_MS = int(os.environ.get("PYVC_CVC5_MS", "20000"))
# the fall-back for what z3 leaves unknown decides a verdict, so its wall-clock limit is sized for a machine whose cores are all busy
CVC5_FALLBACK_MS = int(os.environ.get("PYVC_CVC5_FALLBACK_MS", "90000"))


def z3_check(pc, goal, rlimit=DEFAULT_RLIMIT):
    s = z3.Solver()
    s.set("rlimit", rlimit)
    for c in pc:
        s.add(c)
    s.add(z3.Not(goal))
    t0 = time.time()
    r = s.check()
    dt = time.time() - t0
    if r == z3.unsat:
        return "proved", None, dt, s
    if r == z3.sat:
        return "refuted", s.model(), dt, s
    return "unknown", None, dt, s


def cvc5_check(solver, tlimit_ms=CVC5_TLIMIT_MS):
    """solver: a z3.Solver holding pc + negated goal. Returns 'unsat' | 'sat' | 'unknown' | 'error:<msg>'."""
    text = "(set-logic ALL)\n" + solver.to_smt2()
    if "seq.nth_u" in text or "seq.nth_i" in text:
        return "unknown"       # z3-only symbols in the export
    fd, path = tempfile.mkstemp(suffix=".smt2", prefix="pyvc_")
    try:
        with os.fdopen(fd, "w") as f:
            f.write(text)
        try:
            out = subprocess.run([CVC5, "--strings-exp", "--tlimit=%d" % tlimit_ms, path], capture_output=True, text=True,
                                 timeout=tlimit_ms / 1000.0 + 10)
        except subprocess.TimeoutExpired:
            return "unknown"
        lines = out.stdout.strip().splitlines()
        first = lines[0].strip() if lines else ""
        if first in ("sat", "unsat", "unknown"):
            return first
        return "unknown"
    finally:
        try:
            os.unlink(path)
        except OSError:
            pass


def discharge(ob, rlimit=DEFAULT_RLIMIT, use_cvc5=True, both=False):
    """Fill ob.result / ob.model / ob.time / ob.backend."""
    res, model, dt, solver = z3_check(ob.pc, ob.goal, rlimit)
    ob.result, ob.model, ob.time, ob.backend = res, model, dt, "z3"
    if res == "unknown" and use_cvc5 and os.path.exists(CVC5):
        t0 = time.time()
        r = cvc5_check(solver, CVC5_FALLBACK_MS)
        ob.time += time.time() - t0
        if r == "unsat":
            ob.result = "proved"
            ob.backend = "cvc5"
    elif res == "proved" and both and os.path.exists(CVC5):
        t0 = time.time()
        r = cvc5_check(solver)
        ob.time += time.time() - t0
        ob.second = r
        if r == "sat":
            ob.result = "disagree"
        elif r == "unsat":
            ob.backend = "z3+cvc5"
    return ob.result
