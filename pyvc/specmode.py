"""Spec-mode evaluation: Python expression AST -> z3 term / value, no forking, total."""
import ast, z3
from .core import *

class SpecEval:
    def __init__(self, ex, st, extra):
        self.ex = ex; self.st = st; self.extra = dict(extra)

    def ev(self, n):
        m = getattr(self, "v_" + type(n).__name__, None)
        if m is None: raise NotImplementedError("spec expr " + ast.unparse(n))
        return m(n)

    def v_Constant(self, n): return n.value
    def v_Name(self, n):
        if n.id in self.extra: return self.extra[n.id]
        env = self.st.frames[-1].env
        if n.id in env: return env[n.id]
        if n.id in self.st.ghost: return self.st.ghost[n.id]
        if n.id in self.ex.spec_functions: return self.ex.spec_functions[n.id]
        return self.ex.lookup_global(self.st.frames[-1].mod, n.id)
    def v_Attribute(self, n):
        base = self.ev(n.value)
        if isinstance(base, Ref):
            obj = self.st.heap[base.oid]
            if n.attr in obj: return obj[n.attr]
            raise KeyError("%r has no field %s" % (base, n.attr))
        res = list(self.ex.getattr(self.st, base, n.attr))
        assert len(res) == 1
        return res[0][1]
    def v_Tuple(self, n): return tuple(self.ev(e) for e in n.elts)
    def v_UnaryOp(self, n):
        v = self.ev(n.operand)
        if isinstance(n.op, ast.Not): return self.ex.neg(self.ex.truth(v))
        if isinstance(n.op, ast.USub): return Sym(v.ty, -v.z) if isinstance(v, Sym) else -v
    def v_BoolOp(self, n):
        vs = [self.ex.truth(self.ev(v)) for v in n.values]
        return self.ex.conj(vs) if isinstance(n.op, ast.And) else self.ex.disj(vs)
    def v_IfExp(self, n):
        c = self.ex.truth(self.ev(n.test)); a = self.ev(n.body); b = self.ev(n.orelse)
        if not isinstance(c, Sym): return a if c else b
        la, lb = lift(a), lift(b)
        return Sym(la.ty, z3.If(c.z, la.z, lb.z))
    def v_BinOp(self, n):
        a = self.ev(n.left); b = self.ev(n.right)
        res = list(self.ex.binop(self.st, n.op, a, b)); return res[0][1]
    def v_Compare(self, n):
        left = self.ev(n.left); out = []
        for op, c in zip(n.ops, n.comparators):
            right = self.ev(c)
            out.append(self.cmp(op, left, right)); left = right
        return self.ex.conj(out)
    def cmp(self, op, a, b):
        if isinstance(op, (ast.Is, ast.IsNot, ast.Eq, ast.NotEq, ast.In, ast.NotIn)):
            res = list(self.ex.compare(self.st, op, a, b)); return res[0][1]
        # ordering: unwrap options totally (guarded by spec author)
        def un(v):
            if isinstance(v, Sym) and v.ty.kind == "opt": return opt_payload(v)
            return v
        a, b = un(a), un(b)
        if not isinstance(a, Sym) and not isinstance(b, Sym):
            import operator
            return {ast.Lt: operator.lt, ast.LtE: operator.le, ast.Gt: operator.gt, ast.GtE: operator.ge}[type(op)](a, b)
        if lift(a).ty.kind in ("dec", "real") or lift(b).ty.kind in ("dec", "real"):
            az, bz = to_real(a), to_real(b)
        else:
            az, bz = lift(a).z, lift(b).z
        return Sym(BOOL, {ast.Lt: az < bz, ast.LtE: az <= bz, ast.Gt: az > bz, ast.GtE: az >= bz}[type(op)])
    def v_Subscript(self, n):
        base = self.ev(n.value)
        if isinstance(n.slice, ast.Slice):
            lo = self.ev(n.slice.lower) if n.slice.lower else None; hi = self.ev(n.slice.upper) if n.slice.upper else None
            return list(self.ex.slice(self.st, base, lo, hi, None))[0][1]
        idx = self.ev(n.slice)
        if isinstance(base, UFL): return Sym(base.elem_ty, base.at(lift(idx).z))
        if isinstance(base, Sym) and base.ty.kind == "tuple":
            return Sym(base.ty.args[idx], sort_of(base.ty).accessor(0, idx)(base.z))
        if isinstance(base, Sym) and base.ty.kind == "seqlist": return Sym(base.ty.args[0], base.z[lift(idx).z])
        if isinstance(base, (list, tuple, dict)) and not isinstance(idx, Sym): return base[idx]
        raise NotImplementedError("spec subscript")
    def v_Call(self, n):
        fname = ast.unparse(n.func)
        if fname in ("forall", "exists"):
            var = n.args[0].id
            i = z3.Int("%s!q%d" % (var, next(_q)))
            self.extra[var] = Sym(INT, i)
            guard = self.ex.truth(self.ev(n.args[1])); body = self.ex.truth(self.ev(n.args[2]))
            del self.extra[var]
            g, b = lift(guard).z, lift(body).z
            return Sym(BOOL, z3.ForAll([i], z3.Implies(g, b)) if fname == "forall" else z3.Exists([i], z3.And(g, b)))
        if fname == "implies":
            a = lift(self.ex.truth(self.ev(n.args[0]))).z; b = lift(self.ex.truth(self.ev(n.args[1]))).z
            return Sym(BOOL, z3.Implies(a, b))
        if fname == "iff":
            a = lift(self.ex.truth(self.ev(n.args[0]))).z; b = lift(self.ex.truth(self.ev(n.args[1]))).z
            return Sym(BOOL, a == b)
        if fname == "len":
            v = self.ev(n.args[0])
            if isinstance(v, UFL): return Sym(INT, v.length)
            if isinstance(v, Sym) and v.ty.kind in ("str", "seqlist"): return Sym(INT, z3.Length(v.z))
            if isinstance(v, Sym) and v.ty.kind == "opt": return Sym(INT, z3.Length(opt_payload(v).z))
            return len(v)
        if fname == "old":
            return SpecEval(self.ex, self.extra["__old__"], self.extra).ev(n.args[0])
        if isinstance(n.func, ast.Name) and n.func.id in self.ex.spec_functions: f = self.ex.spec_functions[n.func.id]
        else: f = self.ev(n.func)
        args = [self.ev(a) for a in n.args]
        if callable(f): return f(self.ex, self.st, *args)
        raise NotImplementedError("spec call " + fname)
import itertools
_q = itertools.count()
