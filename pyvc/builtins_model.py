"""Models of Python builtins used by the carrier functions."""
import ast, z3
from .core import *
from .symexec import Raise, Unsupported, EnumerateOf, FuncRef, BuiltinRef, repr_str, Opaque
from . import source as S

import itertools as _it
_ix = _it.count()

def call(ex, st, fn, args, kw, node):
    name = fn.name
    bc = ex.contracts.get("builtin:" + name)
    if bc is not None:
        yield from bc(ex, st, fn, args, kw); return
    from .symexec import Opaque
    if any(isinstance(a, Opaque) for a in args) and name in ("sum", "len", "str", "repr", "_compat.text_repr", "sorted", "list"):
        yield st, Opaque(); return
    if name in ("os.path.splitext", "os.path.basename", "os.path.join", "os.path.dirname") and all(isinstance(a, str) for a in args):
        import os
        yield st, getattr(os.path, name.split(".")[-1])(*args); return
    if name == "os.path.basename" and isinstance(args[0], Sym):
        yield st, Sym(STR, ex.absfun_s("path_basename", [z3.StringSort()], z3.StringSort())(args[0].z)); return
    if name == "len":
        v = args[0]
        if v is None or isinstance(v, (int, bool)) and not isinstance(v, str):
            yield st, Raise(ex.new_builtin_exc(st, "TypeError", ["object of type '%s' has no len()" % type(v).__name__])); return
        if isinstance(v, Sym) and v.ty.kind == "opt":
            if feasible(st.pc, sort_of(v.ty).is_none(v.z)):
                sb = st.copy(); sb.pc.append(sort_of(v.ty).is_none(v.z)); yield sb, Raise(ex.new_builtin_exc(sb, "TypeError", ["object of type 'NoneType' has no len()"]))
                st.pc.append(z3.Not(sort_of(v.ty).is_none(v.z)))
            v = opt_payload(v)
        if isinstance(v, Sym) and v.ty.kind == "abs" and ("abslen:" + v.ty.args[0]) in ex.contracts:
            yield st, ex.contracts["abslen:" + v.ty.args[0]](ex, st, v); return
        if isinstance(v, UFL): yield st, Sym(INT, v.length); return
        if isinstance(v, UFDict): yield st, Sym(INT, v.size); return
        if isinstance(v, Sym) and v.ty.kind in ("str", "seqlist"): yield st, Sym(INT, z3.Length(v.z)); return
        if isinstance(v, Sym) and v.ty.kind == "tuple": yield st, len(v.ty.args); return
        yield st, len(v); return
    if name == "getattr" and len(args) in (2, 3) and isinstance(args[1], str) and not kw:
        obj, attr = args[0], args[1]
        if len(args) == 3 and (obj is None or isinstance(obj, (str, int, bytes)) or (isinstance(obj, Sym) and obj.ty.kind in ("str", "int", "bool", "dec"))) and attr not in ("real", "imag"):
            yield st, args[2]; return              # plain values have no such attribute (the attributes asked for here are names like 'name')
        if isinstance(obj, Ref):
            for s2, v in ex.getattr(st, obj, attr):
                if isinstance(v, Raise) and len(args) == 3 and s2.heap[v.exc.oid].get("__class__", getattr(v.exc, "cls", None)) in ("AttributeError", None) and getattr(v.exc, "cls", "") == "AttributeError":
                    yield s2, args[2]
                else: yield s2, v
            return
    if name == "isinstance":
        v, t = args
        tn = getattr(t, "name", None) or getattr(getattr(t, "info", None), "name", None)
        if tn == "decimal.Decimal":
            import decimal as _dec
            if isinstance(v, Sym): yield st, v.ty.kind == "dec"; return
            yield st, isinstance(v, _dec.Decimal); return
        if tn in ("bytes", "bytearray", "float", "list", "tuple", "dict"):
            if isinstance(v, Sym) and v.ty.kind in ("str", "int", "bool", "dec", "real"): yield st, False; return
            if isinstance(v, (str, int)) or v is None: yield st, False; return
            if isinstance(v, (tuple, list, dict)) and not isinstance(v, Opaque): yield st, type(v).__name__ == tn; return
            if isinstance(v, UFL): yield st, tn == "list"; return
            if isinstance(v, UFDict): yield st, tn == "dict"; return
        if tn == "bool":
            if isinstance(v, Sym): yield st, v.ty.kind == "bool"; return
            yield st, isinstance(v, bool); return
        if tn == "int":
            if isinstance(v, Sym) and v.ty.kind == "opt" and v.ty.args[0].kind == "int": yield st, Sym(BOOL, z3.Not(sort_of(v.ty).is_none(v.z))); return
            if isinstance(v, Sym): yield st, v.ty.kind == "int"; return
            yield st, isinstance(v, int); return
        if tn == "str":
            if isinstance(v, str) or (isinstance(v, Sym) and v.ty.kind == "str"): yield st, True; return
            if isinstance(v, Sym) and v.ty.kind == "opt" and v.ty.args[0].kind == "str":
                yield st, Sym(BOOL, z3.Not(sort_of(v.ty).is_none(v.z))); return
            if isinstance(v, Sym) and v.ty.kind == "abs":
                if v.ty.args[0] != "Cell": yield st, False; return           # abstract non-string values (floats, rows, ...)
                yield st, Sym(BOOL, ex.absfun("is_str", v.ty, BOOL)(v.z)); return      # abstract data cell: uninterpreted predicate
            yield st, False; return
        if isinstance(v, Ref): yield st, S.is_subclass(v.cls, tn); return
        raise Unsupported("isinstance %r %r" % (v, t))
    if name == "bool" and len(args) == 1:
        t = ex.truth(args[0]); yield st, t; return
    if name in ("any", "all") and len(args) == 1 and isinstance(args[0], (list, tuple)):
        ts = [ex.truth(x) for x in args[0]]
        if all(not isinstance(t, Sym) for t in ts): yield st, (any(ts) if name == "any" else all(ts)); return
        zs = [t.z if isinstance(t, Sym) else z3.BoolVal(bool(t)) for t in ts]
        yield st, Sym(BOOL, z3.Or(*zs) if name == "any" else z3.And(*zs)); return
    if name == "range":
        if all(isinstance(a, int) for a in args): yield st, list(range(*args)); return
        if len(args) <= 2:
            start = lift(args[0]).z if len(args) == 2 else z3.IntVal(0); stop = lift(args[-1]).z
            yield st, UFL(INT, (lambda i, start=start: start + i), z3.If(stop > start, stop - start, 0)); return
    if name == "enumerate":
        start = args[1] if len(args) > 1 else kw.get("start", 0)
        from .symexec import FallibleIter
        if isinstance(args[0], (list, tuple)) and not isinstance(args[0], Opaque) and isinstance(start, int):
            yield st, [(i, x) for i, x in enumerate(args[0], start)]; return        # concrete sequence: concrete pairs (the loop is unrolled)
        if isinstance(args[0], FallibleIter):
            yield st, FallibleIter(EnumerateOf(ex.as_ufl(st, args[0].seq), start), args[0].fail_at, args[0].raise_fn); return
        yield st, EnumerateOf(ex.as_ufl(st, args[0]), start); return
    if name == "repr" or name == "_compat.text_repr":
        yield st, Sym(STR, ex.to_str(st, args[0], "r")) if isinstance(args[0], Sym) else repr(args[0]); return
    if name == "str":
        v = args[0]
        if isinstance(v, Sym) and v.ty.kind == "abs" and ("strof:" + v.ty.args[0]) in ex.contracts:
            yield st, ex.contracts["strof:" + v.ty.args[0]](ex, st, v); return
        if isinstance(v, Ref) and ("ref:%s.__str__" % v.cls) in ex.contracts:
            yield from ex.contracts["ref:%s.__str__" % v.cls](ex, st, v, [], {}); return
        if isinstance(v, Ref) and S.find_class(v.cls) is None and isinstance(st.heap.get(v.oid, {}).get("args"), tuple) and len(st.heap[v.oid]["args"]) == 1 and isinstance(st.heap[v.oid]["args"][0], str):
            yield st, st.heap[v.oid]["args"][0]; return         # str(<built-in exception>) is its single argument
        if isinstance(v, Ref):
            cls = S.find_class(v.cls); k, m = S.lookup_method(cls, "__str__") if cls else (None, None)
            if m is not None:
                yield from ex.call_function(st, FuncRef(k.module, k, m, bound=v), [], {}); return
            f, _ = fresh(STR, "str"); yield st, f; return
        z = ex.to_str(st, v, "s"); yield st, (z.as_string() if z3.is_string_value(z) else Sym(STR, z)); return
    if name == "copy.copy":
        v = args[0]
        if v is None or isinstance(v, (bool, int, str)): yield st, v; return
        if isinstance(v, Ref):
            new = Ref(v.cls); st.heap[new.oid] = dict(st.heap[v.oid]); yield st, new; return
        if isinstance(v, Sym) and v.ty.kind in ("abs", "opt"): yield st, v; return     # abstract immutable snapshot
        raise Unsupported("copy.copy %r" % (v,))
    if name == "dict" and args and isinstance(args[0], ZipOf):
        yield st, args[0].as_map(); return
    if name == "zip":
        yield st, ZipOf(args[0], args[1]); return
    if name == "int" and len(args) == 2 and args[1] == 0 and isinstance(args[0], Sym):
        v = args[0]
        ok = ex.absfun_s("int0_parses", [z3.StringSort()], z3.BoolSort())(v.z); val = ex.absfun_s("int0_value", [z3.StringSort()], z3.IntSort())(v.z)
        for s2, b in ex.fork(st, Sym(BOOL, ok)):
            if b: yield s2, Sym(INT, val)
            else: yield s2, Raise(ex.new_builtin_exc(s2, "ValueError", ["invalid literal for int() with base 0"]))
        return
    if name == "int":
        v = args[0]
        if isinstance(v, (int, str)) and not kw and len(args) == 1:
            try: yield st, int(v)
            except ValueError: yield st, Raise(ex.new_builtin_exc(st, "ValueError", ["invalid literal"]))
            return
        if isinstance(v, Sym) and v.ty.kind == "str":
            # A-INT: abstract parse function
            ok = ex.absfun_s("int_parses", [z3.StringSort()], z3.BoolSort())(v.z); val = ex.absfun_s("int_value", [z3.StringSort()], z3.IntSort())(v.z)
            for s2, b in ex.fork(st, Sym(BOOL, ok)):
                if b: yield s2, Sym(INT, val)
                else: yield s2, Raise(ex.new_builtin_exc(s2, "ValueError", ["invalid literal for int()"]))
            return
    if name == "decimal.Decimal":
        import decimal as _dec
        v = args[0]
        if isinstance(v, Sym) and v.ty.kind == "dec": yield st, v; return
        if isinstance(v, Sym) and v.ty.kind == "int": yield st, Sym(DEC, mk_dec(z3.ToReal(v.z), True)); return
        if isinstance(v, int) and not isinstance(v, bool): yield st, lift(_dec.Decimal(v)); return
        if isinstance(v, str):
            try: yield st, lift(_dec.Decimal(v))
            except _dec.InvalidOperation: yield st, Raise(ex.new_builtin_exc(st, "InvalidOperation", ["invalid decimal literal"]))
            return
        if isinstance(v, Sym) and v.ty.kind == "str":
            # A-DEC: abstract partial parse function; raises only decimal.InvalidOperation
            ok = ex.absfun_s("dec_parses", [z3.StringSort()], z3.BoolSort())(v.z); val = ex.absfun_s("dec_of", [z3.StringSort()], sort_of(DEC))(v.z)
            for s2, b in ex.fork(st, Sym(BOOL, ok)):
                if b: yield s2, Sym(DEC, val)
                else: yield s2, Raise(ex.new_builtin_exc(s2, "InvalidOperation", ["invalid decimal literal"]))
            return
        raise Unsupported("decimal.Decimal(%r)" % (v,))
    if name in ("max", "min") and len(args) == 2 and all(isinstance(lift_or_none(a), Sym) for a in args):
        def payload(v):
            v = lift(v)
            if v.ty.kind == "opt":
                if feasible(st.pc, sort_of(v.ty).is_none(v.z)): raise Unsupported("max/min of a value that may be None")
                return opt_payload(v)
            return v
        a, b = payload(args[0]), payload(args[1])
        if a.ty.kind == "int" and b.ty.kind == "int":
            if not isinstance(args[0], Sym) and not isinstance(args[1], Sym): yield st, (max if name == "max" else min)(args[0], args[1]); return
            c = (a.z >= b.z) if name == "max" else (a.z <= b.z)
            yield st, Sym(INT, z3.If(c, a.z, b.z)); return
    if name == "object.__init__":
        if fn.bound is not None and isinstance(fn.bound, Ref): st.heap[fn.bound.oid]["args"] = tuple(args)
        yield st, None; return
    if name == "tokenize.ISEOF":
        v = args[0]; import token as _tk
        yield st, (Sym(BOOL, lift(v).z == _tk.ENDMARKER) if isinstance(v, Sym) else v == _tk.ENDMARKER); return
    if name == "chr":
        v = args[0]
        if isinstance(v, int):
            try: yield st, chr(v)
            except (ValueError, OverflowError) as e: yield st, Raise(ex.new_builtin_exc(st, type(e).__name__, [str(e)]))
            return
        z = lift(v).z; ok = z3.And(z >= 0, z <= 0x10FFFF); cint = z3.And(z >= -2**31, z < 2**31)
        if feasible(st.pc, z3.Not(cint)):        # CPython: an argument that does not fit a C int raises OverflowError, not ValueError
            so = st.copy(); so.pc.append(z3.Not(cint)); yield so, Raise(ex.new_builtin_exc(so, "OverflowError", ["Python int too large to convert to C int"]))
        if feasible(st.pc, z3.And(cint, z3.Not(ok))):
            sb = st.copy(); sb.pc.append(z3.And(cint, z3.Not(ok))); yield sb, Raise(ex.new_builtin_exc(sb, "ValueError", ["chr() arg not in range(0x110000)"]))
        st.pc.append(ok); yield st, Sym(STR, z3.StrFromCode(z)); return
    if name == "ord":
        v = args[0]
        if isinstance(v, str): yield st, ord(v); return
        yield st, Sym(INT, z3.StrToCode(lift(v).z)); return
    if name == "next":
        it = args[0]
        c = ex.contracts.get("ref:%s.__next__" % it.cls)
        yield from c(ex, st, it, [], {}); return
    if name == "super":
        fr = st.frames[-1]; yield st, SuperRef(fr.cls, fr.env.get("self")); return
    if name.startswith("method."):
        yield from method(ex, st, fn.bound, name[7:], args, kw, node); return
    if name == "type":
        from .symexec import TypeOf
        yield st, TypeOf(args[0]); return
    if name == "list" and len(args) == 1 and isinstance(args[0], (list, tuple)):
        yield st, list(args[0]); return           # a new concrete list (elements may be symbolic)
    if name == "list" and len(args) == 1 and isinstance(args[0], UFL):
        yield st, args[0]; return
    if name in ("list", "sorted") and isinstance(args[0], (list, tuple)) and not any(isinstance(x, (Sym, Ref)) for x in args[0]):
        yield st, (sorted(args[0]) if name == "sorted" else list(args[0])); return
    if name in ("set", "frozenset"):
        if not args: yield st, []; return                      # empty set, modelled as a list (add / membership only)
        if isinstance(args[0], (list, tuple, set, frozenset)) and all(isinstance(x, (str, int)) for x in args[0]): yield st, set(args[0]); return
    if name == "tuple":
        v = args[0]
        if isinstance(v, (list, tuple)): yield st, tuple(v); return
    raise Unsupported("builtin %s%r" % (name, tuple(args)))

class SuperRef:
    def __init__(self, cls, obj): self.cls = cls; self.obj = obj
class ZipOf:
    def __init__(self, a, b): self.a = a; self.b = b
    def as_map(self): return AbsMap(self.a, self.b)
class AbsMap:
    """field-name -> value map built by dict(zip(names, row)) ; kept abstract"""
    def __init__(self, keys, vals): self.keys = keys; self.vals = vals

def lift_or_none(v):
    try: return lift(v)
    except TypeError: return None

def method(ex, st, recv, name, args, kw, node=None):
    if isinstance(recv, Sym) and recv.ty.kind == "dec":
        if name == "is_finite": yield st, Sym(BOOL, dec_fin(recv.z)); return
        if name == "copy_negate": yield st, Sym(DEC, mk_dec(-dec_val(recv.z), dec_fin(recv.z))); return
        if name == "as_tuple":
            # (sign, digits, exponent): digits as an abstract list whose length is dec_ndigits(d) >= 1; exponent abstract (A-DEC)
            nd = ex.absfun_s("dec_ndigits", [sort_of(DEC)], z3.IntSort())(recv.z); exp = ex.absfun_s("dec_exponent", [sort_of(DEC)], z3.IntSort())(recv.z)
            st.pc.append(nd >= 1)
            dg = ex.absfun_s("dec_digit", [sort_of(DEC), z3.IntSort()], z3.IntSort())
            yield st, (fresh(INT, "sign")[0], UFL(INT, (lambda i, r=recv.z: dg(r, i)), nd), Sym(INT, exp)); return
    if isinstance(recv, (str, Sym)) and (isinstance(recv, str) or recv.ty.kind == "str"):
        sm = ex.contracts.get("strmethod:" + name)
        if sm is not None and (isinstance(recv, Sym) or any(isinstance(a, Sym) for a in args)):
            yield from sm(ex, st, recv, args, kw); return
        if name == "encode" and isinstance(recv, str) and all(isinstance(a, str) for a in args) and not kw:
            try: recv.encode(*args)
            except (LookupError, ValueError) as e: yield st, Raise(ex.new_builtin_exc(st, type(e).__name__ if type(e).__name__ in ("LookupError", "ValueError", "UnicodeEncodeError") else "LookupError", [str(e)])); return
            yield st, Opaque(); return
        if name == "format" and isinstance(recv, str):
            yield st, ex.format_method(st, recv, list(args), dict(kw or {})); return
        if name == "split" and isinstance(recv, str) and all(isinstance(a, str) for a in args): yield st, recv.split(*args); return
        if name == "strip" and not args:
            if isinstance(recv, str): yield st, recv.strip(); return
            f = ex.absfun_s("str_strip", [z3.StringSort()], z3.StringSort())
            r = f(recv.z)
            # A-STR axioms (ground instances): result is a substring, not longer; strip of empty is empty
            st.pc.append(z3.And(z3.Length(r) <= z3.Length(recv.z), z3.Contains(recv.z, r), z3.Implies(recv.z == z3.StringVal(""), r == z3.StringVal(""))))
            yield st, Sym(STR, r); return
        if name == "replace" and isinstance(recv, Sym):
            yield st, Sym(STR, ex.absfun_s("str_replace", [z3.StringSort()] * 3, z3.StringSort())(recv.z, lift(args[0]).z, lift(args[1]).z)); return
        if name == "lower" and not args:
            if isinstance(recv, str): yield st, recv.lower(); return
            yield st, Sym(STR, ex.absfun_s("str_lower", [z3.StringSort()], z3.StringSort())(recv.z)); return
        if name == "replace" and isinstance(recv, str) and all(isinstance(a, str) for a in args):
            yield st, recv.replace(*args); return
        if name in ("rstrip", "lstrip", "upper", "title", "capitalize", "casefold", "swapcase") and not args:
            if isinstance(recv, str): yield st, getattr(recv, name)(); return
            yield st, Sym(STR, ex.absfun_s("str_" + name, [z3.StringSort()], z3.StringSort())(recv.z)); return
        if name in ("isdigit", "isalpha", "isalnum", "isspace", "isupper", "islower", "isnumeric", "isdecimal", "isidentifier") and not args:
            if isinstance(recv, str): yield st, getattr(recv, name)(); return
            yield st, Sym(BOOL, ex.absfun_s("str_" + name, [z3.StringSort()], z3.BoolSort())(recv.z)); return
        if name in ("strip", "rstrip", "lstrip") and len(args) == 1:
            if isinstance(recv, str) and isinstance(args[0], str): yield st, getattr(recv, name)(args[0]); return
            yield st, Sym(STR, ex.absfun_s("str_%s2" % name, [z3.StringSort()] * 2, z3.StringSort())(lift(recv).z, lift(args[0]).z)); return
        if name == "join" and len(args) == 1 and isinstance(args[0], (UFL, Opaque)):
            r = fresh(STR, "joined")[0]
            st.ghost.setdefault("joins", {}); st.ghost["joins"] = dict(st.ghost["joins"]); st.ghost["joins"][str(r.z)] = (recv, args[0])
            yield st, r; return
        if name == "join" and len(args) == 1 and isinstance(args[0], (list, tuple)) and isinstance(recv, str):
            parts = list(args[0])
            if all(isinstance(p_, str) for p_ in parts): yield st, recv.join(parts); return
            out = None
            for k_, p_ in enumerate(parts):
                z = lift(p_).z
                out = z if out is None else z3.Concat(out, z3.StringVal(recv), z) if recv else z3.Concat(out, z)
            yield st, (Sym(STR, out) if out is not None else ""); return
        if name == "endswith":
            yield st, Sym(BOOL, z3.SuffixOf(lift(args[0]).z, lift(recv).z)); return
        if name == "startswith":
            yield st, Sym(BOOL, z3.PrefixOf(lift(args[0]).z, lift(recv).z)); return
    if type(recv).__name__ == "UFMap" and name == "values":
        yield st, recv.values; return
    if isinstance(recv, UFDict) and name in ("keys", "values", "items"):
        yield st, Opaque(); return          # only used to build messages
    if isinstance(recv, UFDict) and name == "get":
        kz = lift_to(recv.key_ty, args[0])
        for s2, b in ex.fork(st, Sym(BOOL, recv.has(kz))):
            if b: yield s2, ex.ufdict_value(s2, recv, kz)
            else: yield s2, (args[1] if len(args) > 1 else None)
        return
    if isinstance(recv, dict) and name == "update" and len(args) == 1 and isinstance(args[0], dict):
        recv.update(args[0]); yield st, None; return
    if isinstance(recv, dict) and name == "keys": yield st, list(recv.keys()); return
    if isinstance(recv, dict) and name == "values": yield st, list(recv.values()); return
    if isinstance(recv, dict) and name == "items": yield st, [tuple(kv) for kv in recv.items()]; return
    if isinstance(recv, dict) and name == "get" and isinstance(args[0], Sym) and recv and all(isinstance(v, str) for v in recv.values()):
        k = args[0]; d = args[1] if len(args) > 1 else None
        if d is not None:
            r = lift(d).z
            for kk, vv in recv.items(): r = z3.If(k.z == lift(kk).z, z3.StringVal(vv), r)
            yield st, Sym(STR, r); return
    if isinstance(recv, dict) and name == "get" and not isinstance(args[0], Sym):
        try: yield st, recv.get(args[0], args[1] if len(args) > 1 else None); return
        except TypeError: pass
    if isinstance(recv, Ref) and recv.cls == "Stream" :
        pass
    if isinstance(recv, UFL) and name == "extend" and type(args[0]).__name__ == "RepeatList":
        tgt = node.func.value; rl = args[0]; n0 = recv.length; cnt = lift(rl.count).z
        item = lift_to(recv.elem_ty, rl.item if recv.elem_ty.kind in ("tuple", "opt") else unopt(rl.item))
        new = UFL(recv.elem_ty, (lambda i, r=recv, item=item, n0=n0: z3.If(i >= n0, item, r.at(i))), n0 + z3.If(cnt > 0, cnt, 0))
        for s2, _ in ex.mutate(st, tgt, recv, new): yield s2, None
        return
    if isinstance(recv, UFL) and name == "index" and len(args) == 1:
        # list.index(x): the first position holding x, or ValueError when no position does
        x = lift_to(recv.elem_ty, args[0] if recv.elem_ty.kind in ("tuple", "opt") else unopt(args[0])); n0 = recv.length
        i, _ = fresh(INT, "index"); j = z3.Int("j!ix%d" % next(_ix))
        found = z3.And(i.z >= 0, i.z < n0, recv.at(i.z) == x, z3.ForAll([j], z3.Implies(z3.And(0 <= j, j < i.z), recv.at(j) != x)))
        absent = z3.ForAll([j], z3.Implies(z3.And(0 <= j, j < n0), recv.at(j) != x))
        sb = st.copy(); sb.pc.append(absent)
        if feasible(sb.pc): yield sb, Raise(ex.new_builtin_exc(sb, "ValueError", ["value is not in list"]))
        st.pc.append(found)
        if feasible(st.pc): yield st, i
        return
    if isinstance(recv, UFL) and name == "insert" and len(args) == 2:
        tgt = node.func.value; k = lift(args[0]).z; item = lift_to(recv.elem_ty, args[1] if recv.elem_ty.kind in ("tuple", "opt") else unopt(args[1])); n0 = recv.length
        pos = z3.If(k < 0, z3.If(n0 + k < 0, 0, n0 + k), z3.If(k > n0, n0, k))
        new = UFL(recv.elem_ty, (lambda i, r=recv, item=item, pos=pos: z3.If(i < pos, r.at(i), z3.If(i == pos, item, r.at(i - 1)))), n0 + 1)
        for s2, _ in ex.mutate(st, tgt, recv, new): yield s2, None
        return
    if isinstance(recv, UFL) and name in ("append", "add"):      # a Python set modelled as a list: add == append (membership and add only)
        tgt = node.func.value; item = lift_to(recv.elem_ty, args[0] if recv.elem_ty.kind in ("tuple", "opt") else unopt(args[0])); n0 = recv.length
        new = UFL(recv.elem_ty, (lambda i, r=recv, item=item, n0=n0: z3.If(i == n0, item, r.at(i))), n0 + 1)
        for s2, _ in ex.mutate(st, tgt, recv, new): yield s2, None
        return
    if isinstance(recv, Sym) and recv.ty.kind == "seqlist" and name == "append":
        # in-place append on a symbolic list held in a local: the local and every alias of the same object are re-bound (Exec.mutate)
        tgt = node.func.value
        new = Sym(recv.ty, z3.Concat(recv.z, z3.Unit(lift(args[0]).z)))
        for s2, _ in ex.mutate(st, tgt, recv, new): yield s2, None
        return
    if isinstance(recv, list):
        if name in ("append", "add"): recv.append(args[0]); yield st, None; return
    raise Unsupported("method %s on %r" % (name, recv))

def setitem(ex, st, base, idx, v):
    raise Unsupported("setitem on %r" % (base,))
