"""pyvc prototype: symbolic executor for a Python subset over the real cutplace source."""
import ast, os, z3, copy as _copy
from .core import *
from . import source as S

class Unsupported(Exception): pass
class Raise:
    def __init__(self, exc): self.exc = exc
    def __repr__(self): return "Raise(%r)" % (self.exc,)

class ModRef:
    def __init__(self, name): self.name = name
    def __repr__(self): return "<module %s>" % self.name
class FuncRef:
    def __init__(self, mod, cls, node, bound=None): self.mod = mod; self.cls = cls; self.node = node; self.bound = bound
    @property
    def qualname(self): return ".".join([self.mod.name] + ([self.cls.name] if self.cls else []) + [self.node.name])
    def __repr__(self): return "<func %s>" % self.qualname
class ClassRef:
    def __init__(self, info): self.info = info
    def __repr__(self): return "<class %s>" % self.info.name
class BuiltinRef:
    def __init__(self, name, bound=None): self.name = name; self.bound = bound
    def __repr__(self): return "<builtin %s>" % self.name
class BuiltinExcClass:
    def __init__(self, name): self.name = name
class AbsMethod:
    def __init__(self, recv, tyname, name): self.recv = recv; self.tyname = tyname; self.name = name

BUILTIN_EXC = set(S._BUILTIN_BASES) | {"BaseException"}
BUILTINS = {"eval", "hasattr", "getattr", "iter", "print", "float", "len", "int", "str", "isinstance", "enumerate", "range", "zip", "dict", "tuple", "list", "ord", "chr", "repr", "any", "all", "sum", "max", "min", "sorted", "set", "type", "next", "super", "abs", "bool", "bytes", "bytearray", "compile", "open"}

repr_str = z3.Function("repr_str", z3.StringSort(), z3.StringSort())

class Frame:
    def __init__(self, mod, cls, env, parent_depth=None): self.mod = mod; self.cls = cls; self.env = env; self.parent_depth = parent_depth

class Obligation:
    def __init__(self, name, pc, goal, kind="post", info=None, props=None):
        self.name = name; self.pc = list(pc); self.goal = goal; self.kind = kind; self.info = info or {}
        self.props = props          # None = serves every property the unit is listed under
        self.result = None; self.model = None; self.time = 0; self.backend = "z3"
    def discharge(self, rlimit=None, use_cvc5=True, both=False):
        from . import solve
        return solve.discharge(self, rlimit or solve.DEFAULT_RLIMIT, use_cvc5=use_cvc5, both=both)

class Exec:
    def __init__(self, contracts=None, max_inline=12):
        self.contracts = contracts or {}     # qualname -> Contract (declarative or model)
        self.obligations = []
        self.max_inline = max_inline
        self.depth = 0
        self.loop_specs = {}                 # (qualname, ordinal) -> LoopSpec
        self.current_fn = None
        self.trace_paths = 0
        self.stmt_hooks = {}; self.stmt_hooks_before = {}
        self.inlined = set(); self.hooks_fired = {}

    # ------------------------------------------------------------ truthiness / forking
    def truth(self, v):
        """Python truthiness as concrete bool or Sym(BOOL)."""
        if isinstance(v, Sym):
            k = v.ty.kind
            if k == "bool": return v
            if k == "int": return Sym(BOOL, v.z != 0)
            if k == "dec": return Sym(BOOL, z3.Or(z3.Not(dec_fin(v.z)), dec_val(v.z) != 0))
            if k == "str": return Sym(BOOL, z3.Length(v.z) > 0)
            if k == "opt":
                srt = sort_of(v.ty); notnone = z3.Not(srt.is_none(v.z)); pk = v.ty.args[0].kind
                if pk == "int": return Sym(BOOL, z3.And(notnone, srt.val(v.z) != 0))
                if pk == "str": return Sym(BOOL, z3.And(notnone, z3.Length(srt.val(v.z)) > 0))
                if pk == "bool": return Sym(BOOL, z3.And(notnone, srt.val(v.z)))
                if pk == "dec": return Sym(BOOL, z3.And(notnone, z3.Or(z3.Not(dec_fin(srt.val(v.z))), dec_val(srt.val(v.z)) != 0)))
                return Sym(BOOL, notnone)        # objects / abstract values: truthy unless None
            if k == "seqlist": return Sym(BOOL, z3.Length(v.z) > 0)
            if k == "tuple": return len(v.ty.args) > 0
            raise Unsupported("truth of %r" % v)
        if isinstance(v, UFL): return Sym(BOOL, v.length > 0)
        if isinstance(v, (Ref, FuncRef, ClassRef, ModRef)): return True
        return bool(v)

    def fork(self, st, cond):
        """yield (state, bool) for feasible sides of cond."""
        if isinstance(cond, Ref) and ("reftruth:" + cond.cls) in self.contracts:      # truthiness of a modelled container object (e.g. a set the contract keeps abstract)
            cond = self.contracts["reftruth:" + cond.cls](self, st, cond)
        c = self.truth(cond)
        if not isinstance(c, Sym):
            yield st, bool(c); return
        cz = z3.simplify(c.z)
        if z3.is_true(cz): yield st, True; return
        if z3.is_false(cz): yield st, False; return
        t_ok = feasible(st.pc, cz); f_ok = feasible(st.pc, z3.Not(cz))
        if t_ok:
            s1 = st.copy() if f_ok else st; s1.pc.append(cz); yield s1, True
        if f_ok:
            st.pc.append(z3.Not(cz)); yield st, False

    # ------------------------------------------------------------ name resolution
    def lookup(self, st, name):
        fr = st.frames[-1]
        while True:
            if name in fr.env: return fr.env[name]
            if fr.parent_depth is None: break
            fr = st.frames[fr.parent_depth]
        if getattr(fr, "class_scope", False) and fr.cls is not None:      # names in a class body see earlier class attributes
            for kk in S.mro(fr.cls):
                if name in kk.attrs: return self.const_eval(kk.module, kk.attrs[name], kk)
        return self.lookup_global(fr.mod, name)

    def lookup_global(self, mod, name):
        if name in mod.functions: return FuncRef(mod, None, mod.functions[name])
        if name in mod.classes: return ClassRef(mod.classes[name])
        if name in mod.constants:
            if name in S.shared_mutable_names(mod): raise Unsupported("module-level container %s.%s is mutated in place: its content depends on earlier calls" % (mod.name, name))
            real = self.real_constant(mod, name)
            if real is not NotImplemented: return real
            return self.const_eval(mod, mod.constants[name])
        if name in mod.imports:
            m, a = mod.imports[name]
            if m == "cutplace" and a:
                import os as _os
                if _os.path.exists(_os.path.join(S.REPO, "cutplace", a + ".py")): return ModRef(a)
                try:
                    import importlib, warnings
                    with warnings.catch_warnings():
                        warnings.simplefilter("ignore"); v = getattr(importlib.import_module("cutplace"), a)
                    if isinstance(v, (str, int)): return v
                except Exception: pass
                return Opaque()
            if m and m.startswith("cutplace.") and a: return self.lookup_global(S.module(m.split(".")[1]), a)
            if a is not None and m:
                # from <external module> import <a>: a submodule stays a module reference, anything else is an external callable / constant
                import importlib, types
                try:
                    obj = getattr(importlib.import_module(m), a)
                    if not isinstance(obj, types.ModuleType):
                        if isinstance(obj, (int, str)) and not isinstance(obj, bool): return obj
                        return BuiltinRef(a)
                except Exception:
                    pass
            return ModRef(name)       # external module (decimal, time, copy, token ...)
        if name in BUILTIN_EXC: return BuiltinExcClass(name)
        if name in BUILTINS: return BuiltinRef(name)
        if name in ("True", "False", "None"): return {"True": True, "False": False, "None": None}[name]
        if name == "__debug__": return True
        raise Unsupported("name %s in %s" % (name, mod.name))

    def real_constant(self, mod, name):
        """module-level plain data is taken from the really imported module (it is what runs)"""
        import importlib, os, sys
        repo = os.environ.get("PYVC_REPO", "/repo")
        if repo not in sys.path: sys.path.insert(0, repo)
        try:
            import warnings
            with warnings.catch_warnings():
                warnings.simplefilter("ignore")
                m = importlib.import_module("cutplace." + mod.name)
        except Exception:
            return NotImplemented
        v = getattr(m, name, NotImplemented)
        def plain(x):
            if x is None or isinstance(x, (str, int, bool)): return True
            if isinstance(x, (list, tuple, set, frozenset)): return all(plain(y) for y in x)
            if isinstance(x, dict): return all(plain(k) and plain(y) for k, y in x.items())
            return False
        return v if plain(v) else NotImplemented

    def const_eval(self, mod, node, cls=None):
        st = State(); st.frames = [Frame(mod, cls, {})]; st.frames[0].class_scope = cls is not None
        res = list(self.ev(node, st))
        assert len(res) == 1 and not isinstance(res[0][1], Raise), ast.unparse(node)
        return res[0][1]

    # ------------------------------------------------------------ expressions
    def ev(self, node, st):
        """generator of (state, value-or-Raise)"""
        m = getattr(self, "ev_" + type(node).__name__, None)
        if m is None: raise Unsupported("expr %s: %s" % (type(node).__name__, ast.unparse(node)))
        yield from m(node, st)

    def ev_seq(self, nodes, st):
        """evaluate nodes left to right; yield (st, [vals]) or (st, Raise)"""
        if not nodes:
            yield st, []; return
        for s1, v in self.ev(nodes[0], st):
            if isinstance(v, Raise): yield s1, v; continue
            for s2, rest in self.ev_seq(nodes[1:], s1):
                if isinstance(rest, Raise): yield s2, rest
                else: yield s2, [v] + rest

    def ev_Constant(self, node, st): yield st, node.value
    def ev_Name(self, node, st): yield st, self.lookup(st, node.id)
    def ev_Tuple(self, node, st):
        for s, vs in self.ev_seq(node.elts, st):
            yield s, (vs if isinstance(vs, Raise) else tuple(vs))
    def ev_List(self, node, st):
        for s, vs in self.ev_seq(node.elts, st):
            yield s, (vs if isinstance(vs, Raise) else list(vs))
    def ev_Dict(self, node, st):
        for s, ks in self.ev_seq(node.keys, st):
            if isinstance(ks, Raise): yield s, ks; continue
            for s2, vs in self.ev_seq(node.values, s):
                yield s2, (vs if isinstance(vs, Raise) else dict(zip(ks, vs)))
    def _comprehension(self, node, st):
        """evaluate a single-generator comprehension over a concrete iterable with concrete conditions; None if not possible"""
        if len(node.generators) != 1 or node.generators[0].is_async: return None
        g = node.generators[0]
        try:
            res = list(self.ev(g.iter, st))
        except Unsupported:
            return None
        if len(res) != 1 or isinstance(res[0][1], Raise) or res[0][0] is not st: return None
        it = res[0][1]
        if isinstance(it, dict): it = list(it.keys())
        if not isinstance(it, (list, tuple, set, frozenset, str)) or isinstance(it, Opaque): return None
        out = []
        env = st.frames[-1].env; saved = dict(env)
        try:
            for x in list(it):
                r = list(self.assign(st, g.target, x))
                if len(r) != 1 or r[0][1][0] != "next": return None
                keep = True
                for cond in g.ifs:
                    cr = list(self.ev(cond, st))
                    if len(cr) != 1 or isinstance(cr[0][1], (Raise, Sym, Opaque)) or cr[0][0] is not st: return None
                    if not cr[0][1]: keep = False; break
                if not keep: continue
                er = list(self.ev(node.elt, st))
                if len(er) != 1 or isinstance(er[0][1], Raise) or er[0][0] is not st: return None
                out.append(er[0][1])
        except Unsupported:
            return None
        finally:
            for k in list(env):
                if k not in saved: del env[k]
            env.update(saved)
        return out
    def _comprehension_fork(self, node, st):
        """single-generator comprehension over a symbolic *tuple* (fixed arity): conditions may be symbolic, paths fork.
        yields (state, python list) or nothing if the shape is not this one"""
        if len(node.generators) != 1 or node.generators[0].is_async: return None
        g = node.generators[0]
        res = list(self.ev(g.iter, st))
        if len(res) != 1 or isinstance(res[0][1], Raise) or res[0][0] is not st: return None
        it = res[0][1]
        if not (isinstance(it, Sym) and it.ty.kind == "tuple"): return None
        srt = sort_of(it.ty)
        elems = [Sym(it.ty.args[i], srt.accessor(0, i)(it.z)) for i in range(len(it.ty.args))]
        names = [n.id for n in ast.walk(g.target) if isinstance(n, ast.Name)]
        had = {n: (n in st.frames[-1].env, st.frames[-1].env.get(n)) for n in names}
        work = [(st, [])]
        for x in elems:
            nxt = []
            for s, out in work:
                for s1, r in list(self.assign(s, g.target, x)):
                    if r[0] != "next": raise Unsupported("comprehension target")
                    states = [(s1, True)]
                    for cond in g.ifs:
                        new = []
                        for s2, keep in states:
                            if not keep: new.append((s2, False)); continue
                            for s3, v in list(self.ev(cond, s2)):
                                if isinstance(v, Raise): raise Unsupported("raising comprehension condition")
                                new.extend(list(self.fork(s3, v)))
                        states = new
                    for s2, keep in states:
                        if not keep: nxt.append((s2, out)); continue
                        for s3, v in list(self.ev(node.elt, s2)):
                            if isinstance(v, Raise): raise Unsupported("raising comprehension element")
                            if isinstance(v, Sym) and v.ty.kind == "opt" and not feasible(s3.pc, sort_of(v.ty).is_none(v.z)): v = unopt(v)   # narrowed by the condition
                            nxt.append((s3, out + [v]))
            work = nxt
        for s, out in work:
            env = s.frames[-1].env
            for n, (was, val) in had.items():       # the target of a comprehension does not leak
                if was: env[n] = val
                else: env.pop(n, None)
        return work
    def ev_ListComp(self, node, st):
        w = self._comprehension_fork(node, st)
        if w is not None:
            for s, out in w: yield s, out
            return
        r = self._comprehension(node, st)
        yield st, (Opaque() if r is None else r)
    def ev_GeneratorExp(self, node, st):
        r = self._comprehension(node, st)
        yield st, (Opaque() if r is None else r)

    def ev_Attribute(self, node, st):
        for s, base in self.ev(node.value, st):
            if isinstance(base, Raise): yield s, base; continue
            yield from self.getattr(s, base, node.attr)

    def getattr(self, st, base, attr):
        if isinstance(base, ModRef):
            if base.name in ("errors", "ranges", "fields", "checks", "data", "interface", "validio", "rowio", "_tools", "_compat", "sql"):
                yield st, self.lookup_global(S.module(base.name), attr); return
            if base.name in ("token", "tokenize", "string", "csv", "xlrd", "os", "sys", "re", "zipfile", "decimal", "time"):
                import importlib
                try: v = getattr(importlib.import_module(base.name), attr, None)
                except ImportError: v = None
                if isinstance(v, (int, str)) and not isinstance(v, bool): yield st, v; return
                def _plain(x):
                    if x is None or isinstance(x, (str, int, bool)): return True
                    if isinstance(x, (list, tuple)): return all(_plain(y) for y in x)
                    if isinstance(x, dict): return all(_plain(k) and _plain(y) for k, y in x.items())
                    return False
                if isinstance(v, (dict, tuple, list)) and _plain(v): yield st, v; return
            yield st, BuiltinRef(base.name + "." + attr); return
        if isinstance(base, Ref):
            obj = st.heap.setdefault(base.oid, {})
            if attr in obj: yield st, obj[attr]; return
            if attr == "__dict__": yield st, obj; return
            rc = self.contracts.get("ref:%s.%s" % (base.cls, attr))
            if rc is not None: yield st, BoundModel(rc, base); return
            cls = S.find_class(base.cls)
            if cls is not None:
                k, p = S.lookup_property(cls, attr)
                if p is not None:
                    yield from self.call_function(st, FuncRef(k.module, k, p, bound=base), [], {}); return
                k, m = S.lookup_method(cls, attr)
                if m is not None:
                    yield st, FuncRef(k.module, k, m, bound=(None if attr in k.statics else base)); return
                for kk in S.mro(cls):
                    if attr in kk.attrs:
                        if attr in S.shared_mutable_names(kk.module): raise Unsupported("class-level container %s.%s is mutated in place somewhere in %s: its content depends on earlier calls" % (kk.name, attr, kk.module.name))
                        yield st, self.const_eval(kk.module, kk.attrs[attr], kk); return
            if base.cls in BUILTIN_EXC or attr in ("args",):
                raise Unsupported("attr %s of %r" % (attr, base))
            yield st, Raise(self.new_builtin_exc(st, "AttributeError", ["%s has no attribute %s" % (base.cls, attr)])); return
        if type(base).__name__ == "SuperRef":
            obj_cls = S.find_class(base.obj.cls); chain = S.mro(obj_cls)
            names = [k.name for k in chain]; start = names.index(base.cls.name) + 1
            for kk in chain[start:]:
                if attr in kk.methods:
                    yield st, FuncRef(kk.module, kk, kk.methods[attr], bound=base.obj); return
            yield st, BuiltinRef("object." + attr, bound=base.obj); return
        if isinstance(base, ClassRef):
            for kk in S.mro(base.info):
                if attr in kk.attrs:
                    if attr in S.shared_mutable_names(kk.module): raise Unsupported("class-level container %s.%s is mutated in place somewhere in %s: its content depends on earlier calls" % (kk.name, attr, kk.module.name))
                    yield st, self.const_eval(kk.module, kk.attrs[attr], kk); return
                if attr in kk.methods: yield st, FuncRef(kk.module, kk, kk.methods[attr], bound=None); return
            raise Unsupported("class attr %s.%s" % (base.info.name, attr))
        if isinstance(base, Sym) and base.ty.kind == "opt" and base.ty.args[0].kind in ("abs", "str"):
            isn = sort_of(base.ty).is_none(base.z)
            if feasible(st.pc, isn):
                sb = st.copy(); sb.pc.append(isn); yield sb, Raise(self.new_builtin_exc(sb, "AttributeError", ["'NoneType' object has no attribute %s" % attr]))
            st.pc.append(z3.Not(isn)); base = opt_payload(base)
        if isinstance(base, Sym) and base.ty.kind == "abs":
            ac = self.contracts.get("absattr:%s.%s" % (base.ty.args[0], attr))
            if ac is not None:
                yield st, ac(self, st, base); return
            yield st, AbsMethod(base, base.ty.args[0], attr); return
        if isinstance(base, BuiltinRef) and base.bound is None and attr != "__name__":
            yield st, BuiltinRef(base.name + "." + attr); return
        if isinstance(base, (BuiltinRef, TypeOf)) and attr == "__name__":
            yield st, (base.name if isinstance(base, BuiltinRef) else fresh(STR, "typename")[0]); return
        if isinstance(base, (Sym, str, list, UFL, dict, tuple, UFMap, UFDict)):
            yield st, BuiltinRef("method." + attr, bound=base); return
        raise Unsupported("getattr %r.%s" % (base, attr))

    def ev_Subscript(self, node, st):
        for s, base in self.ev(node.value, st):
            if isinstance(base, Raise): yield s, base; continue
            if isinstance(node.slice, ast.Slice):
                sl = node.slice
                for s2, parts in self.ev_seq([x if x is not None else ast.Constant(None) for x in (sl.lower, sl.upper, sl.step)], s):
                    yield from self.slice(s2, base, *parts)
                continue
            for s2, idx in self.ev(node.slice, s):
                if isinstance(idx, Raise): yield s2, idx; continue
                yield from self.index(s2, base, idx)

    def index(self, st, base, idx):
        if isinstance(base, (list, tuple)) and not isinstance(idx, Sym):
            try: yield st, base[idx]
            except IndexError: yield st, Raise(self.new_builtin_exc(st, "IndexError", ["index out of range"]))
            return
        if isinstance(base, dict):
            if isinstance(idx, Sym) and all(isinstance(v, int) and not isinstance(v, bool) for v in base.values()):
                # scalar-valued table: one path with an ITE chain, plus the KeyError path
                hit = z3.Or(*[idx.z == lift(k).z for k in base])
                if feasible(st.pc, z3.Not(hit)):
                    sb = st.copy(); sb.pc.append(z3.Not(hit)); yield sb, Raise(self.new_builtin_exc(sb, "KeyError", [idx]))
                st.pc.append(hit)
                r = z3.IntVal(0)
                for k, v in base.items(): r = z3.If(idx.z == lift(k).z, z3.IntVal(v), r)
                yield st, Sym(INT, r); return
            if isinstance(idx, Sym):
                rest = st
                for k, v in base.items():
                    c = z3.simplify(idx.z == lift(k).z)
                    if feasible(rest.pc, c):
                        s1 = rest.copy(); s1.pc.append(c); yield s1, v
                    rest.pc.append(z3.Not(c))
                if feasible(rest.pc): yield rest, Raise(self.new_builtin_exc(rest, "KeyError", [idx]))
                return
            if idx in base: yield st, base[idx]
            else: yield st, Raise(self.new_builtin_exc(st, "KeyError", [idx]))
            return
        if isinstance(base, UFMap):
            yield st, Sym(base.val_ty, base.fn(lift(idx).z)); return
        if isinstance(base, UFDict):
            kz = lift_to(base.key_ty, idx); present = base.has(kz)
            for s2, b in self.fork(st, Sym(BOOL, present)):
                if b: yield s2, self.ufdict_value(s2, base, kz)
                else: yield s2, Raise(self.new_builtin_exc(s2, "KeyError", [idx]))
            return
        if isinstance(base, Opaque): yield st, Opaque(); return
        if isinstance(base, UFL):
            i = lift(idx).z
            inb = z3.And(i >= 0, i < base.length)
            if feasible(st.pc, z3.Not(z3.Or(inb, z3.And(i < 0, i >= -base.length)))):
                s_bad = st.copy(); s_bad.pc.append(z3.Not(z3.Or(inb, z3.And(i < 0, i >= -base.length))))
                yield s_bad, Raise(self.new_builtin_exc(s_bad, "IndexError", ["list index out of range"]))
            if feasible(st.pc, z3.And(i < 0, i >= -base.length)):
                sn = st.copy(); sn.pc.append(z3.And(i < 0, i >= -base.length))
                yield sn, Sym(base.elem_ty, base.at(z3.simplify(base.length + i)))
                if not feasible(st.pc, inb): return
            st.pc.append(inb)
            yield st, Sym(base.elem_ty, base.at(i)); return
        if isinstance(base, Sym) and base.ty.kind == "tuple":
            srt = sort_of(base.ty); yield st, Sym(base.ty.args[idx], srt.accessor(0, idx)(base.z)); return
        if isinstance(base, Sym) and base.ty.kind == "seqlist":
            n = z3.Length(base.z); i = lift(idx).z
            if isinstance(idx, int) and idx < 0: i = n + idx
            inb = z3.And(i >= 0, i < n)
            if feasible(st.pc, z3.Not(inb)):
                sb = st.copy(); sb.pc.append(z3.Not(inb)); yield sb, Raise(self.new_builtin_exc(sb, "IndexError", ["list index out of range"]))
            st.pc.append(inb)
            yield st, Sym(base.ty.args[0], base.z[i]); return
        if isinstance(base, Sym) and base.ty.kind == "str":
            i = lift(idx).z
            if isinstance(idx, int) and idx < 0: i = z3.Length(base.z) + idx
            st.pc.append(z3.And(i >= 0, i < z3.Length(base.z)))   # TODO IndexError path
            yield st, Sym(STR, z3.SubString(base.z, i, 1)); return
        if isinstance(base, str) and not isinstance(idx, Sym):
            yield st, base[idx]; return
        raise Unsupported("index %r[%r]" % (base, idx))

    def slice(self, st, base, lo, hi, step):
        if step is not None: raise Unsupported("slice step")
        if isinstance(base, Opaque): yield st, Opaque(); return
        if isinstance(base, (list, tuple, str)) and not isinstance(lo, Sym) and not isinstance(hi, Sym):
            yield st, base[lo:hi]; return
        if isinstance(base, Sym) and base.ty.kind == "str":
            n = z3.Length(base.z)
            def norm(v, default):
                if v is None: return default
                z = lift(v).z
                return z3.If(z < 0, z3.If(n + z < 0, 0, n + z), z3.If(z > n, n, z))
            l = norm(lo, z3.IntVal(0)); h = norm(hi, n)
            yield st, Sym(STR, z3.SubString(base.z, l, z3.If(h - l < 0, 0, h - l))); return
        if isinstance(base, Sym) and base.ty.kind == "seqlist":
            n = z3.Length(base.z)
            def norm(v, default):
                if v is None: return default
                z = lift(v).z
                return z3.If(z < 0, z3.If(n + z < 0, 0, n + z), z3.If(z > n, n, z))
            l = norm(lo, z3.IntVal(0)); h = norm(hi, n)
            yield st, Sym(base.ty, z3.Extract(base.z, l, z3.If(h - l < 0, 0, h - l))); return
        if isinstance(base, UFL):
            n = base.length
            def norm(v, default):
                if v is None: return default
                z = lift(v).z
                return z3.If(z < 0, z3.If(n + z < 0, 0, n + z), z3.If(z > n, n, z))
            l = norm(lo, z3.IntVal(0)); h = norm(hi, n)
            yield st, UFL(base.elem_ty, (lambda i, b=base, l=l: b.at(i + l)), z3.If(h - l < 0, 0, h - l)); return
        raise Unsupported("slice of %r" % (base,))

    # ---- operators
    def ev_UnaryOp(self, node, st):
        for s, v in self.ev(node.operand, st):
            if isinstance(v, Raise): yield s, v; continue
            if isinstance(node.op, ast.Not):
                t = self.truth(v); yield s, (Sym(BOOL, z3.Not(t.z)) if isinstance(t, Sym) else (not t))
            elif isinstance(node.op, ast.USub):
                if isinstance(v, Sym) and v.ty.kind == "opt":
                    if feasible(s.pc, sort_of(v.ty).is_none(v.z)): raise Unsupported("unary minus on a value that may be None")
                    v = opt_payload(v)
                if isinstance(v, Sym) and v.ty.kind == "dec": yield s, Sym(DEC, mk_dec(-dec_val(v.z), dec_fin(v.z))); continue
                yield s, (Sym(v.ty, -v.z) if isinstance(v, Sym) else -v)
            else: raise Unsupported("unary")

    def ev_BoolOp(self, node, st):
        # short circuit with forking; result is the Python value (we only support bool-ish usage)
        is_and = isinstance(node.op, ast.And)
        def rec(i, s):
            for s1, v in self.ev(node.values[i], s):
                if isinstance(v, Raise): yield s1, v; continue
                if i == len(node.values) - 1: yield s1, v; continue
                for s2, b in self.fork(s1, v):
                    if b == is_and: yield from rec(i + 1, s2)
                    else: yield s2, (v if not isinstance(v, Sym) else (False if is_and else True) if v.ty.kind == "bool" else v)
        yield from rec(0, st)

    def ev_IfExp(self, node, st):
        for s, c in self.ev(node.test, st):
            if isinstance(c, Raise): yield s, c; continue
            for s2, b in self.fork(s, c):
                yield from self.ev(node.body if b else node.orelse, s2)

    def ev_Compare(self, node, st):
        def rec(s, left, ops, comps):
            for s1, right in self.ev(comps[0], s):
                if isinstance(right, Raise): yield s1, right; continue
                for s2, r in self.compare(s1, ops[0], left, right):
                    if isinstance(r, Raise) or len(ops) == 1: yield s2, r; continue
                    for s3, b in self.fork(s2, r):
                        if not b: yield s3, False
                        else: yield from rec(s3, right, ops[1:], comps[1:])
        for s0, left in self.ev(node.left, st):
            if isinstance(left, Raise): yield s0, left; continue
            yield from rec(s0, left, node.ops, node.comparators)

    def compare(self, st, op, a, b):
        if isinstance(op, (ast.Is, ast.IsNot)):
            neg = isinstance(op, ast.IsNot)
            if b is None or a is None:
                x = a if b is None else b
                r = opt_is_none(x)
                if isinstance(r, Sym): yield st, (Sym(BOOL, z3.Not(r.z)) if neg else r)
                else: yield st, (not r if neg else r)
                return
            if isinstance(a, Ref) and isinstance(b, Ref): yield st, ((a != b) if neg else (a == b)); return
            raise Unsupported("is between %r %r" % (a, b))
        if isinstance(op, (ast.In, ast.NotIn)):
            neg = isinstance(op, ast.NotIn)
            r = self.contains(st, b, a)
            yield st, (self.neg(r) if neg else r); return
        if isinstance(op, (ast.Eq, ast.NotEq)):
            r = self.equals(st, a, b)
            yield st, (self.neg(r) if isinstance(op, ast.NotEq) else r); return
        # ordering
        for s, x, y in self.unwrap_pair(st, a, b):
            if isinstance(x, Raise): yield s, x; continue
            if not isinstance(x, Sym) and not isinstance(y, Sym):
                import operator
                f = {ast.Lt: operator.lt, ast.LtE: operator.le, ast.Gt: operator.gt, ast.GtE: operator.ge}[type(op)]
                yield s, f(x, y); continue
            if lift(x).ty.kind == "dec" or lift(y).ty.kind == "dec":
                # decimal comparison: exact on finite values; a non-finite operand is modelled as raising InvalidOperation
                # (CPython raises for NaN only; over-approximating keeps the raises-only obligations sound)
                fins = [dec_fin(lift(v).z) for v in (x, y) if lift(v).ty.kind == "dec"]
                allfin = z3.And(*fins) if len(fins) > 1 else fins[0]
                if feasible(s.pc, z3.Not(allfin)):
                    sb = s.copy(); sb.pc.append(z3.Not(allfin))
                    yield sb, Raise(self.new_builtin_exc(sb, "InvalidOperation", ["comparison involving a non-finite decimal"]))
                s.pc.append(allfin)
                xr, yr = to_real(x), to_real(y)
                yield s, Sym(BOOL, {ast.Lt: xr < yr, ast.LtE: xr <= yr, ast.Gt: xr > yr, ast.GtE: xr >= yr}[type(op)]); continue
            xz, yz = lift(x).z, lift(y).z
            if lift(x).ty.kind == "str" or lift(y).ty.kind == "str": raise Unsupported("string ordering")
            z = {ast.Lt: xz < yz, ast.LtE: xz <= yz, ast.Gt: xz > yz, ast.GtE: xz >= yz}[type(op)]
            yield s, Sym(BOOL, z)

    def unwrap_pair(self, st, a, b):
        """ordering on possibly-optional numeric values: None operand -> TypeError path"""
        def unwrap(s, v):
            if v is None:
                yield s, Raise(self.new_builtin_exc(s, "TypeError", ["'<=' not supported with NoneType"])); return
            if isinstance(v, Sym) and v.ty.kind == "opt":
                isn = sort_of(v.ty).is_none(v.z)
                if feasible(s.pc, isn):
                    sb = s.copy(); sb.pc.append(isn)
                    yield sb, Raise(self.new_builtin_exc(sb, "TypeError", ["NoneType in comparison"]))
                s.pc.append(z3.Not(isn)); yield s, opt_payload(v); return
            yield s, v
        for s1, x in unwrap(st, a):
            if isinstance(x, Raise): yield s1, x, None; continue
            for s2, y in unwrap(s1, b):
                if isinstance(y, Raise): yield s2, y, None
                else: yield s2, x, y

    def neg(self, r): return Sym(BOOL, z3.Not(r.z)) if isinstance(r, Sym) else (not r)

    def equals(self, st, a, b):
        if a is None or b is None:
            x = b if a is None else a
            if x is None: return True
            r = opt_is_none(x); return r
        if isinstance(a, Sym) and a.ty.kind == "opt" and not (isinstance(b, Sym) and b.ty.kind == "opt"):
            s = sort_of(a.ty); return Sym(BOOL, z3.And(z3.Not(s.is_none(a.z)), s.val(a.z) == lift(b).z))
        if isinstance(b, Sym) and b.ty.kind == "opt" and not (isinstance(a, Sym) and a.ty.kind == "opt"):
            return self.equals(st, b, a)
        if isinstance(a, tuple) and isinstance(b, tuple):
            if len(a) != len(b): return False
            rs = [self.equals(st, x, y) for x, y in zip(a, b)]
            return self.conj(rs)
        if isinstance(a, Sym) and a.ty.kind == "tuple" and isinstance(b, tuple):
            srt = sort_of(a.ty)
            return self.conj([self.equals(st, Sym(a.ty.args[i], srt.accessor(0, i)(a.z)), b[i]) for i in range(len(b))])
        if isinstance(b, Sym) and b.ty.kind == "tuple" and isinstance(a, tuple): return self.equals(st, b, a)
        if isinstance(a, Sym) or isinstance(b, Sym):
            la, lb = lift(a), lift(b)
            if "dec" in (la.ty.kind, lb.ty.kind) and {la.ty.kind, lb.ty.kind} <= {"int", "real", "dec"}:
                fins = [dec_fin(v.z) for v in (la, lb) if v.ty.kind == "dec"]
                return Sym(BOOL, z3.And(to_real(la) == to_real(lb), *fins))
            if la.ty.kind != lb.ty.kind and not {la.ty.kind, lb.ty.kind} <= {"int", "real"}: return False
            if la.ty.kind != lb.ty.kind: return Sym(BOOL, to_real(la) == to_real(lb))
            return Sym(BOOL, la.z == lb.z)
        if isinstance(a, Ref) or isinstance(b, Ref): return a == b if (isinstance(a, Ref) and isinstance(b, Ref)) else False
        return a == b

    def conj(self, rs):
        if any(r is False for r in rs): return False
        zs = [r.z for r in rs if isinstance(r, Sym)]
        if not zs: return True
        return Sym(BOOL, z3.And(*zs))
    def disj(self, rs):
        if any(r is True for r in rs): return True
        zs = [r.z for r in rs if isinstance(r, Sym)]
        if not zs: return False
        return Sym(BOOL, z3.Or(*zs))

    def contains(self, st, container, item):
        if isinstance(container, (list, tuple, set, frozenset)):
            return self.disj([self.equals(st, item, c) for c in container])
        if isinstance(container, dict): return self.disj([self.equals(st, item, c) for c in container.keys()])
        if isinstance(container, str) and isinstance(item, str): return item in container
        if isinstance(container, (str, Sym)) and isinstance(item, (str, Sym)): return Sym(BOOL, z3.Contains(lift(container).z, lift(item).z))
        if isinstance(container, UFDict): return Sym(BOOL, container.has(lift_to(container.key_ty, item)))
        if isinstance(container, UFL):
            i = z3.Int("in!%d" % next(core_fresh)); return Sym(BOOL, z3.Exists([i], z3.And(i >= 0, i < container.length, container.at(i) == lift(item).z)))
        raise Unsupported("in %r" % (container,))

    def ev_BinOp(self, node, st):
        for s, vs in self.ev_seq([node.left, node.right], st):
            if isinstance(vs, Raise): yield s, vs; continue
            a, b = vs
            yield from self.binop(s, node.op, a, b)

    def binop(self, st, op, a, b):
        if isinstance(op, ast.Mod) and isinstance(lift_maybe(a), (str,)) or (isinstance(op, ast.Mod) and isinstance(a, Sym) and a.ty.kind == "str"):
            yield st, self.format(st, a, b); return
        if not isinstance(a, (Sym, UFL)) and not isinstance(b, (Sym, UFL)) and not isinstance(a, Ref) and not isinstance(b, Ref):
            import operator
            f = {ast.Add: operator.add, ast.Sub: operator.sub, ast.Mult: operator.mul, ast.FloorDiv: operator.floordiv, ast.Mod: operator.mod, ast.Pow: operator.pow,
                 ast.BitOr: operator.or_, ast.BitAnd: operator.and_, ast.BitXor: operator.xor, ast.LShift: operator.lshift, ast.RShift: operator.rshift, ast.Div: operator.truediv}[type(op)]
            yield st, f(a, b); return
        if isinstance(op, ast.Add) and ((isinstance(a, Sym) and a.ty.kind == "seqlist") or (isinstance(b, Sym) and b.ty.kind == "seqlist")):
            def seqz(v, ty):
                if isinstance(v, Sym): return v.z
                if not v: return z3.Empty(sort_of(ty))
                us = [z3.Unit(lift_to(ty.args[0], x)) for x in v]; return z3.Concat(*us) if len(us) > 1 else us[0]
            ty = a.ty if isinstance(a, Sym) else b.ty
            yield st, Sym(ty, z3.Concat(seqz(a, ty), seqz(b, ty))); return
        if isinstance(op, ast.Mult) and isinstance(a, list) and len(a) == 1 and isinstance(b, Sym) and b.ty.kind == "int":
            yield st, RepeatList(a[0], b); return         # [x] * n
        if isinstance(a, UFL) or isinstance(b, UFL): raise Unsupported("list arithmetic")
        if isinstance(a, Opaque) or isinstance(b, Opaque): yield st, Opaque(); return
        if isinstance(a, Sym) and a.ty.kind == "opt":
            isn = sort_of(a.ty).is_none(a.z)
            if feasible(st.pc, isn):
                if os.environ.get("VF_DEBUG"): print("DEBUG binop None: a=%s\n  pc tail:\n   %s" % (a.z, "\n   ".join(str(c)[:200] for c in st.pc[-14:])))
                raise Unsupported("None operand feasible in binop")
            a = opt_payload(a)
        if isinstance(b, Sym) and b.ty.kind == "opt":
            if feasible(st.pc, sort_of(b.ty).is_none(b.z)): raise Unsupported("None operand feasible in binop")
            b = opt_payload(b)
        la, lb = lift(a), lift(b)
        if la.ty.kind == "str" and lb.ty.kind == "str" and isinstance(op, ast.Add):
            yield st, Sym(STR, z3.Concat(la.z, lb.z)); return
        if la.ty.kind == "str" and lb.ty.kind == "int" and isinstance(op, ast.Mult):
            # s * n: uninterpreted repetition with its length (A-STR)
            rep = self.absfun_s("str_repeat", [z3.StringSort(), z3.IntSort()], z3.StringSort())(la.z, lb.z)
            st.pc.append(z3.And(z3.Length(rep) == z3.If(lb.z > 0, lb.z * z3.Length(la.z), 0), z3.Implies(lb.z <= 0, rep == z3.StringVal(""))))
            yield st, Sym(STR, rep); return
        if la.ty.kind in ("int", "real") and lb.ty.kind in ("int", "real"):
            ty = REAL if "real" in (la.ty.kind, lb.ty.kind) else INT
            if isinstance(op, ast.Add): yield st, Sym(ty, la.z + lb.z); return
            if isinstance(op, ast.Sub): yield st, Sym(ty, la.z - lb.z); return
            if isinstance(op, ast.Mult): yield st, Sym(ty, la.z * lb.z); return
            if ty == INT and isinstance(op, (ast.Mod, ast.FloorDiv)):
                # Python floor semantics; z3's div/mod agree with it for a positive divisor
                if isinstance(b, int) and b > 0: yield st, Sym(INT, (la.z % lb.z) if isinstance(op, ast.Mod) else (la.z / lb.z)); return
                if feasible(st.pc, lb.z <= 0): raise Unsupported("// or % with a divisor that may be <= 0")
                yield st, Sym(INT, (la.z % lb.z) if isinstance(op, ast.Mod) else (la.z / lb.z)); return
        raise Unsupported("binop %s on %r %r" % (type(op).__name__, a, b))

    def to_str(self, st, v, conv="s"):
        """z3 String term for str(v) / repr(v)"""
        if isinstance(v, Sym) and v.ty.kind == "opt" and v.ty.args[0].kind in ("int", "str") and not feasible(st.pc, sort_of(v.ty).is_none(v.z)): v = unopt(v)
        if isinstance(v, Sym):
            if v.ty.kind == "str": return repr_str(v.z) if conv == "r" else v.z
            if v.ty.kind == "int": return z3.If(v.z < 0, z3.Concat(z3.StringVal("-"), z3.IntToStr(-v.z)), z3.IntToStr(v.z))
        if isinstance(v, (str, int, bool, type(None), tuple, list)) and not any(isinstance(x, (Sym, Ref)) for x in (v if isinstance(v, (tuple, list)) else [v])):
            return z3.StringVal(repr(v) if conv == "r" else str(v))
        # opaque: objects, symbolic containers
        f, _ = fresh(STR, "strof"); return f.z

    def format(self, st, fmt, args):
        if not isinstance(fmt, str): raise Unsupported("symbolic format string")
        if not isinstance(args, tuple): args = (args,)
        import re
        parts = re.split(r"(%[sdr]|%%|%0?\d*[dx]|%\.\*f)", fmt)
        out = []; ai = 0
        for p in parts:
            if p == "": continue
            if p == "%%": out.append(z3.StringVal("%")); continue
            if p.startswith("%") and len(p) >= 2:
                if p in ("%s", "%r", "%d"):
                    out.append(self.to_str(st, args[ai], p[1])); ai += 1
                else:
                    f, _ = fresh(STR, "fmt"); out.append(f.z); ai += (2 if p == "%.*f" else 1)
                continue
            out.append(z3.StringVal(p))
        if all(z3.is_string_value(o) for o in out): return "".join(o.as_string() for o in out)   # fully concrete
        return Sym(STR, z3.Concat(*out) if len(out) > 1 else out[0])

    def format_fields(self, st, pieces):
        """str.format / f-string: `pieces` are literal texts and (value, conversion, spec) triples; the same model as for `%`: %s / %r / %d
        conversions are spelled out, every other format specification yields an arbitrary text"""
        out = []
        for p in pieces:
            if isinstance(p, str):
                if p: out.append(z3.StringVal(p))
                continue
            v, conv, spec = p
            if spec in ("", None) and conv in (None, "s", "r"): out.append(self.to_str(st, v, "r" if conv == "r" else "s"))
            elif spec == "d" and conv is None: out.append(self.to_str(st, v, "d"))
            else: out.append(fresh(STR, "fmt")[0].z)
        if not out: return ""
        if all(z3.is_string_value(o) for o in out): return "".join(o.as_string() for o in out)
        return Sym(STR, z3.Concat(*out) if len(out) > 1 else out[0])

    def format_method(self, st, fmt, args, kw):
        import string
        pieces = []; auto = 0
        for lit, field, spec, conv in string.Formatter().parse(fmt):
            pieces.append(lit)
            if field is None: continue
            if spec and "{" in spec: raise Unsupported("nested format specification")
            if field == "": v = args[auto]; auto += 1
            elif field.isdigit(): v = args[int(field)]
            elif field.isidentifier() and field in kw: v = kw[field]
            else: raise Unsupported("format field %r" % field)
            pieces.append((v, conv, spec))
        return self.format_fields(st, pieces)

    def ev_JoinedStr(self, node, st):
        vals = [v.value for v in node.values if isinstance(v, ast.FormattedValue)]
        for v in node.values:
            if isinstance(v, ast.FormattedValue) and v.format_spec is not None and not all(isinstance(x, ast.Constant) for x in v.format_spec.values):
                raise Unsupported("f-string with a computed format specification")
        for s, got in self.ev_seq(vals, st):
            if isinstance(got, Raise): yield s, got; continue
            it = iter(got); pieces = []
            for v in node.values:
                if isinstance(v, ast.Constant): pieces.append(v.value)
                else:
                    spec = "".join(x.value for x in v.format_spec.values) if v.format_spec is not None else ""
                    pieces.append((next(it), {-1: None, 115: "s", 114: "r", 97: "a"}[v.conversion], spec))
            yield s, self.format_fields(s, pieces)

    # ------------------------------------------------------------ calls
    def ev_Call(self, node, st):
        starred = [isinstance(a, ast.Starred) for a in node.args]
        for s, fn in self.ev(node.func, st):
            if isinstance(fn, Raise): yield s, fn; continue
            for s2, args in self.ev_seq([a.value if isinstance(a, ast.Starred) else a for a in node.args], s):
                if isinstance(args, Raise): yield s2, args; continue
                if any(starred):
                    flat = []
                    for is_star, a in zip(starred, args):
                        if is_star:
                            if not isinstance(a, (tuple, list)): raise Unsupported("* of a symbolic sequence")
                            flat.extend(a)
                        else: flat.append(a)
                    args = flat
                for s3, kwv in self.ev_seq([k.value for k in node.keywords], s2):
                    if isinstance(kwv, Raise): yield s3, kwv; continue
                    kw = {}
                    for k, v in zip(node.keywords, kwv):
                        if k.arg is None:
                            if not isinstance(v, dict): raise Unsupported("** of a non-dict")
                            kw.update(v)
                        else: kw[k.arg] = v
                    yield from self.call(s3, fn, args, kw, node)

    def call(self, st, fn, args, kw, node=None):
        if isinstance(fn, FuncRef): yield from self.call_function(st, fn, args, kw); return
        if isinstance(fn, ClassRef): yield from self.instantiate(st, fn.info, args, kw); return
        if isinstance(fn, TypeOf) and isinstance(fn.v, Ref) and S.find_class(fn.v.cls) is not None:      # type(obj)(...)
            yield from self.instantiate(st, S.find_class(fn.v.cls), args, kw); return
        if isinstance(fn, BuiltinExcClass):
            yield st, self.new_builtin_exc(st, fn.name, args); return
        if isinstance(fn, AbsMethod):
            c = self.contracts.get("abs:%s.%s" % (fn.tyname, fn.name))
            if c is None: raise Unsupported("no contract for abstract %s.%s" % (fn.tyname, fn.name))
            yield from c.model(self, st, fn.recv, args, kw); return
        if isinstance(fn, BoundModel):
            yield from fn.model(self, st, fn.recv, args, kw); return
        if isinstance(fn, BuiltinRef):
            from . import builtins_model
            yield from builtins_model.call(self, st, fn, args, kw, node); return
        raise Unsupported("call %r" % (fn,))

    def call_function(self, st, fn, args, kw):
        qn = fn.qualname
        c = self.contracts.get(qn)
        if c is not None and qn != self.current_fn and getattr(c, "use_at_calls", True):
            yield from c.apply(self, st, fn, args, kw); return
        if self.depth >= self.max_inline: raise Unsupported("inline depth at %s" % qn)
        fd = S.foreign_decorators(fn.node)
        if fd: raise Unsupported("%s is wrapped by the decorator %s: what runs is the wrapper, not the body" % (qn, ", ".join(fd)))
        # inline
        self.inlined.add(qn)
        env = self.bind_args(st, fn, args, kw)
        st.frames.append(Frame(fn.mod, fn.cls, env, parent_depth=getattr(fn, "def_depth", None)))
        self.depth += 1
        try:
            results = list(self.exec_block(fn.node.body, st))
        finally:
            self.depth -= 1
        for s, ctl in results:
            s.frames.pop()
            if ctl[0] == "return": yield s, ctl[1]
            elif ctl[0] == "next": yield s, None
            elif ctl[0] == "raise": yield s, Raise(ctl[1])
            else: raise Unsupported("ctl %r escaping function" % (ctl,))

    def bind_args(self, st, fn, args, kw):
        a = fn.node.args
        names = [x.arg for x in a.args]
        env = {}
        vals = list(args)
        if fn.bound is not None: vals = [fn.bound] + vals
        for n, v in zip(names, vals): env[n] = v
        defaults = a.defaults
        for i, n in enumerate(names[len(vals):], start=len(vals)):
            if n in kw: env[n] = kw[n]
            else:
                di = i - (len(names) - len(defaults))
                if di < 0: raise Unsupported("missing arg %s for %s" % (n, fn.qualname))
                env[n] = self.const_eval(fn.mod, defaults[di])
        for k, v in kw.items():
            if k in names: env[k] = v
        return env

    def instantiate(self, st, info, args, kw):
        cc = self.contracts.get("class:" + info.name)
        if cc is not None and not (self.current_fn or "").endswith("." + info.name + ".__init__"):
            yield from cc(self, st, info, args, kw); return
        ref = Ref(info.name); st.heap[ref.oid] = {}
        k, init = S.lookup_method(info, "__init__")
        if init is None:
            if any(S._builtin_subclass(b.split(".")[-1], "BaseException") for kk in S.mro(info) for b in kk.bases):
                st.heap[ref.oid]["args"] = tuple(args)
            yield st, ref; return
        for s, r in self.call_function(st, FuncRef(k.module, k, init, bound=ref), args, kw):
            yield s, (r if isinstance(r, Raise) else ref)

    def new_builtin_exc(self, st, name, args):
        ref = Ref(name); st.heap[ref.oid] = {"args": tuple(args)}; return ref

    # ------------------------------------------------------------ statements
    def exec_block(self, stmts, st):
        """yield (state, ctl) with ctl in ('next',) ('return',v) ('raise',exc) ('break',) ('continue',)"""
        if not stmts:
            yield st, ("next",); return
        for s, ctl in self.exec_stmt(stmts[0], st):
            if ctl[0] == "next": yield from self.exec_block(stmts[1:], s)
            else: yield s, ctl

    def exec_stmt(self, node, st):
        m = getattr(self, "st_" + type(node).__name__, None)
        if m is None: raise Unsupported("stmt %s" % type(node).__name__)
        hook = self.stmt_hooks.get(ast.unparse(node)) if not isinstance(node, (ast.If, ast.For, ast.While, ast.Try, ast.FunctionDef)) else None
        before = self.stmt_hooks_before.get(ast.unparse(node)) if hook is None and not isinstance(node, (ast.If, ast.For, ast.While, ast.Try, ast.FunctionDef)) else None
        if before:
            self.hooks_fired[ast.unparse(node)] = self.hooks_fired.get(ast.unparse(node), 0) + 1; before(self, st)
        for s, ctl in m(node, st):
            if hook and ctl[0] == "next":
                self.hooks_fired[ast.unparse(node)] = self.hooks_fired.get(ast.unparse(node), 0) + 1; hook(self, s)
            yield s, ctl

    def st_Delete(self, node, st):
        for tgt in node.targets:
            if not isinstance(tgt, ast.Subscript): raise Unsupported("del of a non-subscript")
            res = list(self.ev_seq([tgt.value, tgt.slice], st))
            if len(res) != 1 or isinstance(res[0][1], Raise): raise Unsupported("del with a forking / raising target")
            base, idx = res[0][1]
            if isinstance(base, (list, dict)) and not isinstance(idx, Sym):
                try: del base[idx]
                except (IndexError, KeyError) as e:
                    yield st, ("raise", self.new_builtin_exc(st, type(e).__name__, [str(e)])); return
            elif isinstance(base, UFL) and isinstance(idx, (int, Sym)) and not isinstance(idx, bool):
                # del on a UF list held in a local / attribute: the target is re-bound, and so is every alias (a caller's list handed to a helper)
                k = lift(idx).z; n0 = base.length; pos = z3.If(k < 0, n0 + k, k)
                if feasible(st.pc, z3.Or(pos < 0, pos >= n0)):
                    sb = st.copy(); sb.pc.append(z3.Or(pos < 0, pos >= n0)); yield sb, ("raise", self.new_builtin_exc(sb, "IndexError", ["list assignment index out of range"]))
                st.pc.append(z3.And(pos >= 0, pos < n0))
                new = UFL(base.elem_ty, (lambda i, r=base, pos=pos: z3.If(i < pos, r.at(i), r.at(i + 1))), n0 - 1)
                for s2, _ in self.mutate(st, tgt.value, base, new): st = s2
            else: raise Unsupported("del on a symbolic container")
        yield st, ("next",)
    def st_Pass(self, node, st): yield st, ("next",)
    def st_Break(self, node, st): yield st, ("break",)
    def st_Continue(self, node, st): yield st, ("continue",)
    def st_Import(self, node, st): yield st, ("next",)
    def st_ImportFrom(self, node, st): yield st, ("next",)
    def st_Global(self, node, st): yield st, ("next",)
    def st_Expr(self, node, st):
        if isinstance(node.value, ast.Constant): yield st, ("next",); return      # docstring
        if isinstance(node.value, ast.Call) and ast.unparse(node.value.func).split(".")[0] in ("_log",) : yield st, ("next",); return
        if isinstance(node.value, ast.Call) and ast.unparse(node.value.func).startswith("self._log."): yield st, ("next",); return
        if isinstance(node.value, (ast.Yield,)):
            for s, v in self.ev(node.value.value, st) if node.value.value is not None else [(st, None)]:
                if isinstance(v, Raise): yield s, ("raise", v.exc); continue
                yield from self.do_yield(s, v)
            return
        for s, v in self.ev(node.value, st):
            yield s, (("raise", v.exc) if isinstance(v, Raise) else ("next",))

    def do_yield(self, st, v):
        st.ghost.setdefault("yielded", [])
        st.ghost["yielded"] = st.ghost["yielded"] + [v]
        hook = getattr(self, "yield_hook", None)
        if hook: hook(st, v)
        if getattr(self, "model_abandon", False):
            # the consumer may close the generator here: GeneratorExit is raised at the yield point (finally / with blocks run as in CPython)
            sb = st.copy(); sb.ghost["abandoned"] = True
            yield sb, ("raise", self.new_builtin_exc(sb, "GeneratorExit", []))
        yield st, ("next",)

    def st_Assert(self, node, st):
        for s, c in self.ev(node.test, st):
            if isinstance(c, Raise): yield s, ("raise", c.exc); continue
            for s2, b in self.fork(s, c):
                if b: yield s2, ("next",)
                else: yield s2, ("raise", self.new_builtin_exc(s2, "AssertionError", [ast.unparse(node.test)]))

    def st_Return(self, node, st):
        if node.value is None: yield st, ("return", None); return
        for s, v in self.ev(node.value, st):
            yield s, (("raise", v.exc) if isinstance(v, Raise) else ("return", v))

    def st_Raise(self, node, st):
        if node.exc is None:
            yield st, ("raise", st.frames[-1].env["__current_exc__"]); return
        for s, v in self.ev(node.exc, st):
            if isinstance(v, Raise): yield s, ("raise", v.exc); continue
            if isinstance(v, (ClassRef, BuiltinExcClass)):
                for s2, inst in self.call(s, v, [], {}):
                    yield s2, ("raise", inst.exc if isinstance(inst, Raise) else inst)
                continue
            yield s, ("raise", v)

    def st_Assign(self, node, st):
        for s, v in self.ev(node.value, st):
            if isinstance(v, Raise): yield s, ("raise", v.exc); continue
            states = [s]
            for tgt in node.targets:
                nxt = []
                for s1 in states:
                    for s2, ctl in self.assign(s1, tgt, v):
                        if ctl[0] != "next": yield s2, ctl
                        else: nxt.append(s2)
                states = nxt
            for s1 in states: yield s1, ("next",)

    def st_AugAssign(self, node, st):
        load = _copy.deepcopy(node.target)
        for n in ast.walk(load):
            if hasattr(n, "ctx"): n.ctx = ast.Load()
        for s, vs in self.ev_seq([load, node.value], st):
            if isinstance(vs, Raise): yield s, ("raise", vs.exc); continue
            for s2, r in self.binop(s, node.op, vs[0], vs[1]):
                if isinstance(r, Raise): yield s2, ("raise", r.exc); continue
                yield from self.assign(s2, node.target, r)

    def mutate(self, st, tgt, old, new):
        """In-place mutation of a container the engine models as a value (UFDict, UFL, symbolic list): the expression `tgt` it was reached
        through is re-bound to the new value, and so is every other local or attribute holding the *same* object - `d = self._map; d[k] = v`
        changes `self._map`, too."""
        for fr in st.frames:
            for k, x in fr.env.items():
                if x is old: fr.env[k] = new
        for attrs in st.heap.values():
            for k, x in attrs.items():
                if x is old: attrs[k] = new
        load = _copy.deepcopy(tgt)
        for n in ast.walk(load):
            if hasattr(n, "ctx"): n.ctx = ast.Store()
        yield from self.assign(st, load, new)

    def assign(self, st, tgt, v):
        if isinstance(tgt, ast.Name):
            st.frames[-1].env[tgt.id] = v; yield st, ("next",); return
        if isinstance(tgt, (ast.Tuple, ast.List)):
            if isinstance(v, Sym) and v.ty.kind == "tuple":
                srt = sort_of(v.ty); v = tuple(Sym(v.ty.args[i], srt.accessor(0, i)(v.z)) for i in range(len(v.ty.args)))
            if not isinstance(v, (tuple, list)) or len(v) != len(tgt.elts): raise Unsupported("unpack %r" % (v,))
            states = [st]
            for t, x in zip(tgt.elts, v):
                states = [s2 for s1 in states for s2, _ in self.assign(s1, t, x)]
            for s in states: yield s, ("next",)
            return
        if isinstance(tgt, ast.Attribute):
            for s, base in self.ev(tgt.value, st):
                if isinstance(base, Raise): yield s, ("raise", base.exc); continue
                if isinstance(base, Sym) and base.ty.kind == "abs" and ("absset:%s.%s" % (base.ty.args[0], tgt.attr)) in self.contracts:
                    for s2, r in self.contracts["absset:%s.%s" % (base.ty.args[0], tgt.attr)](self, s, base, v):
                        yield s2, (("raise", r.exc) if isinstance(r, Raise) else ("next",))
                    continue
                if not isinstance(base, Ref): raise Unsupported("attr store on %r" % (base,))
                cls = S.find_class(base.cls)
                if cls is not None:
                    k, p = S.lookup_property(cls, tgt.attr + "@setter")
                    if p is not None:
                        for s2, r in self.call_function(s, FuncRef(k.module, k, p, bound=base), [v], {}):
                            yield s2, (("raise", r.exc) if isinstance(r, Raise) else ("next",))
                        continue
                hint = getattr(self, "attr_types", {}).get(tgt.attr)
                if hint is not None and hint.kind == "uflist" and isinstance(v, list):
                    items = [lift(x).z for x in v]; dflt = z3.Const("dflt_" + tgt.attr, sort_of(hint.args[0]))
                    def at(i, items=items, dflt=dflt):
                        r = dflt
                        for k in reversed(range(len(items))): r = z3.If(i == k, items[k], r)
                        return r
                    as_list = v; v = UFL(hint.args[0], at, z3.IntVal(len(items)))
                    for fr in s.frames:          # a local holding the same list object goes on naming the same container
                        for k_, x_ in fr.env.items():
                            if x_ is as_list: fr.env[k_] = v
                s.heap[base.oid][tgt.attr] = v
                yield s, ("next",)
            return
        if isinstance(tgt, ast.Subscript):
            for s, vs in self.ev_seq([tgt.value, tgt.slice], st):
                if isinstance(vs, Raise): yield s, ("raise", vs.exc); continue
                base, idx = vs
                if isinstance(base, list) and not isinstance(idx, Sym): base[idx] = v; yield s, ("next",); continue
                if isinstance(base, dict) and not isinstance(idx, Sym): base[idx] = v; yield s, ("next",); continue
                if isinstance(base, UFDict):
                    new = base.updated(lift_to(base.key_ty, idx), base.encode(s, v))
                    yield from self.mutate(s, tgt.value, base, new); continue
                from . import builtins_model
                yield from builtins_model.setitem(self, s, base, idx, v)
            return
        raise Unsupported("assign target %s" % type(tgt).__name__)

    def ufdict_value(self, st, d, kz):
        z = d.val(kz)
        if d.decode is not None: return d.decode(st, z)
        for ty in (INT, BOOL, STR, REAL):
            if sort_of(ty) == d.val_sort: return Sym(ty, z)
        raise Unsupported("UFDict value sort %s without decoder" % d.val_sort)

    def _if_convertible(self, node, st):
        """`if c: x = e` (no else) on a scalar local: merged into x = ite(c, e, x) instead of forking (same semantics,
        fewer paths). Only when e is a name / constant and x is already bound to a scalar of the same kind."""
        if node.orelse or len(node.body) != 1: return None
        a = node.body[0]
        if not isinstance(a, ast.Assign) or len(a.targets) != 1 or not isinstance(a.targets[0], ast.Name): return None
        if not isinstance(a.value, (ast.Name, ast.Constant)): return None
        if ast.unparse(a) in self.stmt_hooks or ast.unparse(a) in self.stmt_hooks_before: return None
        env = st.frames[-1].env
        if a.targets[0].id not in env: return None
        return a

    def st_If(self, node, st):
        conv = self._if_convertible(node, st)
        for s, c in self.ev(node.test, st):
            if isinstance(c, Raise): yield s, ("raise", c.exc); continue
            if conv is not None:
                t = self.truth(c)
                if isinstance(t, Sym):
                    env = s.frames[-1].env; old = env[conv.targets[0].id]
                    try:
                        newv = self.lookup(s, conv.value.id) if isinstance(conv.value, ast.Name) else conv.value.value
                        lo, ln = lift(old), lift(newv)
                    except (TypeError, Unsupported):
                        lo = ln = None
                    if lo is not None and lo.ty == ln.ty and lo.ty.kind in ("int", "bool", "str", "real", "dec"):
                        env[conv.targets[0].id] = Sym(lo.ty, z3.If(t.z, ln.z, lo.z))
                        yield s, ("next",); continue
            for s2, b in self.fork(s, c):
                yield from self.exec_block(node.body if b else node.orelse, s2)

    def exc_matches(self, st, exc, type_node):
        if type_node is None: return True
        names = [ast.unparse(e).split(".")[-1] for e in (type_node.elts if isinstance(type_node, ast.Tuple) else [type_node])]
        return any(S.is_subclass(exc.cls, n) for n in names)

    def st_Try(self, node, st):
        def run_finally(s, ctl):
            if not node.finalbody: yield s, ctl; return
            for s2, c2 in self.exec_block(node.finalbody, s):
                yield s2, (ctl if c2[0] == "next" else c2)
        for s, ctl in self.exec_block(node.body, st):
            if ctl[0] == "raise":
                exc = ctl[1]; handled = False
                for h in node.handlers:
                    if self.exc_matches(s, exc, h.type):
                        handled = True
                        env = s.frames[-1].env
                        saved = env.get("__current_exc__")
                        if h.name: env[h.name] = exc
                        env["__current_exc__"] = exc
                        for s2, c2 in self.exec_block(h.body, s):
                            s2.frames[-1].env["__current_exc__"] = saved
                            yield from run_finally(s2, c2)
                        break
                if not handled: yield from run_finally(s, ctl)
            elif ctl[0] == "next" and node.orelse:
                for s2, c2 in self.exec_block(node.orelse, s): yield from run_finally(s2, c2)
            else:
                yield from run_finally(s, ctl)

    def _ctx_call(self, st, obj, name, args):
        """call obj.<name>(*args) for a context manager; objects without such a method: __enter__ -> obj, __exit__ -> close() if modelled, else nothing"""
        if isinstance(obj, Ref):
            c = self.contracts.get("ref:%s.%s" % (obj.cls, name))
            cls = S.find_class(obj.cls)
            if c is not None or (cls is not None and S.lookup_method(cls, name)[1] is not None):
                for s2, m in self.getattr(st, obj, name):
                    if isinstance(m, Raise): yield s2, m; continue
                    yield from self.call(s2, m, list(args), {})
                return
            if name == "__exit__" and (self.contracts.get("ref:%s.close" % obj.cls) is not None or (cls is not None and S.lookup_method(cls, "close")[1] is not None)):
                for s2, m in self.getattr(st, obj, "close"):
                    for s3, r in self.call(s2, m, [], {}): yield s3, (r if isinstance(r, Raise) else None)
                return
        yield st, (obj if name == "__enter__" else None)

    def st_With(self, node, st):
        if len(node.items) != 1:
            inner = ast.With(items=node.items[1:], body=node.body); ast.copy_location(inner, node)
            outer = ast.With(items=node.items[:1], body=[inner]); ast.copy_location(outer, node)
            yield from self.st_With(outer, st); return
        item = node.items[0]
        for s, cm in self.ev(item.context_expr, st):
            if isinstance(cm, Raise): yield s, ("raise", cm.exc); continue
            for s1, entered in self._ctx_call(s, cm, "__enter__", []):
                if isinstance(entered, Raise): yield s1, ("raise", entered.exc); continue
                if item.optional_vars is not None:
                    for s1b, _ in self.assign(s1, item.optional_vars, entered): pass
                for s2, ctl in self.exec_block(node.body, s1):
                    if ctl[0] == "raise":
                        for s3, r in self._ctx_call(s2, cm, "__exit__", [TypeOf(ctl[1]), ctl[1], None]):
                            if isinstance(r, Raise): yield s3, ("raise", r.exc); continue
                            t = self.truth(r) if r is not None else False
                            if isinstance(t, Sym): raise Unsupported("symbolic __exit__ result")
                            yield s3, (("next",) if t else ctl)
                    else:
                        for s3, r in self._ctx_call(s2, cm, "__exit__", [None, None, None]):
                            yield s3, (("raise", r.exc) if isinstance(r, Raise) else ctl)

    def st_FunctionDef(self, node, st):
        fr = st.frames[-1]
        fr.env[node.name] = Closure(fr.mod, fr.cls, node, len(st.frames) - 1)
        yield st, ("next",)

    # ---- loops with invariants
    def loop_spec(self, node):
        key = self._loop_key(node)
        return self.loop_specs.get((self.current_fn, key))
    def _loop_key(self, node):
        """the contract's number for this loop: by matching source text of the iterable / condition where the spec names one, else by position"""
        text = ast.unparse(node.iter if isinstance(node, ast.For) else node.test)
        for (fn, k), spec in self.loop_specs.items():
            if fn == self.current_fn and getattr(spec, "match", None) == text: return k
        pos = self._loop_index.get(id(node))
        spec = self.loop_specs.get((self.current_fn, pos))
        if spec is not None and getattr(spec, "match", None) not in (None, text): return ("unmatched", pos)
        return pos
    def loop_ordinal(self, node):
        k = self._loop_key(node)
        return k if isinstance(k, int) else self._loop_index.get(id(node))

    def st_While(self, node, st):
        spec = self.loop_spec(node)
        if spec is None: raise Unsupported("while loop %s without invariant in %s" % (self.loop_ordinal(node), self.current_fn))
        if getattr(spec, "unroll", None):
            yield from self.unroll_while(node, st, spec.unroll); return
        yield from self.run_loop(node, st, spec, kind="while")

    def unroll_while(self, node, st, budget):
        for s, c in self.ev(node.test, st):
            if isinstance(c, Raise): yield s, ("raise", c.exc); continue
            for s2, b in self.fork(s, c):
                if not b:
                    yield s2, ("next",); continue
                if budget == 0:
                    self.obligations.append(Obligation("%s/loop%d/unwinding-assertion" % (self.current_fn, self.loop_ordinal(node)), s2.pc, z3.BoolVal(False), "unwind"))
                    continue
                for s3, ctl in self.exec_block(node.body, s2):
                    if ctl[0] in ("next", "continue"): yield from self.unroll_while(node, s3, budget - 1)
                    elif ctl[0] == "break": yield s3, ("next",)
                    else: yield s3, ctl

    def st_For(self, node, st):
        spec = self.loop_spec(node)
        if spec is not None and getattr(spec, "unroll", None):
            raise Unsupported("unrolled for loop")
        for s, it in self.ev(node.iter, st):
            if isinstance(it, Raise): yield s, ("raise", it.exc); continue
            if isinstance(it, Ref) and ("iter:" + it.cls) in self.contracts:
                it = self.contracts["iter:" + it.cls](self, s, it)
            if spec is None:
                if isinstance(it, (list, tuple, str, dict)):          # concrete: unroll
                    yield from self.unroll_for(node, s, list(it), 0); continue
                raise Unsupported("for loop %s without invariant in %s over %r" % (self.loop_ordinal(node), self.current_fn, it))
            yield from self.run_loop(node, s, spec, kind="for", iterable=it)

    def unroll_for(self, node, st, items, i):
        if i == len(items):
            if node.orelse: yield from self.exec_block(node.orelse, st)
            else: yield st, ("next",)
            return
        for s, _ in self.assign(st, node.target, items[i]):
            for s2, ctl in self.exec_block(node.body, s):
                if ctl[0] in ("next", "continue"): yield from self.unroll_for(node, s2, items, i + 1)
                elif ctl[0] == "break": yield s2, ("next",)
                else: yield s2, ctl

    def run_loop(self, node, st, spec, kind, iterable=None):
        name = "%s/loop%d" % (self.current_fn, self.loop_ordinal(node))
        idx_name = "_i%d" % self.loop_ordinal(node)
        env = st.frames[-1].env
        fallible = None
        if kind == "for":
            env[idx_name] = 0
            if isinstance(iterable, FallibleIter):
                fallible = iterable; iterable = iterable.seq
            seq = self.as_ufl(st, iterable)
            env["_seq%d" % self.loop_ordinal(node)] = seq
        # 1. invariant on entry
        for u in spec.unfolds: st.pc.extend(u(self, st))
        for k, inv in enumerate(spec.invariants):
            self.obligations.append(Obligation("%s/inv%d/entry" % (name, k), st.pc, self.spec(inv, st).z, "inv-entry"))
        # 2. havoc
        head = st.copy()
        henv = head.frames[-1].env
        for var, ty in spec.havoc.items():
            if "." not in var and getattr(self, "_assigned_names", None) is not None and len(st.frames) == 1 and var.split("[")[0] not in self._assigned_names:
                continue        # a local of an earlier version of the function (renamed / inlined since): nothing to give a fresh value to; a model that still reads it gets a KeyError, i.e. "not bound"
            if var.endswith("]"):
                nm, ix = var[:-1].split("["); v, cons = fresh(ty, nm); self.lookup(head, nm)[int(ix)] = v
            elif "." in var:
                base, attr = var.rsplit(".", 1)
                obj = self.spec_value(base, head)
                v, cons = fresh(ty, var.replace(".", "_")); was = head.heap[obj.oid].get(attr); head.heap[obj.oid][attr] = v
                if isinstance(was, (UFL, UFDict, list, dict)):       # a local alias of the container (`items = self.items` before the loop) stays an alias
                    for fr in head.frames:
                        for k_, x_ in fr.env.items():
                            if x_ is was: fr.env[k_] = v
            else:
                v, cons = fresh(ty, var); henv[var] = v
            head.pc.extend(cons)
        if kind == "for":
            v, _ = fresh(INT, idx_name); henv[idx_name] = v
            head.pc.append(z3.And(v.z >= 0, v.z <= seq.length))
        for g in spec.ghost_havoc:
            v, cons = fresh(spec.ghost_havoc[g], g); head.ghost[g] = v; head.pc.extend(cons)
        for inv in spec.invariants: head.pc.append(self.spec(inv, head).z)
        for u in spec.unfolds: head.pc.extend(u(self, head))
        snapshot = self.snapshot(head)
        # 3. one iteration / exit
        if kind == "while":
            conds = list(self.ev(node.test, head.copy()))
        else:
            i = henv[idx_name].z
            conds = []
            if fallible is not None:
                # an iterator that may raise instead of delivering element number fail_at (0 <= fail_at <= len); otherwise it is exhausted normally
                f = lift(fallible.fail_at).z; fails = z3.And(f >= 0, f <= seq.length)
                head.pc.append(z3.Implies(fails, i <= f))
                here = z3.And(fails, i == f)
                s_r = head.copy(); s_r.pc.append(here)
                if feasible(s_r.pc):
                    for s_r2, r in fallible.raise_fn(self, s_r): conds.append((s_r2, r))
                head.pc.append(z3.Not(here))
            s_in = head.copy(); s_in.pc.append(i < seq.length)
            s_out = head.copy(); s_out.pc.append(i >= seq.length)
            if feasible(s_in.pc): conds.append((s_in, "FOR_IN"))
            if feasible(s_out.pc): conds.append((s_out, "FOR_OUT"))
        for s, c in conds:
            if isinstance(c, Raise): yield s, ("raise", c.exc); continue
            if c == "FOR_IN": branches = [(s, True)]
            elif c == "FOR_OUT": branches = [(s, False)]
            else: branches = list(self.fork(s, c))
            for s2, b in branches:
                if not b:
                    if node.orelse: yield from self.exec_block(node.orelse, s2)
                    else: yield s2, ("next",)
                    continue
                if kind == "for":
                    i = s2.frames[-1].env[idx_name].z
                    elem = Sym(seq.elem_ty, seq.at(i)) if not callable(getattr(seq, "elem", None)) else seq.elem(i)
                    if spec.elem_wrap: elem = spec.elem_wrap(self, s2, elem, i)
                    for s3, _ in self.assign(s2, node.target, elem): pass
                for s3, ctl in self.exec_block(node.body, s2):
                    if ctl[0] in ("next", "continue"):
                        if kind == "for": s3.frames[-1].env[idx_name] = Sym(INT, s3.frames[-1].env[idx_name].z + 1)
                        self.check_frame(name, snapshot, s3, spec)
                        for u in spec.unfolds: s3.pc.extend(u(self, s3))
                        for k, inv in enumerate(spec.invariants):
                            self.obligations.append(Obligation("%s/inv%d/preserve" % (name, k), s3.pc, self.spec(inv, s3).z, "inv-preserve", {"env": dict(s3.frames[-1].env), "heap": s3.heap}))
                        if spec.decreases is not None:
                            before = self.spec(spec.decreases, snapshot["state"]).z; after = self.spec(spec.decreases, s3).z
                            self.obligations.append(Obligation("%s/decreases" % name, s3.pc, z3.And(after < before, before >= 0), "termination"))
                        # path ends here (cut)
                    elif ctl[0] == "break": yield s3, ("next",)
                    else: yield s3, ctl

    def snapshot(self, st):
        return {"env": dict(st.frames[-1].env), "heap": {k: dict(v) for k, v in st.heap.items()}, "state": st.copy_deep()}

    def check_frame(self, name, snap, st, spec):
        env = st.frames[-1].env
        for k, v in env.items():
            if k.startswith("_") and k[1:2] in ("i", "s"): continue
            if k in spec.havoc or k in spec.locals_ok or any(h.startswith(k + "[") for h in spec.havoc): continue
            if k not in snap["env"]:
                continue        # new local defined in body: dead after iteration unless used later (then Unsupported name)
            if snap["env"][k] is not v and not same_value(snap["env"][k], v):
                if isinstance(v, (UFL, UFDict)) and any(x is v and any(h.endswith("." + a) for h in spec.havoc) for obj in st.heap.values() for a, x in obj.items()):
                    continue      # an alias of an attribute the loop contract does list
                if os.environ.get("VF_DEBUG"): print("DEBUG frame:", k, type(snap["env"][k]).__name__, type(v).__name__, [(a, type(x).__name__, x is v) for obj in st.heap.values() for a, x in obj.items() if a == k])
                raise Unsupported("loop %s modifies %s which is not in havoc set" % (name, k))
        for oid, obj in st.heap.items():
            old = snap["heap"].get(oid)
            if old is None: continue
            for a, v in obj.items():
                if a in old and old[a] is not v and not same_value(old[a], v):
                    if not any(h.endswith("." + a) for h in spec.havoc):
                        raise Unsupported("loop %s modifies heap field %s of %s not in havoc set" % (name, a, oid))

    def as_ufl(self, st, it):
        if isinstance(it, UFL): return it
        if isinstance(it, EnumerateOf): return it
        if isinstance(it, Sym) and it.ty.kind == "str":      # iterating a string yields its 1-character substrings
            return UFL(STR, (lambda i, z=it.z: z3.SubString(z, i, 1)), z3.Length(it.z))
        if isinstance(it, Sym) and it.ty.kind == "seqlist":
            return UFL(it.ty.args[0], (lambda i, z=it.z: z[i]), z3.Length(it.z))
        if isinstance(it, (list, tuple)):
            items = list(it)
            if items and all(isinstance(lift_try(x), Sym) for x in items) and len({lift_try(x).ty for x in items}) == 1:
                ty = lift_try(items[0]).ty; zs = [lift_try(x).z for x in items]
                def at(i, zs=zs):
                    r = zs[-1]
                    for k in reversed(range(len(zs) - 1)): r = z3.If(i == k, zs[k], r)
                    return r
                return UFL(ty, at, z3.IntVal(len(zs)))
        raise Unsupported("iterate %r" % (it,))

    # ------------------------------------------------------------ spec mode
    def spec(self, expr, st, extra=None):
        """evaluate a spec expression (str or callable) to Sym(BOOL)/value without forking"""
        if callable(expr): return lift(expr(self, st))
        from . import specmode
        return lift(specmode.SpecEval(self, st, extra or {}).ev(ast.parse(expr, mode="eval").body))
    def spec_value(self, expr, st, extra=None):
        from . import specmode
        return specmode.SpecEval(self, st, extra or {}).ev(ast.parse(expr, mode="eval").body)

def lift_maybe(v): return v
def lift_try(v):
    try: return lift(v)
    except TypeError: return None
def same_value(a, b):
    if isinstance(a, Sym) and isinstance(b, Sym): return a.z.eq(b.z)
    if isinstance(a, UFL) and isinstance(b, UFL): return a is b
    try: return a == b
    except Exception: return False

class BoundModel:
    def __init__(self, model, recv): self.model = model; self.recv = recv
class Opaque:
    """value only used to build messages; any use yields Opaque / a fresh string"""
    pass
class UFMap:
    """total abstract map key -> value (KeyError not modelled: keys assumed present)"""
    def __init__(self, key_ty, val_ty, fn, values=None): self.key_ty = key_ty; self.val_ty = val_ty; self.fn = fn; self.values = values
class TypeOf:
    def __init__(self, v): self.v = v
class Closure(FuncRef):
    def __init__(self, mod, cls, node, def_depth):
        super().__init__(mod, cls, node, None); self.def_depth = def_depth
    @property
    def qualname(self): return self.mod.name + ".<closure>." + self.node.name
class RepeatList:
    """[item] * count with a symbolic count"""
    def __init__(self, item, count): self.item = item; self.count = count
class FallibleIter:
    """abstract iterator over `seq` that raises (via raise_fn(ex, st) -> (st, Raise)*) instead of delivering element fail_at"""
    def __init__(self, seq, fail_at, raise_fn): self.seq = seq; self.fail_at = fail_at; self.raise_fn = raise_fn
class EnumerateOf:
    def __init__(self, ufl, start): self.ufl = ufl; self.start = start; self.length = ufl.length; self.elem_ty = None
    def elem(self, i): return (Sym(INT, i + lift(self.start).z), Sym(self.ufl.elem_ty, self.ufl.at(i)))
    def at(self, i): raise Unsupported

import itertools
core_fresh = itertools.count()

def State_copy_deep(self):
    s = self.copy(); s.frames = [Frame(f.mod, f.cls, dict(f.env)) for f in self.frames]; return s
_old_copy = State.copy
def _copy_with_frames(self):
    s = _old_copy(self)
    memo = {}
    def cp(v):
        if isinstance(v, list):
            if id(v) not in memo: memo[id(v)] = [cp(x) for x in v]
            return memo[id(v)]
        return v
    s.frames = [Frame(f.mod, f.cls, {k: cp(v) for k, v in f.env.items()}, f.parent_depth) for f in getattr(self, "frames", [])]
    s.ghost = {k: cp(v) for k, v in s.ghost.items()}
    return s
State.copy = _copy_with_frames
State.copy_deep = _copy_with_frames

def index_loops(fn_node):
    idx = {}; n = 0
    for x in ast.walk(fn_node):
        pass
    # source order
    loops = [x for x in ast.walk(fn_node) if isinstance(x, (ast.While, ast.For))]
    loops.sort(key=lambda x: (x.lineno, x.col_offset))
    return {id(x): i for i, x in enumerate(loops)}
