"""Driver: contracts, loop specs, verification of one function of the real source."""
import ast, os, time, z3
from . import solve as _solve
from .core import *
from .symexec import Exec, Frame, Raise, Obligation, Unsupported, index_loops, FuncRef
from . import source as S


class BindingError(Exception):
    """The contract cannot be bound to the current source (function gone, loop count changed, local renamed...)."""


class LoopSpec:
    def __init__(self, invariants, havoc, decreases=None, unfolds=(), ghost_havoc=None, locals_ok=(), elem_wrap=None, match=None):
        self.match = match        # source text of the loop's iterable / condition: binds the spec to that loop wherever it stands (None: by position)
        self.invariants = list(invariants); self.havoc = dict(havoc); self.decreases = decreases
        self.unfolds = list(unfolds); self.ghost_havoc = ghost_havoc or {}; self.locals_ok = set(locals_ok); self.elem_wrap = elem_wrap
        self.unroll = None


def Unroll(n):
    ls = LoopSpec([], {}); ls.unroll = n; return ls


class Clause:
    """A postcondition clause: spec expression (str or callable), optional name, the properties it serves,
    and an optional `unless` predicate (known-finding exclusion: the clause is demanded only where it is false)."""
    def __init__(self, expr, name=None, props=None, unless=None, finding=None):
        self.expr = expr; self.name = name; self.props = props; self.unless = unless; self.finding = finding


def as_clause(c):
    return c if isinstance(c, Clause) else Clause(c)


class Contract:
    """Declarative contract of a function under verification.

    setup(ex, st)  builds the symbolic pre-state (heap shape, parameters, ghost state) and may register hooks
    requires       spec expressions assumed on entry
    returns        clauses that must hold on every normal return ('result' bound)
    raises         {exception class name: [clauses]} -- any other escaping exception is a failed `raises-only` obligation
    loops          {ordinal: LoopSpec}
    expect         outcomes that must be reachable (cover obligations against vacuity), e.g. ["return", "DataError"]
    """
    def __init__(self, qualname, setup, requires=(), returns=(), raises=None, loops=None, expect=None, n_loops=None,
                 raises_only_props=None, raises_unless=None, modifies=None):
        self.qualname = qualname; self.setup = setup; self.requires = list(requires)
        self.returns = [as_clause(c) for c in returns]
        self.raises = {k: [as_clause(c) for c in v] for k, v in (raises or {}).items()}
        self.loops = loops or {}
        self.expect = expect
        self.n_loops = n_loops
        self.raises_only_props = raises_only_props
        self.raises_unless = raises_unless or {}      # exc class name -> (spec expr under which the escape is a known finding, finding id)
        self.modifies = modifies        # None: no frame obligations; else list of 'Class.field' names that may change
        self.use_at_calls = False


def absfun_factory(ex):
    cache = {}
    def absfun_s(name, doms, rng):
        key = (name, tuple(str(d) for d in doms), str(rng))
        if key not in cache: cache[key] = z3.Function(name, *doms, rng)
        return cache[key]
    def absfun(name, ty, rty):
        return absfun_s(name, [sort_of(ty)], sort_of(rty))
    ex.absfun_s = absfun_s; ex.absfun = absfun


def _exc_desc(s, exc):
    a = s.heap.get(exc.oid, {})
    for k in ("args", "_message"):
        if k in a:
            v = a[k]
            try:
                return str(v)[:200]
            except Exception:
                pass
    return ""


def verify(contract, callee_contracts=None, spec_functions=None, options=None):
    """Symbolically execute the real function and return a report dict:
    function, source(sha, first line, last line), file, obligations [Obligation], paths, outcomes, symexec_s, inlined"""
    options = options or {}
    try:
        mod, cls, fn = S.get_function(contract.qualname)
    except KeyError as e:
        raise BindingError("function %s not found in source (%s)" % (contract.qualname, e))
    if fn is None:
        raise BindingError("function %s not found in source" % contract.qualname)
    ex = Exec(contracts=dict(callee_contracts or {}))
    absfun_factory(ex)
    ex.spec_functions = spec_functions or {}
    ex.current_fn = contract.qualname
    fd = S.foreign_decorators(fn)
    if fd: raise BindingError("%s is wrapped by the decorator %s: what runs is the wrapper, not the body the obligations would be generated from" % (contract.qualname, ", ".join(fd)))
    ex._loop_index = index_loops(fn)
    n_loops = len(ex._loop_index)
    if contract.n_loops is not None and n_loops != contract.n_loops and not any(getattr(ls, "match", None) for ls in contract.loops.values()):
        raise BindingError("%s has %d loops, the contract was written for %d" % (contract.qualname, n_loops, contract.n_loops))
    for k in contract.loops:
        if k >= n_loops and not getattr(contract.loops[k], "match", None):
            raise BindingError("%s: loop %d named by the contract does not exist" % (contract.qualname, k))
    for k, ls in contract.loops.items(): ex.loop_specs[(contract.qualname, k)] = ls
    # a local the loop contract names (to give it a fresh value per iteration) has to be a local of the current source: after a rename the
    # contract's models would read a variable the code never writes, and what they then "refute" says nothing about the code
    bound = {n.id for n in ast.walk(fn) if isinstance(n, ast.Name) and isinstance(n.ctx, ast.Store)} | {a.arg for a in ast.walk(fn) if isinstance(a, ast.arg)} \
            | {h.name for h in ast.walk(fn) if isinstance(h, ast.ExceptHandler) and h.name}
    ex._assigned_names = bound
    st = State(); st.frames = [Frame(mod, cls, {})]
    contract.setup(ex, st)                   # binds params in st.frames[-1].env, builds heap
    # parameters the setup leaves unbound take the default written in the current source (so that a changed default is seen)
    a = fn.args; names = [x.arg for x in a.args]
    for i, nme in enumerate(names):
        di = i - (len(names) - len(a.defaults))
        if nme not in st.frames[-1].env and di >= 0:
            st.frames[-1].env[nme] = ex.const_eval(mod, a.defaults[di])
    stmts = {ast.unparse(n) for n in ast.walk(fn) if isinstance(n, ast.stmt) and not isinstance(n, (ast.If, ast.For, ast.While, ast.Try, ast.FunctionDef))}
    for text in list(ex.stmt_hooks) + list(ex.stmt_hooks_before):
        if text not in stmts and text not in getattr(ex, "hooks_optional", ()):
            raise BindingError("%s: ghost code is attached to the statement %r, which the current source does not contain" % (contract.qualname, text))
    for r in contract.requires: st.pc.append(ex.spec(r, st).z)
    report = {"function": contract.qualname, "source": S.source_hash(mod, fn), "file": mod.path, "obligations": [], "paths": 0}
    # vacuity: requires satisfiable
    ob = Obligation("%s/requires-satisfiable" % contract.qualname, st.pc, z3.BoolVal(False), "vacuity")
    report["obligations"].append(ob)
    old = st.copy()
    t0 = time.time()
    outcomes = {}
    cover = {}
    def spec_clause(clause, s, extra):
        g = ex.spec(clause.expr, s, extra).z
        if clause.unless is not None:
            g = z3.Or(g, ex.spec(clause.unless, s, extra).z)
        return g
    try:
        for s, ctl in ex.exec_block(fn.body, st):
            report["paths"] += 1
            extra = {"__old__": old}
            if contract.modifies is not None:
                _frame_obligations(ex, contract, old, s, ctl)
            if ctl[0] in ("return", "next"):
                outcomes["return"] = outcomes.get("return", 0) + 1
                cover.setdefault("return", []).append(list(s.pc))
                extra["result"] = ctl[1] if ctl[0] == "return" else None
                s.ghost["__result__"] = extra["result"]
                for k, post in enumerate(contract.returns):
                    nm = post.name or "post%d" % k
                    ex.obligations.append(Obligation("%s/return/%s" % (contract.qualname, nm), s.pc, spec_clause(post, s, extra), "post", {"path": report["paths"], "finding": post.finding}, props=post.props))
            elif ctl[0] == "raise":
                exc = ctl[1]; outcomes[exc.cls] = outcomes.get(exc.cls, 0) + 1
                cover.setdefault(exc.cls, []).append(list(s.pc))
                extra["exc"] = exc; s.ghost["__exc__"] = exc
                matched = [c for c in contract.raises if S.is_subclass(exc.cls, c)]
                if not matched:
                    goal = z3.BoolVal(False); finding = None
                    for cname, (pred, fid) in contract.raises_unless.items():
                        if S.is_subclass(exc.cls, cname):
                            goal = ex.spec(pred, s, extra).z if pred is not None else z3.BoolVal(True); finding = fid
                    ex.obligations.append(Obligation("%s/raises-only/%s" % (contract.qualname, exc.cls), s.pc, goal, "raises",
                                                     {"exc": exc.cls, "args": _exc_desc(s, exc), "finding": finding}, props=contract.raises_only_props))
                for c in matched:
                    for k, post in enumerate(contract.raises[c]):
                        nm = post.name or "post%d" % k
                        ex.obligations.append(Obligation("%s/raise %s/%s" % (contract.qualname, c, nm), s.pc, spec_clause(post, s, extra), "post", {"finding": post.finding}, props=post.props))
            else:
                raise Unsupported("function ended with %r" % (ctl,))
    except KeyError as e:
        raise BindingError("%s: name %s used by the contract or its hooks is not bound in the current source" % (contract.qualname, e))
    report["symexec_s"] = time.time() - t0
    report["obligations"].extend(ex.obligations)
    # cover obligations: every expected outcome has a feasible path (guards against a contradictory precondition / dead contract)
    for want in (contract.expect or []):
        pcs = cover.get(want, [])
        if want != "return":
            pcs = [pc for k, v in cover.items() if k != "return" and S.is_subclass(k, want) for pc in v]
        ob = Obligation("%s/cover/%s" % (contract.qualname, want), [], z3.BoolVal(False), "cover")
        ob.cover_pcs = pcs
        report["obligations"].append(ob)
    report["outcomes"] = outcomes
    report["inlined"] = sorted(ex.inlined)
    report["hooks_fired"] = dict(ex.hooks_fired)
    return report


def _frame_obligations(ex, contract, old, s, ctl):
    from .symexec import same_value
    from . import source as S2
    for oid, fields in old.heap.items():
        new = s.heap.get(oid)
        if new is None: continue
        cls = Ref.classes.get(oid, "obj")
        for f, v0 in fields.items():
            v1 = new.get(f, None)
            if v1 is v0 or same_value(v0, v1): continue
            tag = "%s.%s" % (cls, f)
            if tag in contract.modifies or ("*.%s" % f) in contract.modifies: continue
            if isinstance(v0, Sym) and isinstance(v1, Sym) and v0.ty == v1.ty:
                goal = v0.z == v1.z
            elif not isinstance(v0, (Sym, UFL)) and isinstance(v1, Sym) and isinstance(v0, (int, str, bool)):
                goal = lift(v0).z == v1.z
            else:
                goal = z3.BoolVal(False)
            ex.obligations.append(Obligation("%s/frame/%s-unchanged" % (contract.qualname, tag), s.pc, goal, "frame", {"outcome": ctl[0]}))


def discharge_all(report, both=False, rlimit=None):
    for ob in report["obligations"]:
        if ob.kind == "vacuity":
            r = ob.discharge(rlimit, use_cvc5=False)
            # requires must be satisfiable: "refuted" (False not provable => pc satisfiable) is the good outcome
            ob.result = "proved" if r == "refuted" else ("VACUOUS" if r == "proved" else "unknown")
            ob.model = None
        elif ob.kind == "cover":
            ok = False; unk = False
            for pc in ob.cover_pcs:
                o2 = Obligation(ob.name, pc, z3.BoolVal(False), "cover")
                r = o2.discharge(rlimit, use_cvc5=False); ob.time += o2.time
                if r == "refuted": ok = True; break
                if r == "unknown":
                    # quantified path condition: the solver cannot exhibit a model; fall back to the quantifier-free part (weaker reachability guard)
                    from .core import _has_quant
                    o3 = Obligation(ob.name, [c for c in pc if not _has_quant(c)], z3.BoolVal(False), "cover")
                    r3 = o3.discharge(rlimit, use_cvc5=False); ob.time += o3.time
                    if r3 == "refuted": ok = True; ob.info = {"note": "reachability shown on the quantifier-free part of the path condition only"}; break
                    if r3 == "unknown" and os.path.exists(_solve.CVC5):
                        # z3's string solver gives up on some satisfiable path conditions (nested str.replace_all); cvc5 deciding `sat` on the
                        # quantifier-free part is a model of it, i.e. the outcome is reachable
                        sv = z3.Solver(); [sv.add(c) for c in o3.pc]
                        t0 = time.time(); r4 = _solve.cvc5_check(sv); ob.time += time.time() - t0
                        if r4 == "sat": ok = True; ob.backend = "cvc5"; ob.info = {"note": "reachability shown by cvc5 on the quantifier-free part of the path condition"}; break
                    unk = True
            ob.result = "proved" if ok else ("unknown" if unk else "UNREACHABLE")
        else:
            ob.discharge(rlimit, both=both)
    return report


def print_report(rep):
    obs = rep["obligations"]
    print("== %s  src=%s  paths=%d outcomes=%s symexec=%.2fs solver=%.2fs" % (rep["function"], rep["source"], rep["paths"], rep["outcomes"], rep["symexec_s"], sum(o.time for o in obs)))
    for o in obs:
        flag = {"proved": "ok ", "refuted": "FAIL", "unknown": "??? ", "VACUOUS": "VAC ", "UNREACHABLE": "DEAD"}.get(o.result, "?")
        print("   [%s] %-70s %.3fs %s" % (flag, o.name, o.time, o.info if o.result != "proved" else ""))
        if o.result == "refuted" and o.model is not None:
            m = o.model; print("         model:", ", ".join("%s=%s" % (d.name(), m[d]) for d in m.decls())[:600])
