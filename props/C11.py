"""C11 Data-format properties mean what the CID says; contradictions are refused."""
from contracts import data as D

PROPERTY = "C11"
TITLE = "Data-format properties mean what the CID says; contradictions are refused"
LEVEL = "other"
TRUSTED_BASE = []
ASSUMPTIONS = []
EXPLANATION = "Deductive proof of defaults/applicability (DataFormat.__init__), of set_property per (format, property) with frame, of the validators and of validate()'s consistency rules; the character spellings that go through tokenize / unicode_escape are bounded stand-ins."
LEVEL_TEXT = "Proof obligations for defaults, applicability, value sets, stored values, frame and consistency rules; bounded sweep for the spelling of characters (tokenizer, unicode_escape)."
LEVEL_NOTE = "Trusts the pyvc encoding, z3/cvc5, A-INT/A-STR (int(), str.lower uninterpreted), codecs.lookup (runtime registry)."
TECHNIQUE = "contract-based deductive verification (VCs from the ast of the real functions, z3/cvc5) + bounded spelling sweep"
UNITS = [D.unit_dataformat_init(), D.unit_set_property(), D.unit_validate(), D.unit_validated_character(), D.unit_character_spellings()]
from contracts import ranges as R
UNITS += [R.unit_code_for_string_token()]
from contracts import interface as IF
UNITS += [IF.unit_add_data_format_row().also("C11")]
from props import _groups as _G
UNITS = _G.with_groups(PROPERTY, UNITS, _G.CID)
from contracts import fieldtypes as FT
UNITS += [FT.unit_decimal_separators(), FT.unit_decimal_validated_value().also("C11")]
