"""C08 Validation outcomes do not depend on what the CID was used for before."""
from contracts import validio as VIO, checks as CK, history as H, applications as APP

PROPERTY = "C08"
TITLE = "Validation outcomes do not depend on what the CID was used for before"
LEVEL = "proof"
TRUSTED_BASE = []
ASSUMPTIONS = ["the only mutable state a CID carries between runs is the state of its checks (structural scan of attribute stores in checks.py; plug-in checks must keep their state behind reset())"]
EXPLANATION = ""
LEVEL_TEXT = "History property reduced to a state invariant: every run starts with all checks reset, whatever the pre-state (Reader.rows and Writer.__init__ proved for an arbitrary pre-state; reset() proved to establish the initial state); close() is always reached through the with-statements; plus a bounded exploration of operation histories."
LEVEL_NOTE = "Trusts the pyvc encoding, z3/cvc5; user-defined checks are assumed to honour reset()."
TECHNIQUE = "contract-based deductive verification with ghost protocol state (VCs from the ast of the real functions, z3/cvc5) + bounded history exploration"
UNITS = [VIO.unit_reader_rows(), VIO.unit_writer_init(), CK.unit_check_resets(), VIO.unit_close(), VIO.unit_module_rows_validate(), CK.unit_is_unique_check_row(), H.unit_history_sweep()]
from contracts import structure as ST
UNITS += [ST.unit_no_hidden_state()]
UNITS += [APP.unit_app_validate().also("C08"), APP.unit_set_cid_from_path()]
UNITS += [VIO.unit_reset_checks()]
from props import _groups as _G
UNITS = _G.with_groups(PROPERTY, UNITS, _G.READERS, _G.VALIDATION, _G.CHECKS, _G.WRITERS)
