"""C10 CID and data problems surface as cutplace errors, never as internal failures."""
from contracts import (hostile as H, ranges as R, ranges_init as RI, ranges_dinit as RD, fields as F, fieldtypes as FT, data as D, interface as IF, validio as VIO, checks as CK,
                       rowio_fixed as FX, rowio_delim as RDL, rowio_ods as OD, rowio_excel as XL, rowio_writers as RW, applications as APP, storage as STO)

PROPERTY = "C10"
TITLE = "CID and data problems surface as cutplace errors, never as internal failures"
LEVEL = "other"
TRUSTED_BASE = ["raise-sets of tokenize, int, decimal, re, time.strptime, csv, zipfile, ElementTree, xlrd, codecs (axioms; audited by hostile pools and fault injection)"]
ASSUMPTIONS = []
EXPLANATION = "C10 is a raises clause. Every function under contract carries a raises-only obligation (an escaping AssertionError, TypeError, KeyError ... on any path is a failed obligation with a path condition); callee raise-sets are used modularly and dependency raise-sets are audited axioms. Functions not yet under contract are covered only by the bounded hostile-pool replays, which is why the level is 'other'."
LEVEL_TEXT = "Raises-only obligations discharged deductively for every function under contract; bounded hostile-pool and container-corruption replays end to end."
LEVEL_NOTE = "Trusts the dependency raise-sets (audited), the pyvc encoding, z3/cvc5; functions outside the contract set are covered by the bounded replays only."
TECHNIQUE = "contract-based deductive verification: raises-only obligation per function (VCs from the ast of the real functions, z3/cvc5) + bounded hostile replays"
UNITS = ([H.unit_hostile_cid(), H.unit_hostile_data(), R.unit_range_validate(), R.unit_decimal_range_validate(), F.unit_validated(), F.unit_validate_characters(), F.unit_validate_length(),
          FT.unit_integer_validated_value(), FT.unit_decimal_validated_value(), FT.unit_choice_constant_text(), FT.unit_datetime_regex_pattern(),
          D.unit_dataformat_init(), D.unit_set_property(), D.unit_validate(), IF.unit_cid_read(), IF.unit_validated_field_name(), IF.unit_add_data_format_row(), IF.unit_create_class_and_check_row(), IF.unit_field_names_and_lengths(),
          VIO.unit_validate_row(), VIO.unit_reader_rows(), VIO.unit_close(), VIO.unit_writer_init(), VIO.unit_writer_write_row(), CK.unit_is_unique_check_row(), CK.unit_distinct_count(),
          FX.unit_fixed_rows(), RDL.unit_delimited_rows(), OD.unit_ods_rows(), XL.unit_excel_cell_value(), XL.unit_excel_rows(), RW.unit_fixed_row_writer_write_row(), RW.unit_delimited_row_writer_write_row(),
          APP.unit_main(), APP.unit_app_validate(), STO.unit_attribute_existence()] + RI.units_range_init()[:6])
# functions put under contract in the second half of the build phase: their raises-only obligations belong to C10
from contracts import tools as TL, sql as SQ
UNITS += [TL.unit_tokenize_without_space(), TL.unit_generated_tokens(), TL.unit_token_text(), TL.unit_validated_python_name(), R.unit_code_for_string_token(),
          FT.unit_choice_init(), FT.unit_constant_init(), FT.unit_integer_init(), FT.unit_datetime_init(), FT.unit_decimal_init(), FT.unit_text_init(),
          CK.unit_is_unique_init(), CK.unit_distinct_count_init(), F.unit_field_name_index(), F.unit_set_example(), D.unit_validated_character(),
          IF.unit_add_check_row(), IF.unit_add_check(), IF.unit_add_field_format_row(), IF.unit_add_field_format(), IF.unit_cid_init(), IF.unit_field_names_and_lengths(),
          VIO.unit_reader_init(), VIO.unit_validate_rows(), VIO.unit_writer_write_rows(), VIO.unit_writer_close(), VIO.unit_raw_rows(), VIO.unit_padded_fixed_row(), VIO.unit_module_rows_validate(),
          RW.unit_fixed_row_writer_init(), RW.unit_delimited_row_writer_init(), RW.unit_row_writer_close(), RW.unit_row_writer_write_rows(), RW.unit_xlsx_row_writer_write_row(), RW.unit_xlsx_row_writer_write_rows(),
          APP.unit_set_options(), APP.unit_process(), APP.unit_set_cid_from_path(), APP.unit_app_init(), SQ.unit_assert_is_valid_ansi_type(), SQ.unit_other_sql_ansi_types(), SQ.unit_integer_sql_ansi_type()]
UNITS += [TL.unit_compat_csv()]
_seen = set(); UNITS = [u for u in UNITS if not (u.uid in _seen or _seen.add(u.uid))]
UNITS += [OD.unit_ods_audit()]
