"""C01 Range descriptions accept exactly the values they describe."""
from contracts import ranges as R

PROPERTY = "C01"
TITLE = "Range descriptions accept exactly the values they describe"
LEVEL = "proof"
TRUSTED_BASE = []
ASSUMPTIONS = []
EXPLANATION = ""
UNITS = [R.unit_range_validate()]
LEVEL_TEXT = "Deductive proof of the real Range.validate against the statement's acceptance clause (loop invariant, termination, frame); more functions follow."
LEVEL_NOTE = "Trusts: the pyvc encoding of the Python subset (audited by the native oracle cross-check on every run), z3/cvc5."
TECHNIQUE = "contract-based deductive verification: VCs generated from the ast of the real functions, discharged by z3/cvc5"
from contracts import ranges_init as RI
UNITS += RI.units_range_init()
from contracts import tokens as TOK
UNITS += [TOK.unit_sweep_range_text(), TOK.unit_sweep_decimal_text(), TOK.unit_audit_tok()]
UNITS += [R.unit_decimal_range_validate()]
from contracts import ranges_dinit as RD
UNITS += RD.units_decimal_range_init()
from contracts import tools as TL
UNITS += [TL.unit_tokenize_without_space(), TL.unit_generated_tokens(), TL.unit_token_text()]
UNITS += [R.unit_code_for_string_token()]
