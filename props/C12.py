"""C12 Delimited data round-trips through write and read for every accepted format."""
from contracts import data as D, rowio_delim as RD

PROPERTY = "C12"
TITLE = "Delimited data round-trips through write and read for every accepted format"
LEVEL = "other"
TRUSTED_BASE = ["_csv (C implementation of csv.reader / csv.writer): axiom A-CSV, audited by a bounded round-trip sweep"]
ASSUMPTIONS = []
EXPLANATION = "The quoting logic lives in the C module _csv. Proved: which dialect cutplace asks for (one function, same object for reader and writer) and that every format DataFormat.validate() lets through satisfies the precondition of the round-trip axiom A-CSV. The axiom itself is audited over all accepted configurations (bounded)."
LEVEL_TEXT = "Deductive proof of the gating obligation and of the dialect construction; bounded audit of the csv round-trip axiom over all accepted configurations."
LEVEL_NOTE = "Trusts _csv through axiom A-CSV (bounded audit), the pyvc encoding, z3/cvc5."
TECHNIQUE = "contract-based deductive verification of the real functions (VCs via z3/cvc5) + bounded audit of the dependency axiom"
UNITS = [D.unit_validate(), RD.unit_as_delimited_keywords(), RD.unit_delimited_rows(), RD.unit_audit_csv()]
from contracts import rowio_writers as RW
UNITS += [RW.unit_delimited_row_writer_write_row(), RW.unit_delimited_row_writer_init(), RW.unit_row_writer_close(), RW.unit_row_writer_write_rows()]
from contracts import validio as VIO
UNITS += [VIO.unit_writer_file_sweep()]
UNITS += [D.unit_set_property().also("C12"), D.unit_dataformat_init().also("C12"), VIO.unit_raw_rows()]
from contracts import tools as TL
UNITS += [TL.unit_compat_csv()]
