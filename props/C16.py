"""C16 Excel cells render as documented text and the requested sheet is read."""
from contracts import rowio_excel as XL, rowio_writers as RW

PROPERTY = "C16"
TITLE = "Excel cells render as documented text and the requested sheet is read"
LEVEL = "other"
TRUSTED_BASE = ["xlrd (cell types, values, xldate_as_tuple, sheet_by_index), str(float)/str(datetime): axioms A-XLRD, A-FLT, audited by a workbook table"]
ASSUMPTIONS = []
EXPLANATION = "Proved: the branch structure of _excel_cell_value per cell type against the documented renderings (as uninterpreted functions of the xlrd values), that excel_rows reads the requested sheet, returns every row with one cell per column and converts workbook faults. The renderings themselves (shortest float text, date/time layouts) live in xlrd / CPython and are audited by a bounded workbook table written with xlsxwriter."
LEVEL_TEXT = "Deductive proof of cutplace's share (branching, slicing, sheet selection, row shape, fault conversion); bounded workbook audit for the dependency axioms."
LEVEL_NOTE = "Trusts xlrd / xlsxwriter / CPython float and datetime rendering through audited axioms, the pyvc encoding, z3/cvc5."
TECHNIQUE = "contract-based deductive verification (VCs from the ast of the real functions, z3/cvc5) + bounded workbook audit"
from contracts import validio as VIO
UNITS = [XL.unit_excel_cell_value(), XL.unit_excel_rows(), VIO.unit_raw_rows(), RW.unit_xlsx_row_writer_write_row(), RW.unit_xlsx_row_writer_write_rows(), RW.unit_xlsx_row_writer_close(), XL.unit_excel_workbooks()]
from contracts import storage as STO
UNITS += [STO.unit_auto_rows().also("C16")]
from contracts import data as D
UNITS += [D.unit_set_property().also("C16"), D.unit_dataformat_init().also("C16")]
