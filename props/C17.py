"""C17 The storage format of CID and data does not change the verdict."""
from contracts import storage as STO, fields as F, validio as VIO, interface as IF, data as D, rowio_ods as OD, rowio_excel as XL, rowio_delim as RDL

PROPERTY = "C17"
TITLE = "The storage format of CID and data does not change the verdict"
LEVEL = "other"
TRUSTED_BASE = ["csv, zipfile/ElementTree, xlrd deliver equal row lists for equal contents (axioms A-CSV, A-XML, A-XLRD; audited in C12/C15/C16)"]
ASSUMPTIONS = ["Cid.read's result is a function of the sequence of row lists (its contract mentions nothing else), so equal row lists give equal interfaces",
               "non-interference on the data side: the contract of AbstractFieldFormat.validated is proved once for every format other than 'fixed' (the format is a symbolic string), so delimited, ods and excel cannot differ there; the only format test left in the field types is DateTime's Excel suffix (recorded finding K-5)"]
EXPLANATION = "Proved: reader choice by suffix (auto_rows) and by data format (_raw_rows), Cid.read as a function of row lists, validated() independent of the non-fixed format, per-format attribute existence (structural). That the three readers deliver equal row lists for equal contents is the dependency axioms' business; the 3 x 3 combinations are swept bounded."
LEVEL_TEXT = "Deductive proof of cutplace's share (dispatch, non-interference by a format-symbolic proof, attribute existence); bounded 3 x 3 storage sweep; K-5 recorded."
LEVEL_NOTE = "Trusts the readers' dependency axioms (audited elsewhere), the pyvc encoding, z3/cvc5."
TECHNIQUE = "contract-based deductive verification (format-symbolic proof = self-composition for free) + structural scan + bounded storage sweep"
UNITS = [OD.unit_ods_rows().also("C17"), XL.unit_excel_rows().also("C17"), RDL.unit_delimited_rows().also("C17"), STO.unit_attribute_existence(), STO.unit_auto_rows(), VIO.unit_raw_rows(), F.unit_validated(), IF.unit_cid_read(), D.unit_dataformat_init(), STO.unit_storage_sweep()]
from contracts import fieldtypes as FT
UNITS += [FT.unit_decimal_init().also("C17"), FT.unit_integer_init().also("C17"), FT.unit_datetime_regex_pattern().also("C17"), IF.unit_cid_init()]
from contracts import fields as F2
UNITS += [F2.unit_validate_characters().also("C17"), FT.unit_datetime_init().also("C17")]
from props import _groups as _G
UNITS = _G.with_groups(PROPERTY, UNITS, _G.READERS, _G.VALIDATION, _G.CID, _G.FIELD_DECLS, _G.FIELD_VALUES)
UNITS += [OD.unit_ods_audit().also("C17")]
