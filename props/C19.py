"""C19 Generated SQL DDL mirrors the CID."""
from contracts import sql as SQ, ranges_dinit as RD, tokens as TOK

PROPERTY = "C19"
TITLE = "Generated SQL DDL mirrors the CID"
LEVEL = "proof"
TRUSTED_BASE = []
ASSUMPTIONS = []
EXPLANATION = ""
LEVEL_TEXT = "Deductive proof of the statement shape (loop invariant on the text), of sql_fields (one tuple per field, quoting, empty flag), of the integer magnitude and of each dialect's type ladder against capacities for all integers; decimal digits from DecimalRange.__init__'s running maxima."
LEVEL_NOTE = "Trusts the pyvc encoding, z3/cvc5; regions of recorded finding K-8 are excluded by explicit predicates (listed in the evidence) and replayed by witnesses."
TECHNIQUE = "contract-based deductive verification (VCs from the ast of the real functions, z3/cvc5) + bounded boundary table"
UNITS = [SQ.unit_integer_sql_ansi_type(), SQ.unit_other_sql_ansi_types(), SQ.unit_assert_is_valid_ansi_type(), SQ.unit_dialect_sql_type(), SQ.unit_sql_fields(), SQ.unit_is_keyword(), SQ.unit_create_table_statement(), SQ.unit_c19_table(), TOK.unit_sweep_decimal_text()] + RD.units_decimal_range_init()
from contracts import ranges_init as RI
UNITS += RI.units_range_init(shapes=[(1, 1, 1)], props=("C01", "C19"))
from contracts import structure as ST
UNITS += [ST.unit_no_hidden_state()]
from props import _groups as _G
UNITS = _G.with_groups(PROPERTY, UNITS, _G.FIELD_DECLS)
