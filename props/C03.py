"""C03 Empty, length and allowed-character guards hold for every field type."""
from contracts import fields as F, ranges as R, structure as ST

PROPERTY = "C03"
TITLE = "Empty, length and allowed-character guards hold for every field type"
LEVEL = "proof"
TRUSTED_BASE = []
ASSUMPTIONS = []
EXPLANATION = ""
LEVEL_TEXT = "Deductive proof of AbstractFieldFormat.validated and its guards against an abstract validated_value (all field types at once)."
LEVEL_NOTE = "Trusts the pyvc encoding (cross-checked natively each run), z3/cvc5, A-STR (str.strip axiom, audited)."
TECHNIQUE = "contract-based deductive verification: VCs generated from the ast of the real functions, discharged by z3/cvc5"
from contracts import fieldtypes as FT
UNITS = [FT.unit_text_init(), FT.unit_choice_init(), FT.unit_constant_init(), FT.unit_integer_init(), FT.unit_datetime_init(), FT.unit_decimal_init(), FT.unit_datetime_regex_pattern(), ST.unit_field_class_structure(), F.unit_validated(), F.unit_validate_characters(), F.unit_validate_empty(), F.unit_validate_length(), R.unit_range_validate()]
from props import _groups as _G
UNITS = _G.with_groups(PROPERTY, UNITS, _G.VALIDATION, _G.FIELD_DECLS)
UNITS += [F.unit_c03_independent_cids()]
from contracts import structure as ST2
UNITS += [ST2.unit_no_hidden_state().also("C03")]
