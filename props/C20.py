"""C20 User-defined field formats and checks are driven by the documented call protocol."""
from contracts import validio as VIO, fields as F, structure as ST, protocol as PR, interface as IF

PROPERTY = "C20"
TITLE = "User-defined field formats and checks are driven by the documented call protocol"
LEVEL = "proof"
TRUSTED_BASE = []
ASSUMPTIONS = []
EXPLANATION = ""
LEVEL_TEXT = "Ghost protocol automaton threaded through validated(), validate_row, Reader.rows and close(): every plug-in call carries a 'permitted now' obligation; postconditions fix the final automaton state."
LEVEL_NOTE = "Trusts the pyvc encoding (cross-checked by recording stubs natively), z3/cvc5; the class map is built under contract (Cid._create_name_to_class_map); which classes exist - the transitive __subclasses__() closure of Cid._all_subclasses and import_plugins - is reflection and stays a bounded stand-in (class trees up to four levels, plug-in folders in subprocesses)."
TECHNIQUE = "contract-based deductive verification with ghost protocol automata (VCs from the ast of the real functions, z3/cvc5)"
UNITS = [ST.unit_field_class_structure(), F.unit_validated(), VIO.unit_validate_row(), VIO.unit_reader_rows(), VIO.unit_close(), VIO.unit_module_rows_validate(), VIO.unit_writer_init(), VIO.unit_writer_write_row(), IF.unit_create_class_and_check_row(), IF.unit_add_check_row(), IF.unit_add_check(), IF.unit_add_field_format_row(), PR.unit_protocol_sweep()]
UNITS += [ST.unit_no_hidden_state(), IF.unit_cid_init(), IF.unit_create_name_to_class_map()]
from contracts import checks as CK
UNITS += [CK.unit_abstract_check_defaults()]
UNITS += [VIO.unit_reset_checks()]
from contracts import rowio_writers as RW
UNITS += [RW.unit_fixed_row_writer_write_row().also("C20"), RW.unit_delimited_row_writer_write_row().also("C20")]
from props import _groups as _G
UNITS = _G.with_groups(PROPERTY, UNITS, _G.READERS, _G.VALIDATION, _G.CHECKS, _G.WRITERS)
UNITS += [PR.unit_late_classes()]
UNITS += [VIO.unit_writer_sweep().also("C20")]
from contracts import history as HI
UNITS += [HI.unit_history_sweep().also("C20")]
