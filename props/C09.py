"""C09 CIDs are accepted iff structurally sound; rejections name the offending row."""
from contracts import interface as IF

PROPERTY = "C09"
TITLE = "CIDs are accepted iff structurally sound; rejections name the offending row"
LEVEL = "other"
TRUSTED_BASE = ["tokenize (axiom A-TOK), keyword.iskeyword"]
ASSUMPTIONS = []
EXPLANATION = "The 'iff' is decomposed into one obligation group per clause of the statement, each a postcondition on the function that implements it (row dispatch and row numbers in Cid.read, data-format rows, field names, check rows, class lookup); the string plumbing of add_field_format_row and the one-defect / rewrite catalogues are a bounded stand-in run end to end against Cid.read."
LEVEL_TEXT = "Deductive proof per clause of the statement where the function is within reach; bounded rewrite / one-defect sweep against Cid.read for the rest."
LEVEL_NOTE = "Trusts A-TOK, A-STR (lower/strip uninterpreted), the pyvc encoding, z3/cvc5."
TECHNIQUE = "contract-based deductive verification (VCs from the ast of the real functions, z3/cvc5) + bounded defect catalogue sweep"
from contracts import checks as CK
UNITS = [CK.unit_is_unique_init(), IF.unit_add_check_row(), IF.unit_add_check(), IF.unit_add_field_format_row(), IF.unit_cid_read(), IF.unit_validated_field_name(), IF.unit_add_data_format_row(), IF.unit_create_class_and_check_row(), IF.unit_c09_catalogue()]
from contracts import fields as FL
UNITS += [CK.unit_distinct_count_init(), CK.unit_audit_first_token(), CK.unit_audit_count_expression(), FL.unit_field_name_index()]
UNITS += [IF.unit_add_field_format()]
from contracts import tools as TL
UNITS += [TL.unit_validated_python_name(), TL.unit_generated_tokens()]
UNITS += [IF.unit_cid_init(), IF.unit_create_name_to_class_map()]
UNITS += [FL.unit_set_example()]
from contracts import ranges_init as RI, structure as ST
UNITS += RI.units_range_init(shapes=[(1, 1, 1)], props=("C01", "C09"))
UNITS += [ST.unit_no_hidden_state().also("C09")]
from props import _groups as _G
UNITS = _G.with_groups(PROPERTY, UNITS, _G.CID, _G.FIELD_DECLS)
from contracts import protocol as PR
UNITS += [PR.unit_late_classes()]
