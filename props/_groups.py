"""Groups of units by the part of cutplace they put under contract. A property lists the groups it depends on (call-graph reachability from
the entry points its statement is observed at); `with_groups` appends them to the property's own unit list, attributing every clause of the
added units to that property (Unit.also) and leaving out units that are already listed."""
from contracts import (ranges as R, ranges_init as RI, ranges_dinit as RD, tools as TL, fields as F, fieldtypes as FT, data as D, interface as IF, checks as CK, validio as VIO,
                       errors as ER, rowio_fixed as FX, rowio_delim as RDL, rowio_ods as OD, rowio_excel as XL, rowio_writers as RW, applications as APP, storage as STO, structure as ST)


def READERS():       # raw rows from the four containers and their dispatch
    return [RDL.unit_delimited_rows(), RDL.unit_as_delimited_keywords(), TL.unit_compat_csv(), FX.unit_fixed_rows(), OD.unit_ods_rows(), XL.unit_excel_rows(), XL.unit_excel_cell_value(), VIO.unit_raw_rows(), IF.unit_field_names_and_lengths()]

def VALIDATION():    # row / cell validation and the reader driving it
    return [VIO.unit_validate_row(), VIO.unit_reader_rows(), VIO.unit_reader_init(), VIO.unit_reset_checks(), VIO.unit_validate_rows(), VIO.unit_close(), VIO.unit_validator_exit(), VIO.unit_module_rows_validate(),
            F.unit_validated(), F.unit_validate_characters(), F.unit_validate_empty(), F.unit_validate_length(), R.unit_range_validate(), ER.unit_location_copy_and_str(), ST.unit_field_class_structure()]

def CHECKS():        # the two built-in checks at run time
    return [CK.unit_is_unique_check_row(), CK.unit_check_resets(), CK.unit_distinct_count()]

def FIELD_VALUES():  # validated_value of the built-in types
    return [FT.unit_integer_validated_value(), FT.unit_decimal_validated_value(), FT.unit_decimal_separators(), FT.unit_choice_constant_text(), FT.unit_datetime_regex_pattern(), R.unit_decimal_range_validate()]

def FIELD_DECLS():   # constructors of the built-in types and what they parse
    return [FT.unit_choice_init(), FT.unit_constant_init(), FT.unit_integer_init(), FT.unit_datetime_init(), FT.unit_decimal_init(), FT.unit_text_init(), F.unit_set_example(),
            TL.unit_tokenize_without_space(), TL.unit_generated_tokens(), TL.unit_token_text(), R.unit_code_for_string_token()] + RI.units_range_init(shapes=[(1, 1, 1)]) + RD.units_decimal_range_init()[:1]

def CID():           # reading an interface definition
    return [IF.unit_cid_read(), IF.unit_cid_init(), IF.unit_add_data_format_row(), IF.unit_add_field_format_row(), IF.unit_add_field_format(), IF.unit_add_check_row(), IF.unit_add_check(), IF.unit_create_class_and_check_row(),
            IF.unit_validated_field_name(), TL.unit_validated_python_name(), F.unit_field_name_index(), CK.unit_is_unique_init(), CK.unit_distinct_count_init(),
            D.unit_dataformat_init(), D.unit_set_property(), D.unit_validate(), D.unit_validated_character(), STO.unit_auto_rows(), ST.unit_no_hidden_state()]

def WRITERS():
    return [VIO.unit_writer_init(), VIO.unit_writer_write_row(), VIO.unit_writer_write_rows(), VIO.unit_writer_close(), VIO.unit_padded_fixed_row(), RW.unit_fixed_row_writer_write_row(), RW.unit_delimited_row_writer_write_row(),
            RW.unit_fixed_row_writer_init(), RW.unit_delimited_row_writer_init(), RW.unit_row_writer_close(), RW.unit_row_writer_write_rows(), TL.unit_compat_csv()]

def APPLICATION():
    return [APP.unit_app_init(), APP.unit_set_options(), APP.unit_set_cid_from_path(), APP.unit_app_validate(), APP.unit_process(), APP.unit_main()]


def with_groups(prop, units, *groups):
    seen = {u.uid for u in units}; out = list(units)
    for g in groups:
        for u in g():
            if u.uid in seen: continue
            seen.add(u.uid); out.append(u.also(prop))
    return out
