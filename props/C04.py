"""C04 A row is accepted iff all cells and row checks pass; errors name the culprit."""
from contracts import validio as VIO, errors as ER

PROPERTY = "C04"
TITLE = "A row is accepted iff all cells and row checks pass; errors name the culprit"
LEVEL = "proof"
TRUSTED_BASE = []
ASSUMPTIONS = []
EXPLANATION = ""
LEVEL_TEXT = "Deductive proof of validate_row (verdict, culprit column/field, location copy) against abstract field formats and checks."
LEVEL_NOTE = "Trusts the pyvc encoding (cross-checked natively each run), z3/cvc5; field/check behaviour is abstract (their own contracts are C02/C03/C05)."
TECHNIQUE = "contract-based deductive verification: VCs generated from the ast of the real functions, discharged by z3/cvc5"
UNITS = [VIO.unit_validate_row()]
UNITS += [VIO.unit_reader_rows(), ER.unit_location_copy_and_str()]
UNITS += [VIO.unit_raw_rows().also("C04"), VIO.unit_c04_sweep()]
from contracts import rowio_delim as RD, rowio_fixed as FX
UNITS += [RD.unit_delimited_rows().also("C04"), FX.unit_fixed_rows().also("C04")]
from contracts import checks as CK
UNITS += [CK.unit_is_unique_check_row().also("C04"), CK.unit_distinct_count().also("C04")]
from props import _groups as _G
UNITS = _G.with_groups(PROPERTY, UNITS, _G.READERS, _G.VALIDATION, _G.CHECKS)
