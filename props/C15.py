"""C15 ODS sheets are read as the logical table they contain."""
from contracts import rowio_ods as OD, validio as VIO

PROPERTY = "C15"
TITLE = "ODS sheets are read as the logical table they contain"
LEVEL = "other"
TRUSTED_BASE = ["zipfile, xml.etree.ElementTree (axiom A-XML, audited with an independent ODF encoder and fault injection)"]
ASSUMPTIONS = []
EXPLANATION = "Proved over an abstract XML tree: sheet selection, one row per table-row element, expansion of number-columns-repeated runs (loop invariant), validation of the repeat count, conversion of archive / XML faults. The cell-text and repeated-row clauses fail on the unchanged tree (recorded finding K-4): they are claimed only outside the recorded region and replayed by witnesses; an independent ODF encoder drives the bounded audit."
LEVEL_TEXT = "Deductive proof of cutplace's share over abstract ElementTree observers; bounded audit with an independent ODF encoder; known finding K-4 for rich cell text and repeated rows."
LEVEL_NOTE = "Trusts zipfile / ElementTree through audited axioms, the pyvc encoding, z3/cvc5."
TECHNIQUE = "contract-based deductive verification over an abstract XML datatype (VCs from the ast of the real generator, z3/cvc5) + bounded encoder-based audit"
UNITS = [OD.unit_ods_rows(), VIO.unit_raw_rows(), OD.unit_ods_audit()]
from contracts import storage as STO
UNITS += [STO.unit_auto_rows().also("C15")]
