"""C07 Header rows are skipped; the validation limit bounds validation, not data."""
from contracts import validio as VIO, applications as APP

PROPERTY = "C07"
TITLE = "Header rows are skipped; the validation limit bounds validation, not data"
LEVEL = "proof"
TRUSTED_BASE = ["argparse (exit code 2 for unusable arguments)"]
ASSUMPTIONS = []
EXPLANATION = ""
LEVEL_TEXT = "Deductive proof of Reader.rows' header/limit window for symbolic header, limit, rows and verdicts; of validate()'s islice use; of the --until mapping."
LEVEL_NOTE = "Trusts the pyvc encoding, z3/cvc5, argparse."
TECHNIQUE = "contract-based deductive verification (VCs from the ast of the real functions, z3/cvc5)"
UNITS = [VIO.unit_reader_rows(), VIO.unit_module_rows_validate(), APP.unit_set_options(), APP.unit_c07_sweep()]
UNITS += [VIO.unit_reader_init(), VIO.unit_validate_rows()]
UNITS += [VIO.unit_raw_rows().also("C07"), APP.unit_app_init()]
from contracts import rowio_delim as RD, rowio_fixed as FX
UNITS += [RD.unit_delimited_rows().also("C07"), FX.unit_fixed_rows().also("C07")]
from contracts import data as D
UNITS += [D.unit_validate().also("C07"), D.unit_dataformat_init().also("C07")]
from props import _groups as _G
UNITS = _G.with_groups(PROPERTY, UNITS, _G.READERS, _G.VALIDATION, _G.CHECKS)
