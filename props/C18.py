"""C18 The command line's exit code reflects the validation outcome."""
from contracts import applications as APP, validio as VIO, checks as CK

PROPERTY = "C18"
TITLE = "The command line's exit code reflects the validation outcome"
LEVEL = "proof"
TRUSTED_BASE = ["argparse (exit code 2 for unusable arguments)"]
ASSUMPTIONS = []
EXPLANATION = ""
LEVEL_TEXT = "Deductive proof of the exit-code mapping over abstract per-file outcomes: CutplaceApp.validate (sticky flag, OSError propagates), process (loop invariant over the data paths), main (exception mapping), set_options (--until)."
LEVEL_NOTE = "Trusts the pyvc encoding, z3/cvc5, argparse; that 'cannot be read' surfaces as OSError from the readers is a bounded table (known finding K-7 for ODS)."
TECHNIQUE = "contract-based deductive verification (VCs from the ast of the real functions, z3/cvc5) + bounded end-to-end exit-code table"
UNITS = [VIO.unit_reader_rows(), CK.unit_check_resets(), APP.unit_app_validate(), APP.unit_process(), APP.unit_main(), APP.unit_set_options(), APP.unit_set_cid_from_path(), APP.unit_app_init(), APP.unit_c18_table(), APP.unit_k7_witness()]
from contracts import rowio_excel as XL, rowio_ods as OD, rowio_delim as RD, rowio_fixed as FX
UNITS += [XL.unit_excel_rows().also("C18"), OD.unit_ods_rows().also("C18"), RD.unit_delimited_rows().also("C18"), FX.unit_fixed_rows().also("C18")]
from props import _groups as _G
UNITS = _G.with_groups(PROPERTY, UNITS, _G.APPLICATION, _G.READERS, _G.VALIDATION, _G.CHECKS, _G.CID)
