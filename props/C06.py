"""C06 Error-handling modes agree with each other and account for every row."""
from contracts import validio as VIO, rowio_fixed as FX, rowio_delim as RD, modes as M

PROPERTY = "C06"
TITLE = "Error-handling modes agree with each other and account for every row"
LEVEL = "proof"
TRUSTED_BASE = ["csv / file objects / zipfile / ElementTree / xlrd raise-sets (axioms A-CSV, A-ITER, A-XML, A-XLRD; audited by fault injection)"]
ASSUMPTIONS = ["modes-agree lemma: the accepted-row sequence outc() and the rejection predicate rejd() in the contract of Reader.rows do not mention the mode, so 'continue' = rows of 'yield' and 'raise' = longest error-free prefix + first error follow from the three per-mode postconditions of the same proof"]
EXPLANATION = ""
LEVEL_TEXT = "Reader.rows proved with the mode symbolic: output sequence, counters, first-error prefix, container faults propagate unchanged in every mode; readers proved to raise only DataFormatError for malformed containers given the dependency raise-sets; bounded cross-mode sweep on real CIDs."
LEVEL_NOTE = "Trusts the pyvc encoding, z3/cvc5 and the dependency raise-sets (audited)."
TECHNIQUE = "contract-based deductive verification (VCs from the ast of the real generator, z3/cvc5) + bounded cross-mode sweep with fault injection"
UNITS = [VIO.unit_reader_rows(), VIO.unit_validate_row(), VIO.unit_module_rows_validate(), FX.unit_fixed_rows(), RD.unit_delimited_rows(), M.unit_modes_sweep()]
UNITS += [VIO.unit_reader_init(), VIO.unit_validate_rows()]
UNITS += [RD.unit_as_delimited_keywords().also("C06")]
from contracts import rowio_ods as OD, rowio_excel as XL
UNITS += [VIO.unit_raw_rows().also("C06"), OD.unit_ods_rows().also("C06"), XL.unit_excel_rows().also("C06")]
from props import _groups as _G
UNITS = _G.with_groups(PROPERTY, UNITS, _G.READERS, _G.VALIDATION, _G.CHECKS)
UNITS += [OD.unit_ods_audit()]
from contracts import hostile as HO
UNITS += [HO.unit_hostile_data()]
