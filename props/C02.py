"""C02 Each field type accepts exactly the values its rule describes."""
from contracts import fieldtypes as FT, fields as F, ranges as R, structure as ST

PROPERTY = "C02"
TITLE = "Each field type accepts exactly the values its rule describes"
LEVEL = "other"
TRUSTED_BASE = ["int(), decimal.Decimal, time.strptime, re / fnmatch (axioms A-INT, A-DEC, A-STRP, A-RE; audited)"]
ASSUMPTIONS = []
EXPLANATION = "Proved per type: validated_value accepts iff the (abstract) dependency verdict and the verified range contract accept, and returns the native value; Decimal's separator translation loop against a spec function; RegEx/Pattern flags. What int / Decimal / strptime / re decide is in the dependencies (audited axioms); the length->range text and the date layout translation are bounded stand-ins (string rewriting outside the solver's reach)."
LEVEL_TEXT = "Deductive proof of cutplace's share per field type; bounded stand-ins for create_range_from_length and the DateTime layout translation; bounded audits for the dependency axioms."
LEVEL_NOTE = "Trusts the dependency axioms (audited), the pyvc encoding, z3/cvc5."
TECHNIQUE = "contract-based deductive verification (VCs from the ast of the real functions, z3/cvc5) + bounded stand-ins"
UNITS = [FT.unit_choice_init(), FT.unit_constant_init(), FT.unit_integer_init(), FT.unit_datetime_init(), FT.unit_decimal_init(), FT.unit_decimal_separators(), FT.unit_text_init(), FT.unit_length_range_sweep(), FT.unit_types_sweep(), FT.unit_integer_validated_value(), FT.unit_decimal_validated_value(), FT.unit_choice_constant_text(), FT.unit_datetime_regex_pattern(), ST.unit_field_class_structure(), F.unit_validated(), R.unit_range_validate(), R.unit_decimal_range_validate()]
from contracts import tools as TL
UNITS += [TL.unit_tokenize_without_space(), TL.unit_generated_tokens(), TL.unit_token_text()]
from props import _groups as _G
UNITS = _G.with_groups(PROPERTY, UNITS, _G.FIELD_VALUES, _G.FIELD_DECLS, _G.VALIDATION)
