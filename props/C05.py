"""C05 Uniqueness and distinct-count checks are decided over the whole data set."""
from contracts import checks as CK, validio as VIO

PROPERTY = "C05"
TITLE = "Uniqueness and distinct-count checks are decided over the whole data set"
LEVEL = "proof"
TRUSTED_BASE = []
ASSUMPTIONS = []
EXPLANATION = ""
LEVEL_TEXT = "Deductive proof of the per-call contracts of both checks over a symbolic dict (representation: exactly the keys registered since reset, first-occurrence locations), of reset(), and of the validator protocol that rows rejected by a field never reach a check."
LEVEL_NOTE = "Trusts the pyvc encoding (symbolic dict semantics), A-EVAL for the count expression (audited), z3/cvc5."
TECHNIQUE = "contract-based deductive verification (VCs from the ast of the real functions, z3/cvc5)"
UNITS = [CK.unit_c05_sweep(), CK.unit_k1_witness(), CK.unit_is_unique_check_row(), CK.unit_check_resets(), CK.unit_distinct_count(), VIO.unit_validate_row(), VIO.unit_reader_rows(), VIO.unit_close()]
from contracts import fields as FL
UNITS += [CK.unit_is_unique_init(), CK.unit_distinct_count_init(), CK.unit_audit_first_token(), CK.unit_audit_count_expression(), FL.unit_field_name_index()]
UNITS += [VIO.unit_raw_rows().also("C05")]
UNITS += [VIO.unit_reset_checks()]
from props import _groups as _G
UNITS = _G.with_groups(PROPERTY, UNITS, _G.READERS, _G.VALIDATION, _G.CHECKS)
from contracts import structure as ST2
UNITS += [ST2.unit_no_hidden_state().also("C05")]
from contracts import history as HI
UNITS += [HI.unit_history_sweep().also("C05")]
