"""C14 A validating writer emits only conforming rows; its output validates again."""
from contracts import validio as VIO, rowio_delim as RD, rowio_fixed as FX, fields as F, rowio_writers as RW

PROPERTY = "C14"
TITLE = "A validating writer emits only conforming rows; its output validates again"
LEVEL = "proof"
TRUSTED_BASE = ["_csv writer/reader through axiom A-CSV (bounded audit)"]
ASSUMPTIONS = []
EXPLANATION = ""
LEVEL_TEXT = "Deductive proof of Writer.__init__ (fresh checks), write_row (validate first, nothing emitted on rejection, position unchanged), _padded_fixed_row; read-back is a lemma over the reader contracts (C13 / A-CSV) with a bounded write-then-read sweep."
LEVEL_NOTE = "Trusts the pyvc encoding, z3/cvc5, A-CSV and A-STR (blank repetition) axioms (audited)."
TECHNIQUE = "contract-based deductive verification (VCs from the ast of the real functions, z3/cvc5) + bounded write/read-back sweep"
UNITS = [VIO.unit_writer_init(), VIO.unit_writer_write_row(), VIO.unit_padded_fixed_row(), VIO.unit_validate_row(), RW.unit_fixed_row_writer_write_row(), RW.unit_delimited_row_writer_write_row(), VIO.unit_writer_sweep(), RD.unit_as_delimited_keywords(), RD.unit_audit_csv()]
UNITS += [VIO.unit_writer_write_rows(), VIO.unit_writer_close()]
UNITS += [RW.unit_fixed_row_writer_init(), RW.unit_delimited_row_writer_init(), RW.unit_row_writer_close(), RW.unit_row_writer_write_rows()]
UNITS += [RD.unit_delimited_rows().also("C14"), FX.unit_fixed_rows().also("C14"), VIO.unit_raw_rows()]
from props import _groups as _G
UNITS = _G.with_groups(PROPERTY, UNITS, _G.WRITERS, _G.VALIDATION, _G.READERS, _G.CHECKS)
UNITS += [VIO.unit_writer_file_sweep()]
