"""C13 Fixed-width reading is lossless and aligned."""
from contracts import rowio_fixed as FX, interface as IF, validio as VIO

PROPERTY = "C13"
TITLE = "Fixed-width reading is lossless and aligned"
LEVEL = "proof"
TRUSTED_BASE = []
ASSUMPTIONS = []
EXPLANATION = ""
LEVEL_TEXT = "Soundness (lossless, aligned, no silent repair) proved deductively for all streams/widths/settings; completeness (every well-formed input accepted) by bounded-exhaustive sweep against an independent reference reader."
LEVEL_NOTE = "Trusts the pyvc encoding (z3 string theory, code points), A-ITER (file.read semantics), z3/cvc5."
TECHNIQUE = "contract-based deductive verification with ghost state (VCs from the ast of the real generator, z3 strings) + bounded completeness sweep"
UNITS = [FX.unit_fixed_rows(), IF.unit_field_names_and_lengths(), VIO.unit_raw_rows()]
UNITS += [VIO.unit_writer_file_sweep()]
UNITS += [IF.unit_fnl_follows_cid()]
from contracts import structure as ST2
UNITS += [ST2.unit_no_hidden_state().also("C13")]
