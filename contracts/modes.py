"""C06: bounded sweep that the three error modes agree on real CIDs and formats, and that container faults stop reading with a DataFormatError in every mode."""
import io, itertools, os
from vf.unit import NativeUnit, sweep
from vf.model import *

POOL = [["1", "ab"], ["2", "c"], ["x", "ab"], ["3"], ["1", "zz"], ["4", "toolong"]]


def cid_for(fmt, header):
    from cutplace import interface
    if fmt == "delimited-escape": return interface.create_cid_from_string("d,format,delimited\nd,header,%d\nd,escape character,\\\nf,id,,,1...3,Integer\nf,name,,x,...3\nc,u,IsUnique,id\n" % header)
    if fmt == "delimited": return interface.create_cid_from_string("d,format,delimited\nd,header,%d\nf,id,,,1...3,Integer\nf,name,,x,...3\nc,u,IsUnique,id\n" % header)
    return interface.create_cid_from_string("d,format,fixed\nd,header,%d\nd,line delimiter,lf\nf,id,,,3,Integer\nf,name,,x,3\nc,u,IsUnique,id\n" % header)


def render(fmt, rows):
    if fmt.startswith("delimited"): return "".join(",".join(r) + "\n" for r in rows)
    return "".join("".join(c.ljust(3)[:3] for c in (r + ["", ""])[:2]) + "\n" for r in rows)


def run_mode(fmt, header, text, mode):
    from cutplace import validio, errors
    cid = cid_for(fmt, header)
    r = validio.Reader(cid, io.StringIO(text), on_error=mode)
    out = []; stop = None
    try:
        for x in r.rows(): out.append(("E", x.location.line + 1, x.message[:25]) if isinstance(x, errors.DataError) else ("R", x))
    except errors.DataFormatError as e: stop = ("DataFormatError",)
    except errors.DataError as e: stop = ("E", e.location.line + 1, e.message[:25])
    except Exception as e: stop = ("ESCAPED", type(e).__name__)
    return out, stop, (r.accepted_rows_count, r.rejected_rows_count)


def unit_modes_sweep():
    def run(ctx):
        def cases():
            k = 0
            for fmt in ("delimited", "fixed"):
                for header in (0, 1, 2):
                    for n in range(0, 6 if ctx.thorough else 5):
                        for idx in itertools.product(range(len(POOL)), repeat=n):
                            if fmt == "fixed" and any(len(POOL[i]) != 2 or len(POOL[i][1]) > 3 for i in idx): continue
                            k += 1
                            if n >= 4 and k % (2 if ctx.thorough else 9): continue
                            yield (fmt, header, [POOL[i] for i in idx], None)
                    # container faults at every row boundary
                    for n in range(0, 4):
                        for cut in range(0, n + 1):
                            yield (fmt, header, [POOL[i % 2] for i in range(n)], cut)
                            if fmt == "delimited": yield ("delimited-escape", header, [POOL[i % 2] for i in range(n)], cut)      # the same with a backslash as escape character
        def check(c):
            fmt, header, rows, fault_at = c
            text = render(fmt, rows)
            if fault_at is not None:
                lines = text.splitlines(keepends=True)
                broken = '7,"unterminated\n' if fmt.startswith("delimited") else "9\n"          # unterminated quote / short fixed record
                text = "".join(lines[:fault_at]) + broken + "".join(lines[fault_at:])
            y, ystop, ycnt = run_mode(fmt, header, text, "yield")
            c_, cstop, ccnt = run_mode(fmt, header, text, "continue")
            r, rstop, _ = run_mode(fmt, header, text, "raise")
            if [x for x in y if x[0] == "R"] != c_: return {"expected": "continue == rows of yield: %r" % ([x for x in y if x[0] == "R"],), "observed": c_}
            first_err = next((i for i, x in enumerate(y) if x[0] == "E"), None)
            if first_err is None:
                if r != y or rstop != ystop: return {"expected": "raise == yield when nothing is rejected: %r %r" % (y, ystop), "observed": (r, rstop)}
            else:
                if r != y[:first_err] or rstop != y[first_err]: return {"expected": "raise == prefix of yield %r then %r" % (y[:first_err], y[first_err]), "observed": (r, rstop)}
            if ystop != cstop: return {"expected": "same stop in yield and continue", "observed": (ystop, cstop)}
            for st_ in (ystop, cstop, rstop):
                if st_ and st_[0] == "ESCAPED": return {"expected": "rows, DataErrors or a DataFormatError", "observed": "%s escaped" % st_[1]}
            if fault_at is not None:
                if ystop != ("DataFormatError",): return {"expected": "container fault stops reading with a DataFormatError in yield mode", "observed": ystop}
                if first_err is None and rstop != ("DataFormatError",): return {"expected": "DataFormatError in raise mode", "observed": rstop}
            elif ystop is None:
                ndata = max(0, len(rows) - header)
                if ycnt != ccnt or sum(ycnt) != ndata: return {"expected": "accepted + rejected == %d data rows in both modes" % ndata, "observed": (ycnt, ccnt)}
                if ycnt[1] != sum(1 for x in y if x[0] == "E"): return {"expected": "one error per rejected row", "observed": (ycnt, y)}
            return None
        # through the module-level API (reader used in a with statement) under a CID whose end-of-data check always fails: the error of the
        # first rejected row is what 'raise' raises - it is not replaced by the CheckError of the end checks (F-18)
        END_RULES = {"failing": "name >= 9", "not evaluable": "name < 5 / (count - 1)"}       # the second cannot be evaluated for exactly one distinct name (division by zero -> InterfaceError at the end of the data)
        def api_mode(text, mode, end="failing"):
            from cutplace import interface, validio, errors
            cid = interface.create_cid_from_string("d,format,delimited\nf,id,,,1...3,Integer\nf,name,,x,...3\nc,u,IsUnique,id\nc,many,DistinctCount,%s\n" % END_RULES[end])
            out = []; stop = None
            try:
                for x in validio.rows(cid, io.StringIO(text), on_error=mode): out.append(("E", x.location.line + 1, x.message[:25]) if isinstance(x, errors.DataError) else ("R", x))
            except errors.CheckError as e: stop = ("END-CHECK",) if "distinct count" in e.message else ("E", e.location.line + 1, e.message[:25])
            except errors.DataError as e: stop = ("E", e.location.line + 1, e.message[:25])
            except errors.InterfaceError as e: stop = ("END-CHECK",)          # the end-of-data expression could not be evaluated
            except Exception as e: stop = ("ESCAPED", type(e).__name__)
            return out, stop
        def api_cases():
            for end in END_RULES:
                for n in range(0, 4):
                    for idx in itertools.product(range(len(POOL)), repeat=n): yield (end, [POOL[i] for i in idx])
        def api_check(c):
            end, rows = c
            text = render("delimited", rows)
            y, ystop = api_mode(text, "yield", end); r, rstop = api_mode(text, "raise", end)
            if end == "failing" and ystop != ("END-CHECK",): return {"expected": "yield mode ends with the failing end-of-data check", "observed": ystop}
            if ystop not in (None, ("END-CHECK",)): return {"expected": "yield mode ends normally or with the end-of-data check", "observed": ystop}
            first_err = next((i for i, x in enumerate(y) if x[0] == "E"), None)
            want = (y, ystop) if first_err is None else (y[:first_err], y[first_err])
            return None if (r, rstop) == want else {"expected": "raise mode: rows %r then %r" % want, "observed": (r, rstop)}
        api = sweep("C06/sweep/raise raises the first row error also when an end-of-data check fails (module-level rows())", api_cases(), api_check, "bounded", "delimited CID with IsUnique and a DistinctCount that always fails / that cannot be evaluated for one distinct value x tables of 0-3 rows over the pool",
                    describe=lambda c: {"end-of-data check": c[0], "rows": c[1]}, function="validio.rows + BaseValidator.__exit__", unit="C06.modes")
        return [api, sweep("C06/sweep/modes agree, counters add up, container faults stop every mode", cases(), check, "bounded",
                      "delimited and fixed CIDs x header 0-2 x tables of 0-4 rows (0-5 thorough) over a pool of accepted / field-rejected / wrong-count / duplicate rows x 3 modes; unterminated quote / short fixed record injected at every row boundary of 0-3 row tables",
                      describe=lambda c: {"format": c[0], "header": c[1], "rows": c[2], "fault_before_row": c[3]}, function="validio.Reader.rows", unit="C06.modes")]
    return NativeUnit("C06.modes", "bounded sweep: error modes agree with each other and account for every row; container faults", ["C06"], run, kind="bounded")
