"""Shared helpers for sidecar contracts."""
import z3
from pyvc.core import *
from pyvc.verify import Contract, LoopSpec, Unroll, Clause
from pyvc.symexec import Raise, Obligation, Opaque, UFMap, Unsupported, FallibleIter
from pyvc import source as S


def G(st, k):
    return lift(st.ghost[k]).z


class ModelContract:
    """Callee contract given as a model function f(ex, st, fn, args, kw) -> (state, value|Raise)*"""
    def __init__(self, f):
        self.f = f; self.use_at_calls = True
    def apply(self, ex, st, fn, args, kw):
        yield from self.f(ex, st, fn, args, kw)


class AbsContract:
    def __init__(self, model):
        self.model = model


def raise_new(ex, st, clsname, args=None, kw=None, msg_nonempty=True):
    """Raise a cutplace error built by the *real* constructor with a fresh (non-empty) message."""
    info = S.find_class(clsname)
    if args is None:
        m = fresh(STR, "msg")[0]
        if msg_nonempty: st.pc.append(z3.Length(m.z) > 0)
        args = [m]
    for s3, e in ex.instantiate(st, info, list(args), kw or {}):
        yield s3, (e if isinstance(e, Raise) else Raise(e))


def fresh_str(hint="s"):
    return fresh(STR, hint)[0]


def model_int(m, term):
    return m.eval(term, model_completion=True).as_long()


def model_str(m, term):
    v = m.eval(term, model_completion=True)
    return v.as_string() if z3.is_string_value(v) else str(v)


def model_bool(m, term):
    return z3.is_true(m.eval(term, model_completion=True))


def find_decl(m, prefix):
    """first model declaration whose name (before '!') equals prefix"""
    for d in m.decls():
        if d.name().split("!")[0] == prefix:
            return d
    return None


def m_opaque_str(ex, st, fn, args, kw):
    yield st, fresh(STR, "text")[0]
