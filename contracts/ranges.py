"""Sidecar contracts for cutplace/ranges.py (property C01; used by C02, C03, C19)."""
import itertools, z3
from .common import *
from vf.unit import ProofUnit, NativeUnit, Oracle, sweep
from vf.model import *

ITEM = Tup(Opt(INT), Opt(INT))


# ---------------------------------------------------------------- spec functions (SMT side)
def item_contains(ex, st, item, v):
    lo = ex.spec_value("it[0]", st, {"it": item}); hi = ex.spec_value("it[1]", st, {"it": item})
    return ex.spec("(lo is None or lo <= v) and (hi is None or v <= hi)", st, {"lo": lo, "hi": hi, "v": v})


# ---------------------------------------------------------------- native side of the same spec
def n_item_contains(item, v):
    lo, hi = item
    return (lo is None or lo <= v) and (hi is None or v <= hi)


def n_accepts(items, v):
    return items is None or any(n_item_contains(it, v) for it in items)


def _small_items(vals=(None, -1, 0, 1, 2)):
    return [(a, b) for a in vals for b in vals if not (a is None and b is None) and not (a is not None and b is not None and a > b)]


# ---------------------------------------------------------------- Range.validate
def _setup_validate(cls_name, num_ty):
    item_ty = Tup(Opt(num_ty), Opt(num_ty))
    def setup(ex, st):
        self = Ref(cls_name); items, cons = fresh(UFList(item_ty), "items"); st.pc.extend(cons)
        st.heap[self.oid] = {"_items": items, "_description": fresh(STR, "desc")[0], "_lower_limit": fresh(Opt(num_ty), "ll")[0], "_upper_limit": fresh(Opt(num_ty), "ul")[0],
                             "_precision": fresh(INT, "prec")[0], "_scale": fresh(INT, "scale")[0]}
        env = st.frames[-1].env
        env["self"] = self; env["name"] = fresh(STR, "name")[0]; env["value"] = fresh(num_ty, "value")[0]; env["location"] = None
        st.ghost["items"] = items; st.ghost["this"] = self
        st.ghost["items0"] = items
    return setup


_VALIDATE_INV = ["0 <= item_index and item_index <= len(self._items)",
                 "iff(is_valid, exists(j, 0 <= j and j < item_index, item_contains(self._items[j], VALUE)))"]


def range_validate_contract():
    return Contract("ranges.Range.validate", _setup_validate("Range", INT),
        requires=["name != ''", "forall(i, 0 <= i and i < len(self._items), self._items[i] != (None, None))"],
        returns=[Clause("exists(i, 0 <= i and i < len(self._items), item_contains(self._items[i], value))", "accepted-only-if-some-item-contains"),
                 ],
        raises={"RangeValueError": [Clause("not exists(i, 0 <= i and i < len(self._items), item_contains(self._items[i], value))", "rejected-only-if-no-item-contains")]},
        loops={0: LoopSpec(
            invariants=[i.replace("VALUE", "value") for i in _VALIDATE_INV],
            havoc={"is_valid": BOOL, "item_index": INT, "lower": Opt(INT), "upper": Opt(INT)},
            decreases="len(self._items) - item_index")},
        expect=["return", "RangeValueError"], n_loops=1, modifies=[])


def _range_with_items(items, cls=None):
    from cutplace import ranges
    cls = cls or ranges.Range
    r = cls.__new__(cls); r._items = None if items is None else list(items); r._description = "<replay>"
    r._lower_limit = r._upper_limit = None
    if cls is ranges.DecimalRange:
        r._precision = 2; r._scale = 10
    return r


class ValidateOracle(Oracle):
    bound = "1-2 items with limits in {None,-1,0,1,2} x values -2..3, plus the empty range"
    cls_name = "Range"
    def conv(self, x): return x
    def check(self, case):
        from cutplace import ranges, errors
        items, v = case
        cls = getattr(ranges, self.cls_name)
        citems = None if items is None else [tuple(None if x is None else self.conv(x) for x in it) for it in items]
        r = _range_with_items(citems, cls)
        try:
            r.validate("x", self.conv(v)); obs = "return"
        except errors.RangeValueError: obs = "RangeValueError"
        except Exception as e: obs = type(e).__name__
        exp = "return" if n_accepts(items, v) else "RangeValueError"
        return None if obs == exp else {"expected": exp, "observed": obs}
    def cases(self, ctx):
        yield (None, 0)
        its = _small_items()
        for k in (1, 2):
            for c in itertools.product(its, repeat=k):
                for v in range(-2, 4):
                    yield (list(c), v)
    def from_model(self, ob):
        m = ob.model
        at = next(d for d in m.decls() if d.name().startswith("items!") and d.name().endswith("_at"))
        ln = next(d for d in m.decls() if d.name().startswith("items!") and d.name().endswith("_len"))
        n = m[ln].as_long()
        rng = at.range()
        item_ty = ITEM if rng == sort_of(ITEM) else Tup(Opt(REAL), Opt(REAL))
        IT = sort_of(item_ty); OI = sort_of(item_ty.args[0])
        def num(v):
            v = m.eval(v, model_completion=True)
            return v.as_long() if z3.is_int_value(v) else float(v.as_fraction())
        def opt(v):
            v = m.eval(v, model_completion=True)
            return None if z3.is_true(m.eval(OI.is_none(v), model_completion=True)) else num(OI.val(v))
        items = [(opt(IT.accessor(0, 0)(at(z3.IntVal(i)))), opt(IT.accessor(0, 1)(at(z3.IntVal(i))))) for i in range(min(n, 6))]
        vd = next(d for d in m.decls() if d.name().startswith("value!"))
        return (items, num(vd()))
    def describe(self, case):
        return {"items": case[0], "value": case[1], "call": "%s.validate('x', value) on a range object holding these items" % self.cls_name}


def unit_range_validate():
    def make(ctx):
        return {"contract": range_validate_contract(), "spec_functions": {"item_contains": item_contains},
                "assumptions": ["Range.validate: `%r` formatting of the value and str(self) in the error message are opaque strings (message text is not part of C01)"]}
    return ProofUnit("ranges.Range.validate", "Range.validate accepts iff some item contains the value (loop invariant, termination)", ["C01", "C02", "C03"], make, ValidateOracle())


# ---------------------------------------------------------------- DecimalRange.validate
DITEM = Tup(Opt(DEC), Opt(DEC))


def dec_item_contains(ex, st, item, v):
    lo = ex.spec_value("it[0]", st, {"it": item}); hi = ex.spec_value("it[1]", st, {"it": item})
    return ex.spec("(lo is None or lo <= v) and (hi is None or v <= hi)", st, {"lo": lo, "hi": hi, "v": v})


def sf_items_finite(ex, st, items):
    i = z3.Int("i!fin"); S_ = sort_of(DITEM); O = sort_of(Opt(DEC))
    lo = S_.accessor(0, 0)(items.at(i)); hi = S_.accessor(0, 1)(items.at(i))
    return Sym(BOOL, z3.ForAll([i], z3.Implies(z3.And(0 <= i, i < items.length),
                                               z3.And(z3.Or(O.is_none(lo), dec_fin(O.val(lo))), z3.Or(O.is_none(hi), dec_fin(O.val(hi))), z3.Not(z3.And(O.is_none(lo), O.is_none(hi)))))))


def sf_is_finite(ex, st, v): return Sym(BOOL, dec_fin(lift(v).z))


def decimal_range_validate_contract(value_kind):
    """value_kind: 'dec' (a Decimal, possibly NaN/Infinity), 'int', or 'str' (converted by Decimal(), A-DEC)"""
    vty = {"dec": DEC, "int": INT, "str": STR}[value_kind]
    base = _setup_validate("DecimalRange", DEC)
    def setup(ex, st):
        base(ex, st)
        st.frames[-1].env["value"] = fresh(vty, "value")[0]
        v = st.frames[-1].env["value"]
        if value_kind == "dec": st.ghost["dvalue"] = v
        elif value_kind == "int": st.ghost["dvalue"] = Sym(DEC, mk_dec(z3.ToReal(v.z), True))
        else:
            st.ghost["dvalue"] = Sym(DEC, ex.absfun_s("dec_of", [z3.StringSort()], sort_of(DEC))(v.z))
            st.ghost["parses"] = Sym(BOOL, ex.absfun_s("dec_parses", [z3.StringSort()], z3.BoolSort())(v.z))
    parses = "parses and " if value_kind == "str" else ""
    SOME = "exists(i, 0 <= i and i < len(self._items), dec_item_contains(self._items[i], dvalue))"
    return Contract("ranges.DecimalRange.validate", setup,
        requires=["name != ''", "items_finite(self._items)"],
        returns=[Clause(parses + "is_finite(dvalue) and " + SOME, "accepted-only-if-finite-and-some-item-contains")],
        raises={"RangeValueError": [Clause("not (" + parses + "is_finite(dvalue) and " + SOME + ")", "rejected-only-if-not-a-finite-number-inside-some-item")]},
        loops={0: LoopSpec(
            invariants=["0 <= item_index and item_index <= len(self._items)", "is_finite(value_as_decimal)", "value_as_decimal == dvalue",
                        "iff(is_valid, exists(j, 0 <= j and j < item_index, dec_item_contains(self._items[j], dvalue)))"],
            havoc={"is_valid": BOOL, "item_index": INT, "lower": Opt(DEC), "upper": Opt(DEC)},
            decreases="len(self._items) - item_index")},
        expect=["return", "RangeValueError"], n_loops=1, modifies=[])


class DecimalValidateOracle(ValidateOracle):
    cls_name = "DecimalRange"
    bound = "1-2 items with limits in {None,-1,0,1,2} x values -2..3 as Decimal, plus NaN / Infinity / numeric text"
    def conv(self, x):
        import decimal
        return x if isinstance(x, (str, decimal.Decimal)) else decimal.Decimal(x)
    def check(self, case):
        import decimal
        items, v = case
        if isinstance(v, str):
            from cutplace import ranges, errors
            r = _range_with_items([tuple(None if x is None else decimal.Decimal(x) for x in it) for it in items], ranges.DecimalRange)
            try: d = decimal.Decimal(v); fin = d.is_finite()
            except decimal.InvalidOperation: d = None; fin = False
            exp = "return" if (fin and n_accepts(items, d)) else "RangeValueError"
            try: r.validate("x", v); obs = "return"
            except errors.RangeValueError: obs = "RangeValueError"
            except Exception as e: obs = type(e).__name__
            return None if obs == exp else {"expected": exp, "observed": obs}
        return super().check(case)
    def cases(self, ctx):
        for v in ("NaN", "sNaN", "Infinity", "-Infinity", "1.5", "abc", "", "1e1"):
            yield ([(0, None)], v); yield ([(None, 2)], v)
        yield from super().cases(ctx)
    def from_model(self, ob): return None


def unit_decimal_range_validate():
    def make(ctx):
        sf = {"dec_item_contains": dec_item_contains, "items_finite": sf_items_finite, "is_finite": sf_is_finite}
        return [{"contract": decimal_range_validate_contract(k), "spec_functions": sf, "label": "value is " + k,
                 "assumptions": ["A-DEC: decimal.Decimal(text) is an abstract partial function (dec_parses / dec_of) raising only decimal.InvalidOperation; comparisons of finite decimals are exact; a comparison with a non-finite operand is modelled as raising InvalidOperation"]}
                for k in ("dec", "int", "str")]
    return ProofUnit("ranges.DecimalRange.validate", "DecimalRange.validate accepts iff the value is a finite number inside some item", ["C01", "C02", "C10"], make, DecimalValidateOracle())


def unit_code_for_string_token():
    BYTES = Abs("Bytes")
    def setup(ex, st):
        value = fresh(STR, "value")[0]; st.pc.append(z3.Length(value.z) >= 2)        # precondition (asserted; the callers pass STRING tokens, which have two quotes at least)
        st.frames[-1].env.update({"name": "limit", "value": value, "location": None}); st.ghost.update({"value": value, "decode_failed": False})
    def m_encode(ex, st, recv, args, kw):
        yield st, Sym(BYTES, ex.absfun_s("utf8", [z3.StringSort()], sort_of(BYTES))(lift(recv).z))
    def m_decode(ex, st, recv, args, kw):
        ex.obligations.append(Obligation("escapes-are-decoded-as-unicode_escape", st.pc, z3.BoolVal(list(args) == ["unicode_escape"]), "post", props=["C01", "C11"]))
        sb = st.copy(); sb.ghost["decode_failed"] = True; yield sb, Raise(ex.new_builtin_exc(sb, "UnicodeDecodeError", ["bad escape"]))
        yield st, Sym(STR, ex.absfun_s("unescaped", [sort_of(BYTES)], z3.StringSort())(recv.z))
    def quotes_ok(st):
        v = G(st, "value"); l = z3.SubString(v, 0, 1); r = z3.SubString(v, z3.Length(v) - 1, 1)
        return z3.And(z3.Or(l == "\"", l == "'"), z3.Or(r == "\"", r == "'"))
    def inner(st): v = G(st, "value"); return z3.SubString(v, 1, z3.Length(v) - 2)
    def decoded(ex, st): return ex.absfun_s("unescaped", [sort_of(BYTES)], z3.StringSort())(ex.absfun_s("utf8", [z3.StringSort()], sort_of(BYTES))(inner(st)))
    def c_result(ex, st):
        r = lift(st.ghost["__result__"]).z; v = G(st, "value")
        return Sym(BOOL, z3.And(quotes_ok(st), z3.If(z3.Length(v) == 3, r == z3.StrToCode(inner(st)), z3.And(z3.Length(decoded(ex, st)) == 1, r == z3.StrToCode(decoded(ex, st))))))
    def c_refused(ex, st):
        v = G(st, "value")
        return Sym(BOOL, z3.Or(z3.Not(quotes_ok(st)), z3.And(z3.Length(v) != 3, z3.Or(z3.BoolVal(bool(st.ghost["decode_failed"])), z3.Length(decoded(ex, st)) != 1))))
    def make(ctx):
        c = Contract("ranges.code_for_string_token", setup,
                returns=[Clause(c_result, "a-quoted-single-character-denotes-itself-whatever-it-is-(no-decoding)-a-longer-text-denotes-its-unicode_escape-decoding-if-that-is-one-character", props=["C01", "C11"])],
                raises={"InterfaceError": [Clause(c_refused, "refused-only-without-quotes-or-when-the-text-between-them-is-not-one-character-even-after-decoding-escapes", props=["C01", "C11", "C09"])]},
                expect=["return", "InterfaceError"], raises_only_props=["C01", "C11", "C10"])
        return {"contract": c, "callees": {"strmethod:encode": m_encode, "abs:Bytes.decode": AbsContract(m_decode)},
                "assumptions": ["A-STR: str.encode('utf-8') / bytes.decode('unicode_escape') are uninterpreted (utf8, unescaped); decode raises only UnicodeDecodeError (G-2 widened the handler; audited by the bounded spelling sweep of C11)"]}
    return ProofUnit("ranges.code_for_string_token", "code_for_string_token: one quoted character denotes itself; longer texts are decoded as escapes; everything else is refused", ["C01", "C11", "C09", "C10"], make, None)
