"""Range.__init__ : the token loop, the overlap scan and the limit loop, verified at token level (property C01).

The description text reaches the loop only through `_tools.tokenize_without_space`; what that iterator delivers for
grammar-rendered text is axiom A-TOK (audited natively, see contracts/tokens.py). Here the token sequence T is a ghost
list and the description is a sequence of n items; item k starts at token start(k) and has a *shape*
(kind of lower limit, ellipsis?, kind of upper limit) with kinds 0 none, 1 number, 2 -number, 3 quoted character,
4 symbolic name. One verification run per shape of the *current* item (28 well-formed shapes, a finite partition of the
grammar); the other items stay symbolic, and the outer-loop invariant carries the result to any number of items.
"""
import token as TK
import z3
from .common import *
from vf.unit import ProofUnit
from vf.model import *
from .tokens import RangeTextOracle

TOKEN = Tup(INT, STR); ITEM = Tup(Opt(INT), Opt(INT))
tks = sort_of(TOKEN); ttype = tks.accessor(0, 0); ttext = tks.accessor(0, 1)
its = sort_of(ITEM); OI = sort_of(Opt(INT))
lo_kind = z3.Function("lo_kind", z3.IntSort(), z3.IntSort()); hi_kind = z3.Function("hi_kind", z3.IntSort(), z3.IntSort())
has_ell = z3.Function("has_ell", z3.IntSort(), z3.BoolSort()); lo_val = z3.Function("lo_val", z3.IntSort(), z3.IntSort()); hi_val = z3.Function("hi_val", z3.IntSort(), z3.IntSort())
start = z3.Function("start", z3.IntSort(), z3.IntSort())
NAMES = {"cr": 13, "ff": 12, "lf": 10, "tab": 9, "vt": 11}

# the 28 well-formed shapes: at least one limit; an upper limit needs the ellipsis
SHAPES = [(lo, ell, hi) for lo in range(5) for ell in (0, 1) for hi in range(5)
          if (lo != 0 or hi != 0) and (hi == 0 or ell == 1)
          and (lo, ell, hi) != (4, 1, 2)]   # name...-number: names denote 9..13, the upper limit would be <= 0: no well-formed item has this shape


def den_lo(k): return z3.If(lo_kind(k) != 0, OI.some(lo_val(k)), OI.none)
def den_hi(k): return z3.If(has_ell(k), z3.If(hi_kind(k) != 0, OI.some(hi_val(k)), OI.none), den_lo(k))
def den(k): return its.mk(den_lo(k), den_hi(k))


def limit_token(ex, T, p, kind, v):
    t = T.at(p); text = ttext(t)
    int0p = ex.absfun_s("int0_parses", [z3.StringSort()], z3.BoolSort()); int0v = ex.absfun_s("int0_value", [z3.StringSort()], z3.IntSort())
    lower = ex.absfun_s("str_lower", [z3.StringSort()], z3.StringSort())
    num = z3.And(ttype(t) == TK.NUMBER, int0p(text), int0v(text) >= 0, z3.If(kind == 2, v == -int0v(text), v == int0v(text)))
    q = z3.SubString(text, 0, 1)
    string = z3.And(ttype(t) == TK.STRING, z3.Length(text) == 3, z3.Or(q == "\"", q == "'"), z3.SubString(text, 2, 1) == q, z3.StrToCode(z3.SubString(text, 1, 1)) == v)
    name = z3.And(ttype(t) == TK.NAME, z3.Or(*[z3.And(lower(text) == nm, v == code) for nm, code in NAMES.items()]))
    return z3.If(z3.Or(kind == 1, kind == 2), num, z3.If(kind == 3, string, name))


def item_layout(ex, T, n, k):
    p0 = start(k); b = lambda c: z3.If(c, 1, 0)
    p1 = p0 + b(lo_kind(k) == 2); p2 = p1 + b(lo_kind(k) != 0); p3 = p2 + b(has_ell(k)); p4 = p3 + b(hi_kind(k) == 2); p5 = p4 + b(hi_kind(k) != 0)
    hyphen = lambda p: z3.And(ttype(T.at(p)) == TK.OP, ttext(T.at(p)) == "-")
    # after the F-1 repair the loop sees ':' for every spelling of the ellipsis; the one-character ellipsis as ERRORTOKEN
    # (what older interpreters deliver) is kept in the grammar so that either front end is covered
    ell = lambda p: z3.Or(z3.And(ttype(T.at(p)) == TK.OP, ttext(T.at(p)) == ":"), z3.And(ttype(T.at(p)) == TK.ERRORTOKEN, ttext(T.at(p)) == "…"))
    term = z3.If(k < n - 1, z3.And(ttype(T.at(p5)) == TK.OP, ttext(T.at(p5)) == ","), z3.And(ttype(T.at(p5)) == TK.ENDMARKER, ttext(T.at(p5)) == ""))
    wf = z3.And(lo_kind(k) >= 0, lo_kind(k) <= 4, hi_kind(k) >= 0, hi_kind(k) <= 4, z3.Or(lo_kind(k) != 0, hi_kind(k) != 0), z3.Implies(hi_kind(k) != 0, has_ell(k)),
                z3.Implies(z3.And(lo_kind(k) != 0, hi_kind(k) != 0), lo_val(k) <= hi_val(k)))
    return z3.And(wf, z3.Implies(lo_kind(k) == 2, hyphen(p0)), z3.Implies(lo_kind(k) != 0, limit_token(ex, T, p1, lo_kind(k), lo_val(k))),
                  z3.Implies(has_ell(k), ell(p2)), z3.Implies(hi_kind(k) == 2, hyphen(p3)), z3.Implies(hi_kind(k) != 0, limit_token(ex, T, p4, hi_kind(k), hi_val(k))),
                  term, start(k + 1) == p5 + 1)


def disjoint(j, k):
    """the two items, as sets of integers, do not intersect"""
    a_lo_none = lo_kind(j) == 0; a_hi_none = z3.And(has_ell(j), hi_kind(j) == 0)
    b_lo_none = lo_kind(k) == 0; b_hi_none = z3.And(has_ell(k), hi_kind(k) == 0)
    a_hi = z3.If(has_ell(j), hi_val(j), lo_val(j)); b_hi = z3.If(has_ell(k), hi_val(k), lo_val(k))
    a_below_b = z3.And(z3.Not(a_hi_none), z3.Not(b_lo_none), a_hi < lo_val(k))
    b_below_a = z3.And(z3.Not(b_hi_none), z3.Not(a_lo_none), b_hi < lo_val(j))
    return z3.Or(a_below_b, b_below_a)


def m_tokenize(ex, st, fn, args, kw):
    it = Ref("TokenIter"); st.heap[it.oid] = {"cursor": 0}; st.ghost["iter"] = it; yield st, it


def tok_next(ex, st, recv, args, kw):
    o = st.heap[recv.oid]; T = st.ghost["T"]; c = lift(o["cursor"]).z
    if feasible(st.pc, c >= T.length):
        sb = st.copy(); sb.pc.append(c >= T.length); yield sb, Raise(ex.new_builtin_exc(sb, "StopIteration", []))
    st.pc.append(z3.And(c >= 0, c < T.length)); o["cursor"] = Sym(INT, c + 1)
    yield st, Sym(TOKEN, T.at(c))


def make_setup():
    def setup(ex, st):
        T, c = fresh(UFList(TOKEN), "T"); st.pc.extend(c)
        n = fresh(INT, "n")[0]; st.pc.append(n.z >= 1); st.pc.append(start(0) == 0); st.pc.append(T.length == start(n.z))
        k = z3.Int("k")
        # start() is increasing (consequence of the layout; stated so that the ground instances suffice)
        st.pc.append(z3.ForAll([k], z3.Implies(z3.And(k >= 0, k < n.z), z3.And(start(k + 1) > start(k), start(k + 1) <= start(n.z)))))
        st.ghost["layout"] = lambda kk: item_layout(ex, T, n.z, kk)
        wf = lambda k: z3.And(lo_kind(k) >= 0, lo_kind(k) <= 4, hi_kind(k) >= 0, hi_kind(k) <= 4, z3.Or(lo_kind(k) != 0, hi_kind(k) != 0), z3.Implies(hi_kind(k) != 0, has_ell(k)))
        st.pc.append(z3.ForAll([k], z3.Implies(z3.And(k >= 0, k < n.z), wf(k))))
        desc = fresh(STR, "description")[0]
        strip = ex.absfun_s("str_strip", [z3.StringSort()], z3.StringSort()); st.pc.append(strip(desc.z) != "")
        self = Ref("Range"); st.heap[self.oid] = {}
        st.frames[-1].env.update({"self": self, "description": desc, "default": None})
        st.ghost.update({"T": T, "n": n, "this": self})
        ex.attr_types = {"_items": UFList(ITEM)}
    return setup


def unfolds_for(shape):
    def unfold_item(ex, st):
        """ground instances at the current item k0 = len(_items): its token layout, its shape (case split)"""
        items = st.heap[st.ghost["this"].oid].get("_items")
        if not isinstance(items, UFL): return []
        k0 = items.length; n = G(st, "n")
        out = [z3.Implies(z3.And(k0 >= 0, k0 < n), st.ghost["layout"](k0))]
        out.append(z3.Implies(k0 < n, z3.And(lo_kind(k0) == shape[0], has_ell(k0) == bool(shape[1]), hi_kind(k0) == shape[2])))
        return out
    def unfold_disjoint(ex, st):
        items = st.heap[st.ghost["this"].oid].get("_items"); env = st.frames[-1].env
        j = lift(env.get("_i2", 0)).z; k0 = items.length
        return [z3.Implies(z3.And(0 <= j, j < k0), disjoint(j, k0)), z3.Implies(z3.And(0 <= j - 1, j - 1 < k0), disjoint(j - 1, k0))]
    return unfold_item, unfold_disjoint


def sf_den(ex, st, k): return Sym(ITEM, den(lift(k).z))
def sf_start(ex, st, k): return Sym(INT, start(lift(k).z))
def sf_cursor(ex, st): return st.heap[st.ghost["iter"].oid]["cursor"]


def sf_lower_limit_ok(ex, st, lim, upto):
    """`lim` is the overall lower limit of items[0:upto]: none iff some item is open below, else a lower bound that is attained"""
    items = st.heap[st.ghost["this"].oid]["_items"]; u = lift(upto).z; l = lift_to(Opt(INT), lim)
    j = z3.Int("j!ll"); lo = lambda i: its.accessor(0, 0)(items.at(i))
    some_open = z3.Exists([j], z3.And(0 <= j, j < u, OI.is_none(lo(j))))
    bound = z3.ForAll([j], z3.Implies(z3.And(0 <= j, j < u), z3.And(z3.Not(OI.is_none(lo(j))), OI.val(lo(j)) >= OI.val(l))))
    attained = z3.Exists([j], z3.And(0 <= j, j < u, lo(j) == l))
    return Sym(BOOL, z3.If(u == 0, OI.is_none(l), z3.If(some_open, OI.is_none(l), z3.And(z3.Not(OI.is_none(l)), bound, attained))))


def sf_upper_limit_ok(ex, st, lim, upto):
    items = st.heap[st.ghost["this"].oid]["_items"]; u = lift(upto).z; l = lift_to(Opt(INT), lim)
    j = z3.Int("j!ul"); hi = lambda i: its.accessor(0, 1)(items.at(i))
    some_open = z3.Exists([j], z3.And(0 <= j, j < u, OI.is_none(hi(j))))
    bound = z3.ForAll([j], z3.Implies(z3.And(0 <= j, j < u), z3.And(z3.Not(OI.is_none(hi(j))), OI.val(hi(j)) <= OI.val(l))))
    attained = z3.Exists([j], z3.And(0 <= j, j < u, hi(j) == l))
    return Sym(BOOL, z3.If(u == 0, OI.is_none(l), z3.If(some_open, OI.is_none(l), z3.And(z3.Not(OI.is_none(l)), bound, attained))))


def init_contract(shape):
    unfold_item, unfold_disjoint = unfolds_for(shape)
    return Contract("ranges.Range.__init__", make_setup(),
        returns=[Clause("len(this._items) == n", "one-item-per-description-item"),
                 Clause("forall(j, 0 <= j and j < n, this._items[j] == den(j))", "items-are-the-denotations"),
                 Clause("lower_limit_ok(this._lower_limit, n)", "lower-limit-is-minimum-or-absent"),
                 Clause("upper_limit_ok(this._upper_limit, n)", "upper-limit-is-maximum-or-absent")],
        raises={},      # a well-formed, non-overlapping description is accepted: every raise is a failed obligation
        loops={
            0: LoopSpec(invariants=["0 <= len(this._items) and len(this._items) <= n", "cursor() == start(len(this._items))",
                                    "forall(j, 0 <= j and j < len(this._items), this._items[j] == den(j))", "iff(end_reached, len(this._items) == n)"],
                        havoc={"this._items": UFList(ITEM), "iter.cursor": INT, "end_reached": BOOL, "lower": Opt(INT), "upper": Opt(INT), "ellipsis_found": BOOL, "after_hyphen": BOOL,
                               "next_token": TOKEN, "next_type": INT, "next_value": STR, "value_as_int": INT, "result": ITEM, "item": ITEM}, unfolds=[unfold_item]),
            1: Unroll(6),
            2: LoopSpec(invariants=[], havoc={"item": ITEM}, unfolds=[unfold_disjoint]),
            3: LoopSpec(invariants=["implies(_i3 == 0, is_first_item)", "implies(_i3 > 0, not is_first_item)",
                                    "implies(_i3 > 0, lower_limit_ok(this._lower_limit, _i3) and upper_limit_ok(this._upper_limit, _i3))"],
                        havoc={"this._lower_limit": Opt(INT), "this._upper_limit": Opt(INT), "is_first_item": BOOL, "lower_item": Opt(INT), "upper_item": Opt(INT)}),
        }, expect=["return"], n_loops=4)


def _m_tokdesc(ex, st, fn, args, kw):
    yield st, fresh(STR, "tokdesc")[0]


CALLEES = lambda: {"_tools.tokenize_without_space": ModelContract(m_tokenize), "ref:TokenIter.__next__": tok_next,
                   "ranges._tokenizable_description": ModelContract(_m_tokdesc)}
SPECF = {"den": sf_den, "start": sf_start, "cursor": sf_cursor, "lower_limit_ok": sf_lower_limit_ok, "upper_limit_ok": sf_upper_limit_ok}

ASSUMPTIONS = [
    "A-TOK: for text rendered from the documented range grammar `_tools.tokenize_without_space` delivers the token sequence described by item_layout() (audited natively on every run: contracts/tokens.py)",
    "A-INT: int(text, 0) is an abstract partial function (int0_parses / int0_value) whose value on NUMBER tokens of the grammar is the literal's value (audited)",
    "A-STR: str.lower/strip are uninterpreted; NAME tokens of the grammar lower-case to one of cr/ff/lf/tab/vt",
    "Range.__init__: the overlap scan is proved silent for items that are disjoint as sets (the statement's precondition `non-overlapping`)",
]


def units_range_init(shapes=None, props=("C01",)):
    """one unit per item shape; other properties that rely on Range's limits / items (C19: column capacity from lower_limit / upper_limit)
    include a single shape: the overlap scan and the limit loop are verified in full by every run, only the token loop is per shape"""
    out = []
    for shape in (shapes or SHAPES):
        def make(ctx, shape=shape):
            return {"contract": init_contract(shape), "callees": CALLEES(), "spec_functions": SPECF, "label": "shape lo=%d ell=%d hi=%d" % shape, "assumptions": ASSUMPTIONS}
        out.append(ProofUnit("ranges.Range.__init__/%d%d%d" % shape, "Range.__init__ token loop, current item of shape (lower kind %d, ellipsis %d, upper kind %d)" % shape,
                             list(props), make, RangeTextOracle(), xcheck=False, weight=5, timeout=1200))
    return out
