"""Sidecar contracts for cutplace/fields.py (C02, C03, C20)."""
import itertools, z3
from .common import *
from vf.unit import ProofUnit, NativeUnit, Oracle, sweep
from vf.model import *

NATIVE = Abs("Native")
is_space = z3.Function("is_space", z3.StringSort(), z3.BoolSort())     # on 1-character strings (A-STR: str.isspace)
allowed = z3.Function("allowed_code", z3.IntSort(), z3.BoolSort())     # the data format's allowed-characters range as a predicate on code points


# =====================================================================================================================
# AbstractFieldFormat.validated  (guards: characters -> empty -> length -> validated_value) against an abstract validated_value
# =====================================================================================================================
def m_validated_value(ex, st, fn, args, kw):
    v = lift(args[0]).z
    ex.obligations.append(Obligation("protocol/validated_value-never-called-with-an-empty-value", st.pc, z3.Length(v) > 0, "protocol", props=["C03", "C20"]))
    ex.obligations.append(Obligation("protocol/validated_value-called-at-most-once", st.pc, G(st, "vv_calls") == 0, "protocol", props=["C03", "C20"]))
    st.ghost["vv_calls"] = Sym(INT, G(st, "vv_calls") + 1); st.ghost["vv_arg"] = Sym(STR, v)
    acc = ex.absfun_s("vv_accepts", [z3.StringSort()], z3.BoolSort())(v)
    for s2, b in ex.fork(st, Sym(BOOL, acc)):
        if b: yield s2, Sym(NATIVE, ex.absfun_s("vv_native", [z3.StringSort()], sort_of(NATIVE))(v))
        else: yield from raise_new(ex, s2, "FieldValueError")


def bad_char_z(v):
    i = z3.Int("i!bc")
    return z3.Exists([i], z3.And(i >= 0, i < z3.Length(v), z3.Not(allowed(z3.StrToCode(z3.SubString(v, i, 1))))))


def m_validate_characters(ex, st, fn, args, kw):
    """contract of validate_characters (verified separately below): raises FieldValueError iff some character is not allowed"""
    v = lift(args[0]).z
    for s2, b in ex.fork(st, Sym(BOOL, bad_char_z(v))):
        if not b: yield s2, None
        else: yield from raise_new(ex, s2, "FieldValueError")


def m_length_validate(ex, st, recv, args, kw):
    """contract of Range.validate on the length range (verified in contracts/ranges.py): raises RangeValueError iff the length is outside"""
    n = lift(args[1]).z; inr = ex.absfun_s("length_in_range", [z3.IntSort()], z3.BoolSort())(n)
    for s2, b in ex.fork(st, Sym(BOOL, inr)):
        if b: yield s2, None
        else: yield from raise_new(ex, s2, "RangeValueError")


def setup_validated(fixed):
    def setup(ex, st):
        value = fresh(STR, "value")[0]; allowed_empty = fresh(BOOL, "allowed_empty")[0]; width = fresh(INT, "width")[0]; st.pc.append(width.z >= 1)
        fmt = "fixed"
        if not fixed:
            fmt = fresh(STR, "format")[0]; st.pc.append(fmt.z != z3.StringVal("fixed"))      # delimited, excel, ods: one run for all of them (non-interference, C17)
        df = Ref("DataFormat"); st.heap[df.oid] = {"_format": fmt, "_allowed_characters": None}
        length = Ref("Range")
        st.heap[length.oid] = {"_lower_limit": width if fixed else fresh(Opt(INT), "lo")[0], "_upper_limit": width if fixed else fresh(Opt(INT), "hi")[0], "_items": Opaque()}
        self = Ref("TextFieldFormat")
        st.heap[self.oid] = {"_field_name": fresh(STR, "fname")[0], "_is_allowed_to_be_empty": allowed_empty, "_length": length, "_rule": "", "_data_format": df,
                             "_empty_value": Sym(NATIVE, z3.Const("EMPTY_VALUE", sort_of(NATIVE))), "_example": None}
        st.frames[-1].env.update({"self": self, "value": value})
        st.ghost.update({"vv_calls": 0, "vv_arg": "", "value": value, "allowed_empty": allowed_empty, "width": width})
    return setup


def sf_strip_of(ex, st, v): return Sym(STR, ex.absfun_s("str_strip", [z3.StringSort()], z3.StringSort())(lift(v).z))
def sf_all_space(ex, st, v):
    i = z3.Int("i!sp"); z = lift(v).z
    return Sym(BOOL, z3.ForAll([i], z3.Implies(z3.And(i >= 0, i < z3.Length(z)), is_space(z3.SubString(z, i, 1)))))
def sf_only_spaces(ex, st, v):
    i = z3.Int("i!os"); z = lift(v).z
    return Sym(BOOL, z3.ForAll([i], z3.Implies(z3.And(i >= 0, i < z3.Length(z)), z3.SubString(z, i, 1) == z3.StringVal(" "))))
def strip_blank_axiom(ex, st):
    """A-STR (audited): v.strip(' ') == '' iff every character of v is U+0020"""
    v = G(st, "value"); sp = ex.absfun_s("str_strip2", [z3.StringSort()] * 2, z3.StringSort())(v, z3.StringVal(" ")); i = z3.Int("i!ax2")
    return Sym(BOOL, z3.And(is_space(z3.StringVal(" ")), (sp == z3.StringVal("")) == z3.ForAll([i], z3.Implies(z3.And(i >= 0, i < z3.Length(v)), z3.SubString(v, i, 1) == z3.StringVal(" ")))))
def sf_bad_char(ex, st, v): return Sym(BOOL, bad_char_z(lift(v).z))
def sf_vv_accepts(ex, st, v): return Sym(BOOL, ex.absfun_s("vv_accepts", [z3.StringSort()], z3.BoolSort())(lift(v).z))
def sf_vv_native(ex, st, v): return Sym(NATIVE, ex.absfun_s("vv_native", [z3.StringSort()], sort_of(NATIVE))(lift(v).z))
def sf_EMPTY(ex, st): return Sym(NATIVE, z3.Const("EMPTY_VALUE", sort_of(NATIVE)))


def strip_axiom(ex, st):
    """A-STR (audited): strip(v) == '' iff every character of v is whitespace; strip never lengthens"""
    v = G(st, "value"); sp = ex.absfun_s("str_strip", [z3.StringSort()], z3.StringSort())(v); i = z3.Int("i!ax")
    return Sym(BOOL, z3.And((sp == z3.StringVal("")) == z3.ForAll([i], z3.Implies(z3.And(i >= 0, i < z3.Length(v)), is_space(z3.SubString(v, i, 1)))), z3.Length(sp) <= z3.Length(v)))


def validated_contract(fixed):
    def length_ok(ex, st, v):
        z = lift(v).z
        if fixed: return Sym(BOOL, z3.Length(z) <= G(st, "width"))
        return Sym(BOOL, ex.absfun_s("length_in_range", [z3.IntSort()], z3.BoolSort())(z3.Length(z)))
    BLANK = "all_space(value)" if fixed else "value == ''"
    # pure padding: in fixed data a cell of U+0020 only. Such a cell is the empty cell under every reading of "blanks"; its characters are not looked at.
    # A cell that str.strip() empties but that holds another white-space character (a tab) is empty for the code, yet that character is still held against
    # the allowed characters - the readings of "blank" differ there, and the behaviour the code always had is kept (see DESIGN 8.13 / 8.14)
    PAD = "only_spaces(value)" if fixed else "value == ''"
    EFF = "strip_of(value)" if fixed else "value"
    # the statement's emptiness clause speaks of fixed-width *data*: cells no longer than the declared width (what the reader delivers)
    WITHIN = "len(value) <= width" if fixed else "True"
    c = Contract("fields.AbstractFieldFormat.validated", setup_validated(fixed),
        requires=[strip_axiom, strip_blank_axiom],
        returns=[Clause("implies(not (%s), not bad_char(value))" % PAD, "accepted-cells-contain-only-allowed-characters-(the-padding-blanks-of-an-empty-fixed-cell-aside)", props=["C03", "C20"]),
                 Clause("implies(%s, allowed_empty and result == EMPTY() and vv_calls == 0)" % BLANK, "empty-cell-accepted-only-if-allowed-yields-empty-value-rule-not-consulted", props=["C03", "C20"]),
                 Clause("implies(not (%s), length_ok(value) and vv_calls == 1 and vv_arg == %s and vv_accepts(%s) and result == vv_native(%s))" % (BLANK, EFF, EFF, EFF),
                        "non-empty-cell-accepted-only-inside-length-and-by-the-rule-called-once-with-the-stripped-value", props=["C03", "C20", "C02"])],
        raises={"FieldValueError": [
            Clause("(not (%s) and bad_char(value)) or ((%s) and not allowed_empty) or (not (%s) and (not length_ok(value) or not vv_accepts(%s))) or not (%s)" % (PAD, BLANK, BLANK, EFF, WITHIN),
                   "rejected-only-for-a-disallowed-character-a-forbidden-empty-cell-a-bad-length-or-the-rule", props=["C03", "C20"]),
            Clause("implies(bad_char(value), vv_calls == 0)", "rule-not-consulted-for-cells-with-disallowed-characters", props=["C03", "C20"]),
            Clause("implies(not bad_char(value) and not (%s) and not length_ok(value), vv_calls == 0)" % BLANK, "rule-not-consulted-for-cells-of-wrong-length", props=["C03", "C20"])]},
        expect=["return", "FieldValueError"], n_loops=0)
    c._length_ok = length_ok
    return c


def validated_callees():
    return {"fields.AbstractFieldFormat.validated_value": ModelContract(m_validated_value), "fields.TextFieldFormat.validated_value": ModelContract(m_validated_value),
            "fields.AbstractFieldFormat.validate_characters": ModelContract(m_validate_characters), "ref:Range.validate": m_length_validate}


class ValidatedOracle(Oracle):
    quick_cases = 30000
    bound = "Text/Integer/Choice/Decimal fields (allowed characters declared before or after the field) x empty allowed or not x length {none, 2, 1...3} x allowed characters {none, a-z+blank+digits} x formats {delimited, fixed(width 3), ods (Decimal and Text)} x cells up to length 4 over {a, 1, blank, #}"
    def cases(self, ctx):
        cells = [""] + ["".join(p) for n in (1, 2, 3, 4) for p in itertools.product("a1 #", repeat=n)] + ["\ta", "a\t", "\t", "\t  ", " \t1", "a\tb"]
        for fmt in ("delimited", "fixed", "ods"):       # ods stands for the spreadsheet formats: the guards are the same as for delimited data
            for ftype in ("Text", "Integer", "Choice", "Decimal"):
                if fmt == "ods" and ftype not in ("Decimal", "Text"): continue
                for empty in (False, True):
                    for length in (["3"] if fmt == "fixed" else ["", "2", "1...3"]):
                        for ac in (None, "32, 48...57, 97...122", "late:32, 48...57, 97...122", "48...57, 97...122"):     # the last one does not allow the blank
                            for cell in (cells[::3] + cells[-6:]) if not ctx.thorough else cells:
                                if ftype == "Decimal" and (" " in cell.strip(" ") or "\t" in cell or (fmt != "fixed" and cell != cell.strip())): continue      # blanks inside / around a number: Python's Decimal() decides, not the statement
                                yield (fmt, ftype, empty, length, ac, cell)
    def check(self, case):
        from cutplace import data, fields, errors, ranges
        fmt, ftype, empty, length, ac, cell = case
        df = data.DataFormat(fmt)
        late = bool(ac) and ac.startswith("late:")
        if late: ac = ac[5:]
        if ac and not late: df.set_property("allowed_characters", ac)
        if not late: df.validate()
        rule = {"Text": "", "Integer": "0...999", "Choice": "a, aa, a1", "Decimal": "0...999"}[ftype]
        calls = []
        cls = getattr(fields, ftype + "FieldFormat")
        try:
            f = cls("x", empty, length, rule, df)
        except errors.InterfaceError:
            return None     # declaration refused (length inconsistent with the rule): not a C03 case
        if late:            # a property row may follow the field rows of a CID: the field must see it all the same
            df.set_property("allowed_characters", ac); df.validate()
        orig = f.validated_value
        def spy(v):
            calls.append(v); return orig(v)
        f.validated_value = spy
        try: res = f.validated(cell); obs = "accept"
        except errors.FieldValueError: obs = "reject"; res = None
        except Exception as e: return {"expected": "accept or FieldValueError", "observed": repr(e)}
        # expected verdict from the statement
        allowed_codes = None if ac is None else set(([32] if ac.startswith("32") else []) + list(range(48, 58)) + list(range(97, 123)))
        bad = allowed_codes is not None and any(ord(ch) not in allowed_codes for ch in cell)
        blank = (cell.strip() == "") if fmt == "fixed" else (cell == "")
        eff = cell.strip() if fmt == "fixed" else cell
        if fmt == "fixed": len_ok = len(cell) <= 3
        else: len_ok = {"": True, "2": len(cell) == 2, "1...3": 1 <= len(cell) <= 3}[length]
        def rule_ok(v):
            if ftype == "Text": return True
            if ftype == "Choice": return v in ("a", "aa", "a1")
            if ftype == "Decimal":
                import decimal
                try: d = decimal.Decimal(v)
                except decimal.InvalidOperation: return False
                return d.is_finite() and 0 <= d <= 999
            try: return 0 <= int(v) <= 999
            except ValueError: return False
        pad = fmt == "fixed" and cell.strip(" ") == "" or cell == ""
        if bad and not pad: exp = "reject"; exp_calls = []          # (also a cell of white space that str.strip() would empty: a disallowed tab stays disallowed)
        elif blank:         # the statement decides the empty cell first: accepted iff allowed to be empty, whatever the allowed characters say about the padding blanks
            if fmt == "fixed" and len(cell) > 3: return None      # outside fixed-width data (longer than the width): not constrained by the statement
            exp = "accept" if empty else "reject"; exp_calls = []
        elif not len_ok: exp = "reject"; exp_calls = []
        else: exp = "accept" if rule_ok(eff) else "reject"; exp_calls = [eff]
        if obs != exp: return {"expected": exp, "observed": obs}
        if calls != exp_calls: return {"expected": "validated_value calls %r" % exp_calls, "observed": "calls %r" % calls}
        type_empty = None if ftype in ("Integer", "Decimal") else ""
        if obs == "accept" and blank and not (res is None if type_empty is None else res == ""): return {"expected": "the type's empty value %r" % (type_empty,), "observed": repr(res)}
        return None
    def describe(self, c):
        return {"format": c[0], "type": c[1], "allowed_to_be_empty": c[2], "length": c[3], "allowed_characters": c[4], "cell": c[5], "call": "<type>FieldFormat(...).validated(cell)"}


def unit_validated():
    def make(ctx):
        out = []
        for fixed in (False, True):
            c = validated_contract(fixed)
            sf = {"strip_of": sf_strip_of, "all_space": sf_all_space, "only_spaces": sf_only_spaces, "bad_char": sf_bad_char, "length_ok": c._length_ok, "vv_accepts": sf_vv_accepts, "vv_native": sf_vv_native, "EMPTY": sf_EMPTY}
            out.append({"contract": c, "callees": validated_callees(), "spec_functions": sf, "label": "fixed" if fixed else "delimited/excel/ods",
                        "assumptions": ["validated_value is abstract (uninterpreted verdict vv_accepts and native value vv_native; raises only FieldValueError): covers all 8 built-in types and plug-ins at once",
                                        "A-STR: str.strip is uninterpreted with the audited axiom `strip(v) == '' iff all characters are whitespace` and `len(strip(v)) <= len(v)`",
                                        "C03 emptiness clause for fixed format is stated for cells no longer than the declared width (what fixed-width data can contain)",
                                        "callee contracts used: validate_characters (verified: fields.validate_characters unit), Range.validate on the length (verified: ranges.Range.validate)"]})
        return out
    return ProofUnit("fields.AbstractFieldFormat.validated", "validated(): guard order and verdicts for an abstract validated_value, delimited and fixed", ["C03", "C20", "C02"], make, ValidatedOracle())


# =====================================================================================================================
# validate_characters / validate_empty / validate_length
# =====================================================================================================================
def m_allowed_validate(ex, st, recv, args, kw):
    """contract of Range.validate on the allowed-characters range: raises RangeValueError iff the code point is outside"""
    code = lift(args[1]).z
    for s2, b in ex.fork(st, Sym(BOOL, allowed(code))):
        if b: yield s2, None
        else: yield from raise_new(ex, s2, "RangeValueError")


def setup_validate_characters(has_range):
    def setup(ex, st):
        value = fresh(STR, "value")[0]
        rng = Ref("Range"); st.heap[rng.oid] = {"_items": Opaque(), "_description": fresh(STR, "d")[0]}
        df = Ref("DataFormat"); st.heap[df.oid] = {"_format": fresh(STR, "format")[0], "_allowed_characters": rng if has_range else None}
        self = Ref("TextFieldFormat"); st.heap[self.oid] = {"_field_name": fresh(STR, "fname")[0], "_data_format": df}
        st.frames[-1].env.update({"self": self, "value": value}); st.ghost.update({"value": value})
    return setup


def sf_first_bad(ex, st, v, k):
    """k is the first index of a disallowed character"""
    z = lift(v).z; kk = lift(k).z; i = z3.Int("i!fb")
    return Sym(BOOL, z3.And(kk >= 0, kk < z3.Length(z), z3.Not(allowed(z3.StrToCode(z3.SubString(z, kk, 1)))),
                            z3.ForAll([i], z3.Implies(z3.And(i >= 0, i < kk), allowed(z3.StrToCode(z3.SubString(z, i, 1)))))))


def sf_all_allowed_upto(ex, st, v, k):
    z = lift(v).z; kk = lift(k).z; i = z3.Int("i!aa")
    return Sym(BOOL, z3.ForAll([i], z3.Implies(z3.And(i >= 0, i < kk), allowed(z3.StrToCode(z3.SubString(z, i, 1))))))


def validate_characters_contract(has_range):
    if not has_range:
        return Contract("fields.AbstractFieldFormat.validate_characters", setup_validate_characters(False), returns=[], raises={}, loops={}, expect=["return"], n_loops=1, modifies=[])
    return Contract("fields.AbstractFieldFormat.validate_characters", setup_validate_characters(True),
        returns=[Clause("not bad_char(value)", "returns-only-if-every-character-is-allowed", props=["C03"])],
        raises={"FieldValueError": [Clause("bad_char(value)", "raises-only-for-a-disallowed-character", props=["C03"]),
                                    Clause("first_bad(value, _i0)", "stops-at-the-first-offender", props=["C03"])]},
        loops={0: LoopSpec(invariants=["all_allowed_upto(value, _i0)"], havoc={"character_column": INT, "character": STR, "character_code": INT}, decreases="len(value) - _i0")},
        expect=["return", "FieldValueError"], n_loops=1, modifies=[])


def unit_validate_characters():
    def make(ctx):
        sf = {"bad_char": sf_bad_char, "first_bad": sf_first_bad, "all_allowed_upto": sf_all_allowed_upto}
        return [{"contract": validate_characters_contract(True), "callees": {"ref:Range.validate": m_allowed_validate, "ref:Range.__str__": lambda ex, st, recv, a, k: iter([(st, fresh(STR, "rangestr")[0])])}, "spec_functions": sf, "label": "allowed characters declared",
                 "assumptions": ["allowed-characters range: Range.validate contract (verified) seen as the predicate allowed(code point); ord() of a 1-character string is its code point (z3 str.to_code, A-CHR)"]},
                {"contract": validate_characters_contract(False), "spec_functions": sf, "label": "no allowed characters declared"}]
    return ProofUnit("fields.validate_characters", "validate_characters: loop invariant 'all characters before the index are allowed'", ["C03"], make, ValidatedOracle(), xcheck=False)


def setup_validate_length(fixed):
    def setup(ex, st):
        value = fresh(STR, "value")[0]; allowed_empty = fresh(BOOL, "allowed_empty")[0]; width = fresh(INT, "width")[0]; st.pc.append(width.z >= 1)
        df = Ref("DataFormat"); st.heap[df.oid] = {"_format": "fixed" if fixed else fresh(STR, "format")[0]}
        if not fixed: st.pc.append(lift(st.heap[df.oid]["_format"]).z != "fixed")
        length = Ref("Range"); st.heap[length.oid] = {"_lower_limit": width if fixed else fresh(Opt(INT), "lo")[0], "_upper_limit": width if fixed else fresh(Opt(INT), "hi")[0], "_items": Opaque()}
        self = Ref("TextFieldFormat"); st.heap[self.oid] = {"_field_name": fresh(STR, "fname")[0], "_is_allowed_to_be_empty": allowed_empty, "_length": length, "_data_format": df}
        st.frames[-1].env.update({"self": self, "value": value}); st.ghost.update({"value": value, "allowed_empty": allowed_empty, "width": width})
    return setup


def validate_length_contract(fixed):
    def length_ok(ex, st, v):
        z = lift(v).z
        if fixed: return Sym(BOOL, z3.Length(z) <= G(st, "width"))
        return Sym(BOOL, ex.absfun_s("length_in_range", [z3.IntSort()], z3.BoolSort())(z3.Length(z)))
    c = Contract("fields.AbstractFieldFormat.validate_length", setup_validate_length(fixed),
        returns=[Clause("length_ok(value) or (allowed_empty and value == '')", "returns-only-inside-the-declared-length", props=["C03"])],
        raises={"FieldValueError": [Clause("not length_ok(value) and not (allowed_empty and value == '')", "raises-only-outside-the-declared-length", props=["C03"])]},
        expect=["return", "FieldValueError"], n_loops=0, modifies=[])
    c._length_ok = length_ok
    return c


def unit_validate_length():
    def make(ctx):
        out = []
        for fixed in (False, True):
            c = validate_length_contract(fixed)
            out.append({"contract": c, "callees": {"ref:Range.validate": m_length_validate}, "spec_functions": {"length_ok": c._length_ok}, "label": "fixed" if fixed else "not fixed"})
        return out
    return ProofUnit("fields.validate_length", "validate_length: fixed = at most the width; otherwise the length range decides", ["C03"], make, ValidatedOracle(), xcheck=False)


def unit_validate_empty():
    def setup(ex, st):
        value = fresh(STR, "value")[0]; allowed_empty = fresh(BOOL, "allowed_empty")[0]
        self = Ref("TextFieldFormat"); st.heap[self.oid] = {"_is_allowed_to_be_empty": allowed_empty}
        st.frames[-1].env.update({"self": self, "value": value}); st.ghost.update({"allowed_empty": allowed_empty})
    def make(ctx):
        return {"contract": Contract("fields.AbstractFieldFormat.validate_empty", setup,
                    returns=[Clause("allowed_empty or value != ''", "returns-only-if-non-empty-or-allowed", props=["C03"])],
                    raises={"FieldValueError": [Clause("not allowed_empty and value == ''", "raises-only-for-a-forbidden-empty-value", props=["C03"])]},
                    expect=["return", "FieldValueError"], n_loops=0, modifies=[])}
    return ProofUnit("fields.validate_empty", "validate_empty", ["C03"], make, ValidatedOracle(), xcheck=False)


def unit_field_name_index():
    def setup(ex, st):
        names, c = fresh(UFList(STR), "available"); st.pc.extend(c); st.pc.append(names.length >= 1)
        name = fresh(STR, "name")[0]
        strip = ex.absfun_s("str_strip", [z3.StringSort()], z3.StringSort()); st.pc.append(strip(name.z) == name.z)       # precondition: callers pass a stripped name (asserted by the function)
        st.frames[-1].env.update({"field_name_to_look_up": name, "available_field_names": names, "location": None})
        st.ghost.update({"names": names, "name": name})
    def present(ex, st):
        names = st.ghost["names"]; j = z3.Int("j!p")
        return Sym(BOOL, z3.Exists([j], z3.And(0 <= j, j < names.length, names.at(j) == G(st, "name"))))
    def c_first(ex, st):
        names = st.ghost["names"]; r = lift(st.ghost["__result__"]).z; j = z3.Int("j!f")
        return Sym(BOOL, z3.ForAll([j], z3.Implies(z3.And(0 <= j, j < r), names.at(j) != G(st, "name"))))
    def make(ctx):
        c = Contract("fields.field_name_index", setup,
                returns=[Clause("0 <= result and result < len(names) and names[result] == name", "the-result-is-a-position-of-the-name-among-the-available-names", props=["C05", "C09"]),
                         Clause(c_first, "it-is-the-first-such-position", props=["C05"])],
                raises={"InterfaceError": [Clause(lambda ex, st: Sym(BOOL, z3.Not(present(ex, st).z)), "refused-only-if-the-name-is-not-available", props=["C09", "C05"])]},
                expect=["return", "InterfaceError"], raises_only_props=["C09", "C10"])
        return {"contract": c, "callees": {"_tools.human_readable_list": ModelContract(m_opaque_str)}, "assumptions": ["list.index(x) is the first position holding x, ValueError if there is none (A-ITER)"]}
    return ProofUnit("fields.field_name_index", "field_name_index: first position of the name among the available names; InterfaceError iff absent", ["C05", "C09", "C10"], make, None)


def unit_set_example():
    def setup(ex, st):
        self = Ref("TextFieldFormat"); st.heap[self.oid] = {"_example": None}
        ex_ = fresh(Opt(STR), "new_example")[0]
        st.frames[-1].env.update({"self": self, "new_example": ex_})
        st.ghost.update({"this": self, "example": ex_, "validated_calls": 0, "refused": False})
    def m_validated(ex, st, recv, args, kw):
        ex.obligations.append(Obligation("the-example-is-checked-by-validated()-(empty-length-character-guards-and-the-rule)-of-the-field-itself", st.pc,
                                         z3.And(z3.BoolVal(recv is st.ghost["this"]), lift_to(Opt(STR), args[0]) == G(st, "example")), "protocol", props=["C09"]))
        st.ghost["validated_calls"] = Sym(INT, G(st, "validated_calls") + 1)
        sb = st.copy(); sb.ghost["refused"] = True; yield from raise_new(ex, sb, "FieldValueError")
        yield st, fresh(STR, "v")[0]
    def m_forbidden(ex, st, recv, args, kw):
        ex.obligations.append(Obligation("the-example-is-not-checked-by-the-rule-alone", st.pc, z3.BoolVal(False), "protocol", props=["C09"])); yield st, None
    OS = sort_of(Opt(STR))
    def make(ctx):
        c = Contract("fields.AbstractFieldFormat._set_example", setup,
                returns=[Clause(lambda ex, st: Sym(BOOL, z3.And(G(st, "validated_calls") == z3.If(OS.is_none(G(st, "example")), 0, 1), lift_to(Opt(STR), st.heap[st.ghost["this"].oid]["_example"]) == G(st, "example"))),
                                "an-example-is-stored-only-after-the-field's-own-validated()-accepted-it-(None-is-stored-unchecked)", props=["C09"])],
                raises={"FieldValueError": [Clause("refused and this._example is None", "a-refused-example-is-not-stored", props=["C09"])]},
                expect=["return", "FieldValueError"], raises_only_props=["C09", "C10"])
        return {"contract": c, "callees": {"ref:TextFieldFormat.validated": m_validated, "ref:TextFieldFormat.validated_value": m_forbidden, "ref:TextFieldFormat.validate_length": m_forbidden},
                "assumptions": ["validated() is used through its verified contract (fields.AbstractFieldFormat.validated)"]}
    return ProofUnit("fields.AbstractFieldFormat._set_example", "example setter: the example must pass the field's own validated() (all guards, then the rule)", ["C09", "C10"], make, None)


def unit_c03_independent_cids():
    """bounded: the guards of one CID do not depend on what another CID in the same process accepted before (no state shared between field formats)"""
    def run(ctx):
        import io
        from cutplace import interface, validio, errors
        def cid(ac, fmt="delimited"):
            return interface.create_cid_from_string("d,format,%s\nd,allowed characters,%s\n%sf,name,,x,%s\nf,code,,x,%s,Integer\n" % (fmt, ac, "d,line delimiter,lf\n" if fmt == "fixed" else "", "...6" if fmt != "fixed" else "6", "...3" if fmt != "fixed" else "3"))
        WIDE, NARROW = "32...255", "32...126"
        def verdicts(c, fmt):
            rows = [["Müller", "1"], ["Miller", "12"], ["é", "7"], ["abc", "²"]]
            text = "".join((",".join(r) if fmt != "fixed" else r[0].ljust(6) + r[1].ljust(3)) + "\n" for r in rows)
            return ["E" if isinstance(x, errors.DataError) else "R" for x in validio.rows(c, io.StringIO(text), on_error="yield")]
        def check(case):
            fmt, order = case
            want = {WIDE: ["R", "R", "R", "E"], NARROW: ["E", "R", "E", "E"]}          # the superscript two is no integer; u-umlaut / e-acute lie outside 32...126
            cids = {ac: cid(ac, fmt) for ac in order}
            for ac in order + order:
                got = verdicts(cids[ac], fmt)
                if got != want[ac]: return {"expected": "CID allowing %s gives %r whatever ran before" % (ac, want[ac]), "observed": got}
            return None
        cases = [(f, o) for f in ("delimited", "fixed") for o in ([WIDE, NARROW], [NARROW, WIDE], [WIDE, WIDE, NARROW])]
        return [sweep("C03/independence/guards of one CID do not depend on another CID used before in the same process", cases, check, "bounded", "2 formats x 3 orders of a CID allowing 32...255 and one allowing 32...126, each run twice, 4 rows",
                      describe=lambda c: {"format": c[0], "order of CIDs": c[1]}, function="fields.AbstractFieldFormat.validated over two Cid objects", unit="C03.independence")]
    return NativeUnit("C03.independence", "bounded: no state shared between the field formats of different CIDs", ["C03", "C08"], run, kind="bounded")
