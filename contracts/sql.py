"""Sidecar contracts for cutplace/sql.py and the sql_ansi_type methods of the field formats (C19)."""
import io, itertools, z3
from .common import *
from vf import findings
from vf.unit import ProofUnit, NativeUnit, Oracle, sweep
from vf.model import *

DIALECTS = {"ANSI": "AnsiSqlDialect", "DB2": "Db2SqlDialect", "Transact-SQL": "TransactSqlDialect", "PL/SQL": "PlSqlDialect"}
CAP = {"tinyint": (0, 255), "smallint": (-2**15, 2**15 - 1), "int": (-2**31, 2**31 - 1), "integer": (-2**31, 2**31 - 1), "bigint": (-2**63, 2**63 - 1)}


# ---------------------------------------------------------------- IntegerFieldFormat.sql_ansi_type : ('int', magnitude)
def unit_integer_sql_ansi_type():
    def setup(ex, st):
        lo = fresh(Opt(INT), "lower")[0]; hi = fresh(Opt(INT), "upper")[0]
        rng = Ref("Range"); st.heap[rng.oid] = {"_lower_limit": lo, "_upper_limit": hi, "_items": Opaque()}
        self = Ref("IntegerFieldFormat"); st.heap[self.oid] = {"valid_range": rng}
        st.frames[-1].env["self"] = self; st.ghost.update({"lo": lo, "hi": hi})
    OI = sort_of(Opt(INT))
    def magnitude_ok(ex, st):
        r = st.ghost["__result__"]; lo, hi = G(st, "lo"), G(st, "hi")
        if not (isinstance(r, tuple) and len(r) == 2 and r[0] == "int"): return Sym(BOOL, z3.BoolVal(False))
        m = lift(r[1]).z; l, h = OI.val(lo), OI.val(hi)
        # the magnitude covers both limits in the two's-complement sense used by the dialect ladders: -(m+1) <= lower and upper <= m, and it is tight
        adj = lambda v: z3.If(v >= 0, v, -(v + 1))
        return Sym(BOOL, z3.And(-(m + 1) <= l, l <= m, -(m + 1) <= h, h <= m, z3.Or(m == adj(l), m == adj(h)), m >= 0))
    bounded = lambda ex, st: Sym(BOOL, z3.And(z3.Not(OI.is_none(G(st, "lo"))), z3.Not(OI.is_none(G(st, "hi")))))
    def make(ctx):
        known = findings.is_known("K-8", "C19")
        c = Contract("fields.IntegerFieldFormat.sql_ansi_type", setup,
                returns=[Clause(magnitude_ok, "the-reported-magnitude-covers-both-range-limits-and-is-attained", props=["C19"]), Clause(bounded, "only-bounded-ranges-get-a-magnitude", props=["C19"])],
                raises={}, raises_unless={"AssertionError": ((lambda ex, st: Sym(BOOL, z3.Not(bounded(ex, st).z))) if known else None, "K-8")} if known else {},
                expect=["return"], n_loops=0, modifies=[], raises_only_props=["C19", "C10"])
        return {"contract": c, "assumptions": (["known finding K-8: an Integer range that is open on one side makes sql_ansi_type fail an assertion; the escape is demanded absent only for bounded ranges"] if known else [])}
    return ProofUnit("fields.IntegerFieldFormat.sql_ansi_type", "IntegerFieldFormat.sql_ansi_type: ('int', max of the sign-adjusted limits)", ["C19"], make, None)


# ---------------------------------------------------------------- dialect sql_type ladders: capacity of the chosen column type
def capacity_goal(ex, st, dialect, known):
    """for ('int', m) coming from a bounded range [lo, hi] with m its sign-adjusted magnitude: the chosen type can store lo and hi"""
    r = st.ghost["__result__"]; lo, hi, m = G(st, "lo"), G(st, "hi"), G(st, "m")
    if not isinstance(r, tuple) or not isinstance(r[0], str): return z3.BoolVal(False)
    t = r[0]
    if t in CAP:
        a, b = CAP[t]; goal = z3.And(a <= lo, hi <= b)
    elif t in ("decimal", "number"):
        # decimal(p[, 0]) / number(p, 0) holds p digits: p has to be the number of digits of the magnitude (A-INT: a number of d digits is below 10^d)
        p_ = r[1] if len(r) > 1 else None
        # the magnitude is sign adjusted (a lower limit -n arrives as n - 1), so both limits are at most m + 1 in absolute value: p = digits of m + 1 holds them
        goal = z3.BoolVal(False) if p_ is None else (lift(p_).z == z3.Length(z3.IntToStr(m + 1)))
        if len(r) > 2: goal = z3.And(goal, lift(r[2]).z == 0)
    else: goal = z3.BoolVal(False)
    if known:
        if dialect == "Transact-SQL" and t == "tinyint": goal = z3.Or(goal, lo < 0)                                  # K-8 (a): tinyint is unsigned
        if dialect == "ANSI" and t == "int": goal = z3.Or(goal, m > 2**31 - 1)                                       # K-8 (b): ANSI never widens beyond int
    return goal


def unit_dialect_sql_type():
    def setup_for(dialect):
        def setup(ex, st):
            lo = fresh(INT, "lo")[0]; hi = fresh(INT, "hi")[0]; m = fresh(INT, "m")[0]
            adj = lambda v: z3.If(v >= 0, v, -(v + 1))
            st.pc.extend([lo.z <= hi.z, m.z == z3.If(adj(lo.z) >= adj(hi.z), adj(lo.z), adj(hi.z))])
            self = Ref(DIALECTS[dialect]); st.heap[self.oid] = {"_keywords": Opaque()}
            st.frames[-1].env.update({"self": self, "sql_ansi_type": ("int", m)}); st.ghost.update({"lo": lo, "hi": hi, "m": m})
        return setup
    def make(ctx):
        known = findings.is_known("K-8", "C19")
        out = []
        for d in DIALECTS:
            out.append({"contract": Contract("sql.%s.sql_type" % DIALECTS[d], setup_for(d),
                            returns=[Clause(lambda ex, st, d=d: Sym(BOOL, capacity_goal(ex, st, d, known)), "column-type-can-store-both-limits-of-the-bounded-integer-range", props=["C19"])],
                            raises={}, expect=["return"], n_loops=0, modifies=[], raises_only_props=["C19"]),
                        "callees": {"sql.assert_is_valid_ansi_type": ModelContract(lambda ex, st, fn, a, k: iter([(st, None)]))}, "label": d,
                        "assumptions": ["capacities: tinyint 0..255 (unsigned), smallint +-2^15, int/integer +-2^31, bigint +-2^63; decimal(p[,0]) / number(p,0) holds numbers of up to p digits: p must be the digit count of the magnitude (str(int) is SMT-LIB int.to.str for non-negative integers)"]
                                       + (["known finding K-8: excluded regions - Transact-SQL tinyint for a negative lower limit; ANSI keeps 'int' beyond 32 bit"] if known else [])})
        return out
    return ProofUnit("sql.dialect.sql_type", "dialect sql_type ladders: the type chosen for ('int', magnitude) can store both limits, for all integers", ["C19"], make, None)


# ---------------------------------------------------------------- SqlFactory.sql_fields / create_table_statement
FIELD = Abs("Field")


def unit_create_table_statement():
    """Statement shape without full string equality (the full text is compared by the bounded table): ghost code attached to the
    statements that extend the text counts the column definitions and records what each one is made of."""
    ROW6 = Tup(STR, STR, Opt(INT), Opt(INT), BOOL, Opt(STR))
    R = sort_of(ROW6)
    def m_sql_fields(ex, st, recv, args, kw):
        yield st, st.ghost["rows"]
    def m_is_keyword(ex, st, recv, args, kw):
        yield st, Sym(BOOL, ex.absfun_s("is_keyword_of_the_dialect", [z3.StringSort()], z3.BoolSort())(lift(args[0]).z))
    def sf_has_head(ex, st, r):
        t = G(st, "table"); kw_ = ex.absfun_s("is_keyword_of_the_dialect", [z3.StringSort()], z3.BoolSort())(t)
        name = z3.If(kw_, z3.Concat(z3.StringVal('"'), t, z3.StringVal('"')), t)
        return Sym(BOOL, z3.PrefixOf(z3.Concat(z3.StringVal("create table "), name, z3.StringVal(" (\n")), lift(r).z))
    def c_head(ex, st):
        t = G(st, "table"); kw_ = ex.absfun_s("is_keyword_of_the_dialect", [z3.StringSort()], z3.BoolSort())(t)
        name = z3.If(kw_, z3.Concat(z3.StringVal('"'), t, z3.StringVal('"')), t)
        return Sym(BOOL, z3.PrefixOf(z3.Concat(z3.StringVal("create table "), name, z3.StringVal(" (\n")), lift(st.ghost["__result__"]).z))
    def setup(ex, st):
        rows, c = fresh(UFList(ROW6), "rows"); st.pc.extend(c)
        table = fresh(STR, "table")[0]
        self = Ref("SqlFactory"); st.heap[self.oid] = {"_table": table, "_indent": "    ", "_dialect": Ref("Dialect")}
        st.frames[-1].env["self"] = self; st.ghost.update({"rows": rows, "this": self, "table": table, "cols_done": 0, "nn_added": False, "seps_done": 0, "size_kind": 0})
        def after_head(ex_, s):                # the text is begun: 'create table <name> (' with the name quoted iff it is a keyword of the dialect (everything later is appended: result += ...)
            ex_.obligations.append(Obligation("the-statement-begins-with-create-table-and-the-table-name-quoted-iff-it-is-a-keyword-of-the-dialect", s.pc, sf_has_head(ex_, s, s.frames[-1].env["result"]).z, "post", props=["C19"]))
            s.ghost["head_checked"] = True
        ex.stmt_hooks["result = 'create table ' + table + ' (\\n'"] = after_head
        def before_coldef(ex_, s):           # a new column definition starts
            s.ghost["nn_added"] = False; s.ghost["size_kind"] = 0
        ex.stmt_hooks_before["column_def = self._indent + field_name + ' ' + field_type"] = before_coldef
        def after_coldef(ex_, s):
            env = s.frames[-1].env; i = lift(env["_i0"]).z; r = s.ghost["rows"].at(i)
            cd = lift(env["column_def"]).z
            ex_.obligations.append(Obligation("column-definition-starts-with-indent-name-blank-type-of-field-i", s.pc,
                                              cd == z3.Concat(z3.StringVal("    "), R.accessor(0, 0)(r), z3.StringVal(" "), R.accessor(0, 1)(r)), "post", props=["C19"]))
        ex.stmt_hooks["column_def = self._indent + field_name + ' ' + field_type"] = after_coldef
        def size1(ex_, s): s.ghost["size_kind"] = 1
        def size2(ex_, s): s.ghost["size_kind"] = 2
        ex.stmt_hooks["column_def += '(' + str(length) + ')'"] = size1
        ex.stmt_hooks["column_def += '(' + str(length) + ', ' + str(precision) + ')'"] = size2
        def after_nn(ex_, s): s.ghost["nn_added"] = True
        ex.stmt_hooks["column_def += ' not null'"] = after_nn
        def after_sep(ex_, s): s.ghost["seps_done"] = Sym(INT, G(s, "seps_done") + 1)
        ex.stmt_hooks["result += ',\\n'"] = after_sep
        def before_append(ex_, s):
            env = s.frames[-1].env; i = lift(env["_i0"]).z; r = s.ghost["rows"].at(i)
            ex_.obligations.append(Obligation("column-i-is-appended-after-exactly-i-earlier-columns-and-i-separators", s.pc, z3.And(G(s, "cols_done") == i, G(s, "seps_done") == i), "post", props=["C19"]))
            ex_.obligations.append(Obligation("NOT-NULL-appended-exactly-for-fields-not-allowed-to-be-empty", s.pc, z3.BoolVal(bool(s.ghost["nn_added"])) == z3.Not(R.accessor(0, 4)(r)), "post", props=["C19"]))
            typ = R.accessor(0, 1)(r); OIs = sort_of(Opt(INT)); ln = R.accessor(0, 2)(r); pr = R.accessor(0, 3)(r)
            is_int_type = z3.Or(*[typ == t for t in sorted(CAP)])
            want = z3.If(z3.Or(is_int_type, OIs.is_none(ln)), 0, z3.If(OIs.is_none(pr), 1, 2))
            ex_.obligations.append(Obligation("size-suffix:-none-for-integer-types-or-without-length-(length)-without-precision-(length,-precision)-otherwise-also-for-precision-0", s.pc,
                                              z3.IntVal(int(s.ghost.get("size_kind", 0))) == want, "post", props=["C19"]))
            s.ghost["cols_done"] = Sym(INT, G(s, "cols_done") + 1)
        ex.stmt_hooks_before["result += column_def"] = before_append
    def make(ctx):
        c = Contract("sql.SqlFactory.create_table_statement", setup,
                returns=[Clause("cols_done == len(rows)", "exactly-one-column-definition-per-field-in-CID-order", props=["C19"]),
                         Clause(lambda ex, st: Sym(BOOL, z3.SuffixOf(z3.StringVal("\n);"), lift(st.ghost["__result__"]).z)), "statement-is-closed", props=["C19"]),
                         Clause(lambda ex, st: Sym(BOOL, z3.BoolVal(bool(st.ghost.get("head_checked")))), "the-statement-text-is-started-with-create-table-and-the-table-name-(quoted-iff-a-keyword)", props=["C19"])],
                raises={}, loops={0: LoopSpec(invariants=["cols_done == _i0", "seps_done == (0 if _i0 == 0 else _i0 - 1)", "first_field == (_i0 == 0)"],
                                              havoc={"result": STR, "first_field": BOOL, "column_def": STR, "field_name": STR, "field_type": STR, "length": Opt(INT), "precision": Opt(INT), "is_not_null": BOOL, "default_value": Opt(STR)},
                                              ghost_havoc={"cols_done": INT, "seps_done": INT})},
                expect=["return"], n_loops=1, modifies=[])
        return {"contract": c, "callees": {"ref:SqlFactory.sql_fields": m_sql_fields, "ref:Dialect.is_keyword": m_is_keyword, "ref:Dialect.sql_string_escaped": lambda ex, st, recv, a, k: iter([(st, fresh(STR, "escaped")[0])])}, "spec_functions": {"has_head": sf_has_head},
                "assumptions": ["is_keyword of the dialect is used through its contract (verified: sql.is_keyword)", "sql_fields() is used through its contract: one tuple (name, type, length, precision, allowed-to-be-empty, default) per field in CID order (verified: sql.SqlFactory.sql_fields)",
                                "the statement text is constrained through ghost code at the statements that extend it (count and order of column definitions, their beginning, the NOT NULL suffix); the rendering of "
                                "length/precision and the full text are compared by the bounded table C19.table",
                                "the tuple slot the code calls is_not_null carries is_allowed_to_be_empty - the proof follows the data"]}
    return ProofUnit("sql.SqlFactory.create_table_statement", "create_table_statement: one column definition per field in order; starts with name and type; NOT NULL iff not allowed to be empty", ["C19"], make, None)


def unit_sql_fields():
    ATY = Tup(STR, Opt(INT), Opt(INT))
    def m_sql_ansi_type(ex, st, recv, args, kw):
        f = ex.absfun_s("ansi_type_of", [sort_of(FIELD)], sort_of(ATY))(recv.z); A = sort_of(ATY)
        yield st, (Sym(STR, A.accessor(0, 0)(f)), Sym(Opt(INT), A.accessor(0, 1)(f)), Sym(Opt(INT), A.accessor(0, 2)(f)))
    def m_dialect_sql_type(ex, st, recv, args, kw):
        t = args[0]; D = sort_of(ATY); g = ex.absfun_s("dialect_type", [sort_of(ATY)], sort_of(ATY))(D.mk(lift(t[0]).z, lift_to(Opt(INT), t[1]), lift_to(Opt(INT), t[2])))
        yield st, (Sym(STR, D.accessor(0, 0)(g)), Sym(Opt(INT), D.accessor(0, 1)(g)), Sym(Opt(INT), D.accessor(0, 2)(g)))
    def m_is_keyword(ex, st, recv, args, kw):
        yield st, Sym(BOOL, ex.absfun_s("is_keyword", [z3.StringSort()], z3.BoolSort())(lift(args[0]).z))
    def absattr(name, ty):
        return lambda ex, st, recv: Sym(ty, ex.absfun_s("field_" + name, [sort_of(FIELD)], sort_of(ty))(recv.z))
    def setup(ex, st):
        fields, c = fresh(UFList(FIELD), "fields"); st.pc.extend(c)
        cid = Ref("Cid"); st.heap[cid.oid] = {"_field_formats": fields}
        self = Ref("SqlFactory"); st.heap[self.oid] = {"_cid": cid, "_dialect": Ref("Dialect")}
        st.frames[-1].env["self"] = self; st.ghost.update({"fields": fields, "n_yield": 0})
        def hook(s, v):
            i = lift(s.frames[-1].env["_i0"]).z; f = s.ghost["fields"].at(i)
            name = ex.absfun_s("field_field_name", [sort_of(FIELD)], z3.StringSort())(f); kw = ex.absfun_s("is_keyword", [z3.StringSort()], z3.BoolSort())(name)
            A = sort_of(ATY); g = ex.absfun_s("dialect_type", [sort_of(ATY)], sort_of(ATY))(ex.absfun_s("ansi_type_of", [sort_of(FIELD)], sort_of(ATY))(f))
            ok_ = isinstance(v, tuple) and len(v) == 6
            goal = z3.BoolVal(False)
            if ok_:
                goal = z3.And(lift(v[0]).z == z3.If(kw, z3.Concat(z3.StringVal('"'), name, z3.StringVal('"')), name),
                              lift(v[1]).z == A.accessor(0, 0)(g), lift_to(Opt(INT), v[2]) == A.accessor(0, 1)(g), lift_to(Opt(INT), v[3]) == A.accessor(0, 2)(g),
                              lift(v[4]).z == ex.absfun_s("field_is_allowed_to_be_empty", [sort_of(FIELD)], z3.BoolSort())(f), G(s, "n_yield") == i)
            ex.obligations.append(Obligation("sql_fields/yields-one-tuple-per-field-in-order:-(quoted-iff-keyword)-name-dialect-type-of-the-field's-ansi-type-empty-flag", s.pc, goal, "post", props=["C19"]))
            s.ghost["n_yield"] = Sym(INT, G(s, "n_yield") + 1)
        ex.yield_hook = hook
    def make(ctx):
        c = Contract("sql.SqlFactory.sql_fields", setup, returns=[Clause("n_yield == len(fields)", "exactly-one-column-per-field", props=["C19"])], raises={},
                     loops={0: LoopSpec(invariants=["n_yield == _i0"], havoc={"field": FIELD, "sql_type": STR, "sql_length": Opt(INT), "sql_precision": Opt(INT), "field_name": STR, "row": Tup(STR)}, ghost_havoc={"n_yield": INT})},
                     expect=["return"], n_loops=1, modifies=[])
        return {"contract": c, "callees": {"abs:Field.sql_ansi_type": AbsContract(m_sql_ansi_type), "ref:Dialect.sql_type": m_dialect_sql_type, "ref:Dialect.is_keyword": m_is_keyword,
                                           "absattr:Field.field_name": absattr("field_name", STR), "absattr:Field.is_allowed_to_be_empty": absattr("is_allowed_to_be_empty", BOOL),
                                           "absattr:Field.empty_value": absattr("empty_value", Opt(STR)),
                                           "sql.assert_is_valid_ansi_type": ModelContract(lambda ex, st, fn, a, k: iter([(st, None)]))},
                "assumptions": ["field formats and the dialect are abstract: sql_ansi_type / sql_type / is_keyword are uninterpreted functions here and have their own contracts"]}
    return ProofUnit("sql.SqlFactory.sql_fields", "sql_fields: one tuple per field in order, name quoted iff keyword, type through the dialect", ["C19"], make, None)


# reserved words spot-checked against the vendors' documentation: each word is reserved in the dialects it is listed under and in no other of the four
# (ORDER is reserved in all four: Oracle's list has it too - the table in sql.py had it glued to the next word, see F-15)
KEYWORD_SPOT = {"ANSI": "select table order group year level key user date value", "DB2": "index plan cluster select table order group year comment key user value type label summary",
                "Transact-SQL": "file index top percent plan select table order group key user", "PL/SQL": "file user index cluster nowait mode share select table order group year level comment date value type hash"}

# reserved words a dialect's vendor lists with a footnote mark (IBM's Db2 table prints 'FIRST 1', 'SYSDATE 1', 'END-EXEC 2'): reserved all the same; other dialects may or may not reserve them
KEYWORD_ALSO = {"DB2": "first last next old prior sysdate systimestamp currval organization period end-exec",
                # reserved words of Oracle SQL (SQL Language Reference, appendix 'Oracle SQL Reserved Words') that are no reserved words of the PL/SQL language
                "PL/SQL": "number column integer rowid rownum varchar varchar2 smallint sysdate uid session access audit trigger validate whenever rows column_value nested_table_id"}
# real keywords that end in a digit (Oracle): every other entry 'word<digit>' of a keyword table is a footnote mark glued to the word
KEYWORDS_ENDING_IN_A_DIGIT = {"like2", "like4", "sb1", "sb2", "sb4", "ub1", "ub2", "ub4", "varchar2", "nvarchar2", "utf8", "int1", "int2", "int4", "int8", "float4", "float8"}


def unit_is_keyword():
    def make(ctx):
        out = []
        for d, cname in DIALECTS.items():
            def setup(ex, st, cname=cname):
                info = S.find_class(cname)
                res = list(ex.instantiate(st, info, [], {}))
                assert len(res) == 1 and not isinstance(res[0][1], Raise)
                obj = res[0][1]; word = fresh(STR, "word")[0]
                st.frames[-1].env.update({"self": obj, "word": word}); st.ghost.update({"word": word, "this": obj})
            def post(ex, st):
                kws = st.heap[st.ghost["this"].oid]["_keywords"]; low = ex.absfun_s("str_lower", [z3.StringSort()], z3.StringSort())(G(st, "word"))
                return Sym(BOOL, lift(st.ghost["__result__"]).z == z3.Or(*[low == k for k in sorted(kws)]))
            def spot(ex, st, d=d):
                kws = set(st.heap[st.ghost["this"].oid]["_keywords"]); allw = set(" ".join(KEYWORD_SPOT.values()).split()); mine = set(KEYWORD_SPOT[d].split())
                import re as _re
                also = set(KEYWORD_ALSO.get(d, "").split()); glued = {k for k in kws if _re.fullmatch(r".*[a-z][0-9]+", k)} - KEYWORDS_ENDING_IN_A_DIGIT
                return Sym(BOOL, z3.BoolVal(mine <= kws and not ((allw - mine) & kws) and also <= kws and not glued))
            out.append({"contract": Contract("sql.AnsiSqlDialect.is_keyword", setup, returns=[Clause(spot, "the-keyword-set-the-constructor-builds-is-this-dialect's:-it-holds-the-dialect's-reserved-words-of-the-spot-lists-none-reserved-only-elsewhere-and-no-word-with-a-footnote-digit-glued-to-it", props=["C19"]), Clause(post, "a-name-is-a-keyword-iff-its-lower-case-form-is-in-the-dialect's-keyword-set-(SQL-keywords-are-case-insensitive)", props=["C19"])],
                                             raises={}, expect=["return"], n_loops=0, modifies=[]), "label": d})
        return out
    return ProofUnit("sql.is_keyword", "is_keyword of the four dialects: case-insensitive membership in the dialect's keyword set (set built by the real constructor)", ["C19"], make, None, timeout=900)


# ---------------------------------------------------------------- native: boundary table end to end, and the K-8 witnesses
def ddl_for(rule, dialect, extra_fields=""):
    from cutplace import interface, sql
    cid = interface.create_cid_from_string("d,format,delimited\nf,n,,,,Integer,%s\n%s" % (rule, extra_fields))
    return sql.SqlFactory(cid, "t", sql.SQL_NAME_TO_DIALECT_MAP[dialect]).create_table_statement()


SHAPE_CID = 'd,format,delimited\nf,id,,,,Integer,0...99\nf,select,,x,...20,Text\nf,amount,,,,Decimal,-99.999...123.45\nf,kind,,x,2,Choice,"aa,bb"\nf,born,,,,DateTime,DD.MM.YYYY\nf,Table,,x,...5,Text\nf,weight,,,,Decimal,-12345...12345\n'
HISTORY_CID = 'd,format,delimited\n' + "".join("f,%s,,x,,Text\n" % n for n in ("customer_id", "index", "year", "order", "level", "comment", "uid", "number", "percent", "text", "value", "key", "user", "date", "select"))


def unit_c19_table():
    def run(ctx):
        import re
        bounds = sorted({s * (b + d) for b in (2**7, 2**8, 2**15, 2**16, 2**31, 2**32, 2**63) for d in (-1, 0, 1) for s in (1, -1)} | {0, 1, -1}
                        | {s * (10**k + d) for k in (10, 19, 20) for d in (-1, 0, 1) for s in (1, -1)})          # powers of ten: where the number of digits changes
        known = findings.is_known("K-8", "C19")
        def cases():
            for d in DIALECTS:
                for lo in bounds:
                    for hi in bounds:
                        if lo <= hi: yield (d, lo, hi)
        stats = {"known": 0}
        def check(c):
            d, lo, hi = c
            try: ddl = ddl_for('"%d...%d"' % (lo, hi), d)
            except Exception as e: return {"expected": "a CREATE TABLE statement", "observed": repr(e)}
            m = re.search(r"^\s+n (\w+)(\(\d+(, \d+)?\))? not null$", ddl, re.M)
            if not m: return {"expected": "one column n <type> not null", "observed": ddl}
            t = m.group(1)
            if t in CAP and m.group(2): return {"expected": "the integer type %s without a size suffix (an integer column has no length)" % t, "observed": m.group(0).strip()}
            if t in CAP:
                a, b = CAP[t]
                if not (a <= lo and hi <= b):
                    if known and ((d == "Transact-SQL" and t == "tinyint" and lo < 0) or (d == "ANSI" and t == "int")): stats["known"] += 1; return None
                    return {"expected": "a %s type able to store %d and %d" % (d, lo, hi), "observed": t}
            elif t not in ("decimal", "number"): return {"expected": "a numeric column type", "observed": t}
            else:
                # decimal(p[, 0]) / number(p, 0): p digits, i.e. values up to 10^p - 1 - enough for both limits, and no more digits than the larger limit has
                p_ = int(re.match(r"\((\d+)", m.group(2)).group(1)) if m.group(2) else None
                digits = max(len(str(abs(lo))), len(str(abs(hi))))
                if p_ is None or not (10 ** min(p_, 400) > max(abs(lo), abs(hi)) and p_ <= digits + 1):
                    return {"expected": "%s(%d) - as many digits as the larger limit has (one to spare at most)" % (t, digits), "observed": m.group(0).strip()}
            return None
        r1 = sweep("C19/table/integer ranges at every type boundary", cases(), check, "bounded",
                   "4 dialects x all pairs lo <= hi over {+-(2^7, 2^8, 2^15, 2^16, 2^31, 2^32, 2^63) +- 1, 0, +-1}" + (" (regions of known finding K-8 excluded)" if known else ""),
                   describe=lambda c: {"dialect": c[0], "range": "%d...%d" % (c[1], c[2])}, function="sql.SqlFactory.create_table_statement", unit="C19.table")
        # shape: one column per field in CID order, keyword quoting, NOT NULL, decimal digits, text length
        def shape_cases():
            for d in DIALECTS: yield d
        def shape_check(d):
            from cutplace import interface, sql
            cid = interface.create_cid_from_string(SHAPE_CID)
            ddl = sql.SqlFactory(cid, "t", sql.SQL_NAME_TO_DIALECT_MAP[d]).create_table_statement()
            lines = [l.strip().rstrip(",") for l in ddl.splitlines()[1:-1]]
            names = [l.split(" ")[0] for l in lines]
            if names != ["id", '"select"', "amount", "kind", "born", '"Table"', "weight"]: return {"expected": "columns id, \"select\", amount, kind, born, \"Table\", weight in CID order (keywords quoted whatever their case)", "observed": names}
            nn = [l.endswith("not null") for l in lines]
            if nn != [True, False, True, False, True, False, True]: return {"expected": "NOT NULL exactly for id, amount, born, weight", "observed": lines}
            if "(5, 0)" not in lines[6] and "(5)" not in lines[6]: return {"expected": "decimal column for -12345...12345 with 5 digits and 0 fractional digits", "observed": lines[6]}
            if "(6, 3)" not in lines[2]: return {"expected": "decimal column with 6 total and 3 fractional digits", "observed": lines[2]}
            if "(20)" not in lines[1] or "(2)" not in lines[3]: return {"expected": "text columns with their upper length limit 20 / 2", "observed": (lines[1], lines[3])}
            # limits of multi-item rules whose items are not in ascending order (the overall limits are the minimum / maximum over all items)
            cid2 = interface.create_cid_from_string('d,format,delimited\nf,code,,,,Integer,"40000...50000, 1...10"\nf,title,,x,"20...30, 1...5",Text\nf,low,,,,Integer,"5...9, -40000...-30000"\n')
            l2 = [l.strip().rstrip(",") for l in sql.SqlFactory(cid2, "t", sql.SQL_NAME_TO_DIALECT_MAP[d]).create_table_statement().splitlines()[1:-1]]
            if "(30)" not in l2[1]: return {"expected": "text column of length 30 for the length '20...30, 1...5'", "observed": l2[1]}
            for line, (lo, hi) in ((l2[0], (1, 50000)), (l2[2], (-40000, 9))):
                t = line.split(" ")[1].split("(")[0]
                if t in CAP and not (CAP[t][0] <= lo and hi <= CAP[t][1]): return {"expected": "a %s type able to store %d and %d" % (d, lo, hi), "observed": line}
            return None
        r2 = sweep("C19/table/statement shape per dialect", shape_cases(), shape_check, "bounded", "one 7-field CID (keyword names in lower and mixed case, empty flags, decimal rules with and without fractional digits, lengths) x 4 dialects", function="sql.SqlFactory", unit="C19.table")
        res = [r1, r2]
        # the statement of a dialect does not depend on which statements were generated before it in the same process
        def history_check(d):
            import subprocess, sys, os, cutplace
            from cutplace import interface, sql
            root = os.path.dirname(os.path.dirname(os.path.abspath(cutplace.__file__)))
            code = ("import sys, warnings; warnings.simplefilter('ignore'); sys.path.insert(0, %r)\nfrom cutplace import interface, sql\n"
                    "cid = interface.create_cid_from_string(%r)\nsys.stdout.write(sql.SqlFactory(cid, 't', sql.SQL_NAME_TO_DIALECT_MAP[%r]).create_table_statement())" % (root, HISTORY_CID, d))
            fresh = subprocess.run([sys.executable, "-W", "ignore", "-c", code], capture_output=True, text=True, timeout=120)
            if fresh.returncode != 0: return {"expected": "a statement from a fresh process", "observed": fresh.stderr[-400:]}
            cid = interface.create_cid_from_string(HISTORY_CID)
            for other in DIALECTS:
                if other != d: sql.SqlFactory(cid, "t", sql.SQL_NAME_TO_DIALECT_MAP[other]).create_table_statement()
            later = sql.SqlFactory(cid, "t", sql.SQL_NAME_TO_DIALECT_MAP[d]).create_table_statement()
            if later != fresh.stdout: return {"expected": "the %s statement of a fresh process: %r" % (d, fresh.stdout), "observed": "after generating the other dialects' statements first: %r" % later}
            return None
        res.append(sweep("C19/table/a dialect's statement does not depend on statements generated before", shape_cases(), history_check, "bounded",
                         "4 dialects: statement in a fresh process vs after the three other dialects in one process; field names that are keywords in only some dialects", function="sql.SqlFactory", unit="C19.table"))
        # keyword membership, spot-checked against the vendors' reserved-word lists (independent of the tables built by the dialect constructors)
        SPOT = KEYWORD_SPOT
        WORDS = sorted(set(" ".join(SPOT.values()).split()) | {"customer_id", "surname", "amount"})
        def spot_check(d):
            from cutplace import interface, sql
            cid = interface.create_cid_from_string("d,format,delimited\n" + "".join("f,%s,,x,,Text\n" % (w.title() if i % 3 == 0 else w) for i, w in enumerate(WORDS)))
            ddl = sql.SqlFactory(cid, "t", sql.SQL_NAME_TO_DIALECT_MAP[d]).create_table_statement()
            names = [l.strip().split(" ")[0] for l in ddl.splitlines()[1:-1]]
            want = [('"%s"' % n) if n.lower() in SPOT[d].split() else n for n in [(w.title() if i % 3 == 0 else w) for i, w in enumerate(WORDS)]]
            # the table name is a name, too
            for tname, quoted in (("order", True), ("customers", False), ("Select", True)):
                head = sql.SqlFactory(cid, tname, sql.SQL_NAME_TO_DIALECT_MAP[d]).create_table_statement().splitlines()[0]
                want_head = "create table %s (" % (('"%s"' % tname) if quoted else tname)
                if head != want_head: return {"expected": want_head, "observed": head}
            # words the vendor lists with a footnote mark are quoted as well
            also = KEYWORD_ALSO.get(d, "").replace("end-exec", "").split()
            if also:
                cid2 = interface.create_cid_from_string("d,format,delimited\n" + "".join("f,%s,,x,,Text\n" % w for w in also))
                got2 = [l.strip().split(" ")[0] for l in sql.SqlFactory(cid2, "t", sql.SQL_NAME_TO_DIALECT_MAP[d]).create_table_statement().splitlines()[1:-1]]
                if got2 != ['"%s"' % w for w in also]: return {"expected": "%s quotes %r" % (d, also), "observed": got2}
            return None if names == want else {"expected": "%s quotes exactly its reserved words: %r" % (d, [n for n in want if n.startswith('"')]), "observed": [n for n in names if n.startswith('"')]}
        res.append(sweep("C19/table/reserved words of each dialect (spot list from the vendors' documentation) are quoted, other names are not", shape_cases(), spot_check, "bounded",
                         "%d field names (30 reserved in some dialect but not in others, 3 reserved nowhere; mixed case) x 4 dialects" % len(WORDS), function="sql.SqlFactory + dialect keyword tables", unit="C19.table"))
        # the command line's --create writes the same statement whatever container the CID is stored in (csv, ods, xlsx)
        def create_cases():
            for ext in ("csv", "ods", "xlsx"): yield ext
        def create_check(ext):
            import tempfile, shutil, contextlib, io, os, logging
            from cutplace import interface, sql, applications
            from .rowio_ods import encode_ods, write_ods
            rows = [r.split(",") for r in SHAPE_CID.replace('"aa,bb"', "aa;bb").strip().split("\n")]
            rows = [[c.replace("aa;bb", "aa,bb") for c in r] for r in rows]
            tmp = tempfile.mkdtemp(prefix="vf_c19_")
            try:
                p = os.path.join(tmp, "customers." + ext)
                if ext == "csv":
                    import csv
                    with open(p, "w", newline="", encoding="utf-8") as f: csv.writer(f).writerows(rows)
                elif ext == "ods": write_ods(p, encode_ods([rows], set()))
                else:
                    import xlsxwriter
                    wb = xlsxwriter.Workbook(p); ws = wb.add_worksheet(); [ws.write_string(y, x, v) for y, r in enumerate(rows) for x, v in enumerate(r)]; wb.close()
                cid = interface.Cid(p); want = sql.SqlFactory(cid, "customers").create_table_statement()
                logging.getLogger("cutplace").setLevel(logging.CRITICAL)
                with contextlib.redirect_stderr(io.StringIO()), contextlib.redirect_stdout(io.StringIO()):
                    rc = applications.main(["cutplace", "--create", p])
                out = os.path.join(tmp, "customers_create.sql")
                if rc != 0 or not os.path.exists(out): return {"expected": "exit code 0 and customers_create.sql", "observed": "exit code %r, file written: %s" % (rc, os.path.exists(out))}
                got = open(out, encoding="utf-8").read()
                return None if got == want else {"expected": want, "observed": got}
            finally: shutil.rmtree(tmp, ignore_errors=True)
        res.append(sweep("C19/cli/--create writes the statement of the CID whatever container it is stored in", create_cases(), create_check, "bounded", "the shape CID stored as csv, ods and xlsx",
                         function="sql.write_create / applications.process", unit="C19.table", props=["C19", "C17"]))
        # default clauses: a column gets one exactly when its field has a non-empty empty value; a number as it is, a text as a quoted SQL string
        def default_cases():
            yield (0, " default 0"); yield ("it's", " default 'it''s'"); yield ("", ""); yield (None, "")
        def default_check(c):
            from cutplace import interface, sql, fields
            ev, want = c
            cid = interface.create_cid_from_string("d,format,delimited\nf,a\n")
            cls = fields.IntegerFieldFormat if isinstance(ev, int) else fields.TextFieldFormat
            cid.add_field_format(cls("b", True, "", "", cid.data_format, empty_value=ev))
            try: line = sql.SqlFactory(cid, "t").create_table_statement().splitlines()[2]
            except Exception as e: return {"expected": "a CREATE TABLE statement", "observed": "%s: %s" % (type(e).__name__, e)}
            return None if line.strip().endswith(("b int" if isinstance(ev, int) else "b varchar") + want) else {"expected": "column b ...%r" % want, "observed": line.strip()}
        res.append(sweep("C19/table/default clauses", default_cases(), default_check, "bounded", "empty values 0, \"it's\", '' and None", describe=lambda c: {"empty_value": c[0]}, function="sql.SqlFactory.create_table_statement", unit="C19.table"))
        # K-8 witnesses
        w = []
        try:
            if "tinyint" in ddl_for('"-5...5"', "Transact-SQL"): w.append("Transact-SQL chooses tinyint (0..255) for -5...5")
        except Exception as e: w.append("Transact-SQL -5...5: %r" % e)
        try:
            if re.search(r" n int not null", ddl_for('"0...%d"' % 2**40, "ANSI")): w.append("ANSI keeps int for 0...2^40")
        except Exception as e: w.append("ANSI 0...2^40: %r" % e)
        try: ddl_for('"5..."', "ANSI")
        except AssertionError: w.append("an Integer range open above makes sql_ansi_type fail an assertion")
        except Exception as e: w.append("open range: %r" % e)
        if w:
            res.append(Result("C19/K-8 witnesses: " + "; ".join(w), "bounded", FAILED, "native", finding="K-8", cases=3, detail="; ".join(w),
                              replay={"verdict": "confirmed", "input": "Integer rules -5...5 (Transact-SQL), 0...2^40 (ANSI), 5... (any)", "expected": "types able to store the limits / a statement", "observed": "; ".join(w)}))
        return res
    return NativeUnit("C19.table", "bounded boundary table of integer column types, statement shape, and the witnesses of recorded finding K-8", ["C19"], run, kind="bounded")


# ---------------------------------------------------------------- the other sql_ansi_type methods and the shape assertion
def unit_other_sql_ansi_types():
    OI = sort_of(Opt(INT))
    def make(ctx):
        def setup_text(ex, st):
            hi = fresh(Opt(INT), "upper")[0]
            rng = Ref("Range"); st.heap[rng.oid] = {"_lower_limit": fresh(Opt(INT), "lower")[0], "_upper_limit": hi, "_items": Opaque()}
            self = Ref("TextFieldFormat"); st.heap[self.oid] = {"_length": rng}
            st.frames[-1].env["self"] = self; st.ghost.update({"hi": hi})
        def c_text(ex, st):
            r = st.ghost["__result__"]
            if not (isinstance(r, tuple) and len(r) == 2 and r[0] == "varchar"): return Sym(BOOL, z3.BoolVal(False))
            return Sym(BOOL, lift_to(Opt(INT), r[1]) == G(st, "hi"))
        def setup_dec(ex, st):
            p = fresh(INT, "precision")[0]; s = fresh(INT, "scale")[0]
            self = Ref("DecimalFieldFormat"); st.heap[self.oid] = {"_precision": p, "_scale": s}
            st.frames[-1].env["self"] = self; st.ghost.update({"p": p, "s": s})
        def c_dec(ex, st):
            r = st.ghost["__result__"]
            if not (isinstance(r, tuple) and len(r) == 3 and r[0] == "decimal"): return Sym(BOOL, z3.BoolVal(False))
            return Sym(BOOL, z3.And(lift(r[1]).z == G(st, "s"), lift(r[2]).z == G(st, "p")))
        def setup_date(ex, st):
            self = Ref("DateTimeFieldFormat"); st.heap[self.oid] = {}; st.frames[-1].env["self"] = self
        c_date = lambda ex, st: Sym(BOOL, z3.BoolVal(st.ghost["__result__"] == ("date",)))
        return [{"contract": Contract("fields.AbstractFieldFormat.sql_ansi_type", setup_text, returns=[Clause(c_text, "a-text-like-field-is-a-varchar-of-the-length's-upper-limit", props=["C19"])], raises={}, expect=["return"], modifies=[], raises_only_props=["C19", "C10"]), "label": "text"},
                {"contract": Contract("fields.DecimalFieldFormat.sql_ansi_type", setup_dec, returns=[Clause(c_dec, "a-decimal-field-reports-('decimal',-scale,-precision)-of-its-rule", props=["C19"])], raises={}, expect=["return"], modifies=[], raises_only_props=["C19", "C10"]), "label": "decimal"},
                {"contract": Contract("fields.DateTimeFieldFormat.sql_ansi_type", setup_date, returns=[Clause(c_date, "a-date-field-is-a-date-column", props=["C19"])], raises={}, expect=["return"], modifies=[], raises_only_props=["C19", "C10"]), "label": "date"}]
    return ProofUnit("fields.sql_ansi_type", "sql_ansi_type of text-like, Decimal and DateTime fields", ["C19"], make, None)


def unit_assert_is_valid_ansi_type():
    """the shapes produced by the four sql_ansi_type methods never fail the assertions of assert_is_valid_ansi_type"""
    def mk(label, build):
        def setup(ex, st):
            st.frames[-1].env["ansi_type"] = build(ex, st)
        c = Contract("sql.assert_is_valid_ansi_type", setup, returns=[], raises={}, loops={0: Unroll(3)}, expect=["return"], raises_only_props=["C19", "C10"])
        return {"contract": c, "label": label}
    def nonneg(st, hint):
        v = fresh(INT, hint)[0]; st.pc.append(v.z >= 0); return v
    def make(ctx):
        return [mk("('varchar', n)", lambda ex, st: ("varchar", nonneg(st, "n"))), mk("('varchar', None)", lambda ex, st: ("varchar", None)),
                mk("('int', m)", lambda ex, st: ("int", nonneg(st, "m"))), mk("('date',)", lambda ex, st: ("date",)),
                mk("('decimal', s, p)", lambda ex, st: ("decimal", nonneg(st, "s"), nonneg(st, "p")))]
    return ProofUnit("sql.assert_is_valid_ansi_type", "assert_is_valid_ansi_type: no assertion fails for the type tuples the built-in fields produce (non-negative sizes)", ["C19", "C10"], make, None)
