"""C17: the storage format of CID and data does not change the verdict."""
import ast, io, itertools, os, z3
from .common import *
from pyvc import source as S
from vf import findings
from vf.unit import ProofUnit, NativeUnit, Oracle, sweep
from vf.model import *


# ---------------------------------------------------------------- structural: every data-format attribute a field format reads exists for every format
def unit_attribute_existence():
    def run(ctx):
        dmod = S.module("data"); fmod = S.module("fields")
        init = dmod.classes["DataFormat"].methods["__init__"]
        # attributes assigned unconditionally vs under a format guard, read from the AST of DataFormat.__init__
        per_format = {}
        def assigned(stmts, guard):
            for n in stmts:
                if isinstance(n, ast.Assign):
                    for t in n.targets:
                        if isinstance(t, ast.Attribute) and isinstance(t.value, ast.Name) and t.value.id == "self":
                            for f in guard: per_format.setdefault(f, set()).add(t.attr)
                elif isinstance(n, ast.If):
                    g = guard_formats(n.test)
                    assigned(n.body, [f for f in guard if g is None or f in g])
                    rest = [f for f in guard if g is None or f not in g]
                    if n.orelse: assigned(n.orelse, rest if not (len(n.orelse) == 1 and isinstance(n.orelse[0], ast.If)) else rest)
        consts = {"FORMAT_DELIMITED": "delimited", "FORMAT_EXCEL": "excel", "FORMAT_FIXED": "fixed", "FORMAT_ODS": "ods"}
        def guard_formats(test):
            src = ast.unparse(test)
            if "self.format" not in src and "format_name" not in src: return None
            found = [v for k, v in consts.items() if k in src]
            return found or None
        assigned(init.body, ["delimited", "excel", "fixed", "ods"])
        props = dmod.classes["DataFormat"].properties
        res = []
        problems = []
        for cname, cls in fmod.classes.items():
            for mname, m in list(cls.methods.items()):
                for node in ast.walk(m):
                    if isinstance(node, ast.Attribute) and isinstance(node.ctx, ast.Load):
                        base = ast.unparse(node.value)
                        if base in ("data_format", "self.data_format", "self._data_format") and node.attr in props and not node.attr.endswith("@setter"):
                            attr = "_" + node.attr
                            missing = [f for f in per_format if attr not in per_format[f]]
                            if missing and not guarded(m, node, missing, consts): problems.append((cname, mname, node.attr, missing))
        res.append(Result("struct/every-data-format-property-read-by-a-field-format-exists-for-every-format-it-is-read-under", "struct", PASSED if not problems else FAILED, "ast", function="fields.*FieldFormat / data.DataFormat.__init__",
                          detail="per-format attributes: %s; unguarded reads: %r" % ({k: sorted(v) for k, v in per_format.items()}, problems),
                          replay=None if not problems else {"verdict": "confirmed", "input": "class definitions in fields.py and DataFormat.__init__", "expected": "no read of a property that a format does not define", "observed": problems}))
        return res
    def guarded(method, node, missing, consts):
        """the read sits inside an `if data_format.format in (...)` / `== ...` branch that excludes the formats lacking the attribute"""
        for n in ast.walk(method):
            if isinstance(n, ast.If) and any(sub is node for b in n.body for sub in ast.walk(b)):
                src = ast.unparse(n.test)
                if "format" in src:
                    allowed = [v for k, v in consts.items() if k in src]
                    if allowed and not any(f in allowed for f in missing): return True
        return False
    return NativeUnit("C17.attribute-existence", "structural obligation: field formats only read data-format properties that exist for the format at hand", ["C17", "C10"], run, kind="struct")


# ---------------------------------------------------------------- auto_rows: reader chosen by suffix
def unit_auto_rows():
    def make(ctx):
        out = []
        for suffix, want in ((".ods", "ods_rows"), (".ODS", "ods_rows"), (".Ods", "ods_rows"), (".xls", "excel_rows"), (".xlsx", "excel_rows"), (".XLSX", "excel_rows"), (".Xls", "excel_rows"), (".csv", "delimited_rows"), (".CSV", "delimited_rows"), ("", "delimited_rows")):
            def setup(ex, st, suffix=suffix):
                st.frames[-1].env["source"] = "some/folder/cid" + suffix; st.ghost.update({"called": None})
            def rec(name):
                def m(ex, st, fn, args, kw):
                    st.ghost["called"] = (name, list(args)); r = Ref("Rows"); st.ghost["rows_obj"] = r; yield st, r
                return ModelContract(m)
            def ok_(ex, st, want=want, suffix=suffix):
                c = st.ghost["called"]
                good = c is not None and c[0] == want and c[1][0] == "some/folder/cid" + suffix and st.ghost["__result__"] is st.ghost.get("rows_obj")
                if good and want == "delimited_rows":
                    df = c[1][1]; o = st.heap[df.oid]
                    good = o.get("_format") == "delimited" and o.get("_encoding") == "utf-8" and o.get("_item_delimiter") == "," and o.get("_is_valid") is True
                return Sym(BOOL, z3.BoolVal(bool(good)))
            out.append({"contract": Contract("rowio.auto_rows", setup, returns=[Clause(ok_, "reader-chosen-by-suffix:-ods-/-xls(x)-/-otherwise-comma-delimited-UTF-8", props=["C17"])], raises={}, expect=["return"], n_loops=0),
                        "callees": {"rowio.ods_rows": rec("ods_rows"), "rowio.excel_rows": rec("excel_rows"), "rowio.delimited_rows": rec("delimited_rows"),
                                    "builtin:codecs.lookup": lambda ex, st, fn, a, k: iter([(st, Opaque())]), "_tools.human_readable_list": ModelContract(m_opaque_str)},
                        "label": "suffix %r" % suffix})
        return out
    return ProofUnit("rowio.auto_rows", "auto_rows: storage format of a CID chosen by file suffix; the delimited default is UTF-8 / comma (real DataFormat code executed)", ["C17"], make, None)


# ---------------------------------------------------------------- bounded: 3 x 3 storage combinations
def unit_storage_sweep():
    def run(ctx):
        import tempfile, shutil, xlsxwriter
        from cutplace import interface, validio, errors
        from .rowio_ods import encode_ods, write_ods
        from .interface import describe_cid
        tmp = tempfile.mkdtemp(prefix="vf_c17_"); n = [0]; res = []
        try:
            def store(rows, kind, stem):
                n[0] += 1; p = os.path.join(tmp, "%s%d.%s" % (stem, n[0], {"csv": "csv", "ods": "ods", "xlsx": "xlsx"}[kind]))
                width = max(len(r) for r in rows)
                if kind == "csv":
                    import csv
                    with open(p, "w", encoding="utf-8", newline="") as f: csv.writer(f).writerows(rows)
                elif kind == "ods": write_ods(p, encode_ods([[r + [""] * (width - len(r)) for r in rows]], {"col_runs"}))
                else:
                    wb = xlsxwriter.Workbook(p); ws = wb.add_worksheet()
                    for y, r in enumerate(rows):
                        for x, v in enumerate(r): ws.write_string(y, x, v)
                    wb.close()
                return p
            def cid_rows(fmt):
                rows = [["d", "format", fmt]] + ([["d", "encoding", "utf-8"]] if fmt == "delimited" else [])
                rows += [["f", "id", "", "", "1...5", "Integer", "0...99999"], ["f", "name", "", "x", "...6", "Text", ""], ["f", "kind", "", "", "", "Choice", "a, b"], ["f", "amount", "", "x", "", "Decimal", "0...100"],
                         ["f", "born", "", "x", "", "DateTime", "DD.MM.YYYY"], ["f", "code", "", "x", "", "Pattern", "a?*"], ["f", "twin", "ab1", "x", "", "Pattern", "a?*"], ["f", "ab", "ab", "x", "", "Choice", "ab, cd"], ["f", "city", "Z\u00fcrich", "x", "", "Choice", "Z\u00fcrich, Krak\u00f3w, \u20ac"],
                         ["c", "u", "IsUnique", "id"]]
                return rows
            # (1) the same CID contents stored three ways load into equivalent interfaces
            def cid_cases():
                for fmt in ("delimited", "excel", "ods"): yield fmt
            def cid_check(fmt):
                descs = {}
                for kind in ("csv", "ods", "xlsx"):
                    try: descs[kind] = describe_cid(interface.Cid(store(cid_rows(fmt), kind, "cid")))
                    except Exception as e: return {"expected": "CID stored as %s loads" % kind, "observed": repr(e)}
                if not (descs["csv"] == descs["ods"] == descs["xlsx"]): return {"expected": descs["csv"], "observed": {k: v for k, v in descs.items() if v != descs["csv"]}}
                return None
            res.append(sweep("C17/storage/the same CID stored as CSV, ODS and Excel loads into equivalent interfaces", cid_cases(), cid_check, "bounded", "3 CIDs (formats delimited / excel / ods; 6 field types, 1 check) x storage {csv, ods, xlsx}",
                             describe=lambda f: {"cid_format": f}, function="interface.Cid + rowio.auto_rows", unit="C17.storage", props=["C17"]))
            # (2) the same table stored three ways gets the same verdicts and values
            good = ["17", "abc", "a", "1.5", "31.12.2020", "ab1", "ab1", "ab", "Krak\u00f3w"]      # adjacent equal cells: stored as column runs by the ODF encoder
            variants = [("id", 0, ["x", "123456", "-1", "", "17 "]), ("name", 1, ["toolong", "", "2.0", "v1.0"]), ("kind", 2, ["c", "A", ""]), ("amount", 3, ["100.5", "abc", "", "NaN", "1,5"]), ("born", 4, ["31.02.2020", "", "2020-12-31"]), ("code", 5, ["b", "", " ab1"]), ("ab", 7, ["cd", "ef", " ab"])]
            def tables():
                yield [list(good)]
                for _, col, vals in variants:
                    for v in vals:
                        r = list(good); r[col] = v; yield [list(good)[:0] + r, ["18"] + good[1:]]
                yield [list(good), list(good)]                # duplicate id
                yield [good[:3]]                              # too few cells
            def data_check(table):
                outs = {}
                for fmt, kind in (("delimited", "csv"), ("ods", "ods"), ("excel", "xlsx")):
                    cid = interface.Cid(); cid.read("cid", cid_rows(fmt))
                    path = store(table, kind, "data")
                    got = []
                    try:
                        for x in validio.rows(cid, path, on_error="yield"):
                            got.append(("E", x.location.cell if x.location else None) if isinstance(x, errors.DataError) else ("R", x))
                    except errors.DataError as e: got.append(("STOP", type(e).__name__))
                    outs[fmt] = got
                if not (outs["delimited"] == outs["ods"] == outs["excel"]): return {"expected": "same verdicts: %r" % (outs["delimited"],), "observed": {k: v for k, v in outs.items() if v != outs["delimited"]}}
                return None
            res.append(sweep("C17/storage/the same table stored as delimited text, ODS and Excel gets the same verdicts", tables(), data_check, "bounded",
                             "tables of 1-2 rows: an accepted row with one cell replaced by each of 22 rejected / empty / number-like text variants, a duplicate key, a short row x CIDs differing only in Format x storage {csv, ods, xlsx} (text cells)",
                             describe=lambda t: {"table": t}, function="validio.rows over the three readers", unit="C17.storage", props=["C17"]))
            # (3) the Sheet property selects the same sheet for ODS and Excel
            def sheet_check(k):
                import xlsxwriter as xw
                sheets = [[["x", "first"]], [["1", "second"], ["2", "zwei"]], [["3", "third"]]]
                outs = {}
                for fmt in ("ods", "excel"):
                    n[0] += 1; p = os.path.join(tmp, "s%d.%s" % (n[0], "ods" if fmt == "ods" else "xlsx"))
                    if fmt == "ods": write_ods(p, encode_ods(sheets, set()))
                    else:
                        wb = xw.Workbook(p)
                        for sh in sheets:
                            ws = wb.add_worksheet()
                            for y, r in enumerate(sh):
                                for x, v in enumerate(r): ws.write_string(y, x, v)
                        wb.close()
                    cid = interface.Cid(); cid.read("cid", [["d", "format", fmt], ["d", "sheet", str(k)], ["f", "id", "", "", "", "Integer"], ["f", "name"]])
                    outs[fmt] = [("E",) if isinstance(x, errors.DataError) else x for x in validio.rows(cid, p, on_error="yield")]
                want = [("E",)] if k == 1 else [r for r in sheets[k - 1]]
                if outs["ods"] != want or outs["excel"] != want: return {"expected": "both formats read sheet %d: %r" % (k, want), "observed": outs}
                return None
            res.append(sweep("C17/storage/the Sheet property selects the same sheet under ods and excel", [1, 2, 3], sheet_check, "bounded", "a 3-sheet document stored as ODS and xlsx x Sheet 1..3",
                             describe=lambda k: {"sheet": k}, function="validio.rows over ods_rows / excel_rows", unit="C17.storage", props=["C17"]))
            # K-5: the documented Excel special case
            def k5():
                outs = {}
                for fmt, kind in (("delimited", "csv"), ("excel", "xlsx")):
                    cid = interface.Cid(); cid.read("cid", [["d", "format", fmt], ["f", "born", "", "", "", "DateTime", "YYYY-MM-DD"]])
                    try: list(validio.rows(cid, store([["2020-02-29 00:00:00"]], kind, "k5"))); outs[fmt] = "accepted"
                    except errors.DataError: outs[fmt] = "rejected"
                return outs
            o = k5()
            if o["delimited"] != o["excel"]:
                res.append(Result("C17/K-5 witness: a date-only DateTime field accepts a text cell ending in ' 00:00:00' only under Format excel", "bounded", FAILED, "native", finding="K-5", cases=1, props=["C17"], detail=repr(o),
                                  replay={"verdict": "confirmed", "input": "cell '2020-02-29 00:00:00', DateTime rule YYYY-MM-DD, formats delimited vs excel", "expected": "same verdict", "observed": repr(o)}))
            return res
        finally:
            shutil.rmtree(tmp, ignore_errors=True)
    return NativeUnit("C17.storage", "bounded sweep over the 3 x 3 storage combinations of CID and data", ["C17"], run, kind="bounded", timeout=1200)
