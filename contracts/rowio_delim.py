"""rowio: _as_delimited_keywords, delimited_rows, DelimitedRowWriter (C12, C06, C14, C10) and the audit of axiom A-CSV."""
import csv, io, itertools, z3
from .common import *
from .data import QUOTES, new_format
from vf.unit import ProofUnit, NativeUnit, Oracle, sweep
from vf.model import *
from vf import findings

ROWT = Abs("Row")


def delimited_format(ex, st, valid=True):
    """a DataFormat object for 'delimited' whose properties hold arbitrary values of their documented sets"""
    obj = new_format(ex, st, "delimited"); o = st.heap[obj.oid]
    item = fresh(STR, "item_delimiter")[0]; quote = fresh(STR, "quote_character")[0]; esc = fresh(STR, "escape_character")[0]
    st.pc.append(z3.Length(item.z) == 1); st.pc.append(z3.Or(*[quote.z == c for c in QUOTES])); st.pc.append(z3.Or(esc.z == '"', esc.z == "\\"))
    quoting = fresh(INT, "quoting")[0]; st.pc.append(z3.Or(quoting.z == csv.QUOTE_ALL, quoting.z == csv.QUOTE_MINIMAL))
    o.update({"_item_delimiter": item, "_quote_character": quote, "_escape_character": esc, "_quoting": quoting, "_skip_initial_space": fresh(BOOL, "skip")[0],
              "_is_valid": valid, "_encoding": fresh(STR, "encoding")[0]})
    st.ghost.update(item=item, quote=quote, esc=esc, quoting=quoting, skip=o["_skip_initial_space"], fmt=obj)
    return obj


def keywords_ok(ex, st, kw):
    """the dialect cutplace asks csv for, transcribed from the statement: the format's characters, doublequote iff escape == quote, strict"""
    if not isinstance(kw, dict) or set(kw) != {"delimiter", "doublequote", "escapechar", "quotechar", "quoting", "skipinitialspace", "strict"}:
        return z3.BoolVal(False)
    item, quote, esc = G(st, "item"), G(st, "quote"), G(st, "esc")
    same = esc == quote
    dq = kw["doublequote"]; ec = kw["escapechar"]
    conj = [lift(kw["delimiter"]).z == item, lift(kw["quotechar"]).z == quote, lift(kw["quoting"]).z == G(st, "quoting"), lift(kw["skipinitialspace"]).z == G(st, "skip"), z3.BoolVal(kw["strict"] is True)]
    # doublequote: a bool (a constant on a forked path, or the comparison itself); escapechar: None or a text (a constant None on a forked path, or an optional text)
    if isinstance(dq, bool): conj.append(same if dq else z3.Not(same))
    elif isinstance(dq, Sym) and dq.ty == BOOL: conj.append(dq.z == same)
    else: conj.append(z3.BoolVal(False))
    if ec is None: conj.append(same)
    elif isinstance(ec, Sym) and ec.ty == STR: conj += [z3.Not(same), ec.z == esc]
    elif isinstance(ec, Sym) and ec.ty.kind == "opt" and ec.ty.args[0] == STR:
        so = sort_of(ec.ty); conj.append(z3.If(same, so.is_none(ec.z), z3.And(z3.Not(so.is_none(ec.z)), so.val(ec.z) == esc)))
    else: conj.append(z3.BoolVal(False))
    return z3.And(*conj)


def unit_as_delimited_keywords():
    def setup(ex, st):
        obj = delimited_format(ex, st); st.frames[-1].env["delimited_data_format"] = obj
    def make(ctx):
        return {"contract": Contract("rowio._as_delimited_keywords", setup,
                    returns=[Clause(lambda ex, st: Sym(BOOL, keywords_ok(ex, st, st.ghost["__result__"])), "keywords-are-the-format's-dialect", props=["C12", "C14"])],
                    raises={}, expect=["return"], n_loops=0, modifies=[]),
                "options": {}}
    return ProofUnit("rowio._as_delimited_keywords", "_as_delimited_keywords: delimiter/quote/quoting are the format's; doublequote iff escape == quote, else escapechar; strict", ["C12", "C14"], make, None)


# ---------------------------------------------------------------- delimited_rows
def m_csv_reader(ex, st, fn, args, kw):
    """A-CSV (reader side): an iterator over rows that may raise csv.Error or UnicodeDecodeError at any row; line_num counts physical lines"""
    ex.obligations.append(Obligation("reader-is-built-with-the-format's-dialect", st.pc, keywords_ok(ex, st, kw), "post", props=["C12"]))
    ex.obligations.append(Obligation("reader-reads-the-given-stream", st.pc, z3.BoolVal(args[0] == st.ghost["stream"]), "post", props=["C12", "C06"]))
    rd = Ref("CsvReader"); st.heap[rd.oid] = {"line_num": fresh(INT, "line_num")[0]}
    st.pc.append(lift(st.heap[rd.oid]["line_num"]).z >= 0)
    def raise_fault(ex_, s):
        # csv.Error for malformed csv; decoding faults are UnicodeDecodeError, or the plain UnicodeError of the utf-16 / utf-32 decoders (missing BOM)
        for cls in ("Error", "UnicodeDecodeError", "UnicodeError"):
            s2 = s.copy(); s2.ghost["fault"] = True
            yield s2, Raise(ex_.new_builtin_exc(s2, cls, ["malformed"]))
    st.ghost["reader_iter"] = FallibleIter(st.ghost["rows"], st.ghost["fail_at"], raise_fault)
    yield st, rd


def iter_csv_reader(ex, st, ref): return st.ghost["reader_iter"]


def m_open(ex, st, fn, args, kw):
    ex.obligations.append(Obligation("file-opened-without-newline-translation-in-the-format's-encoding", st.pc,
                                     z3.And(z3.BoolVal(kw.get("newline") == ""), lift(kw.get("encoding", "")).z == lift(st.heap[st.ghost["fmt"].oid]["_encoding"]).z), "post", props=["C12", "C06"]))
    sb = st.copy(); yield sb, Raise(ex.new_builtin_exc(sb, "OSError", ["cannot open"]))
    st.ghost["opened"] = True
    yield st, st.ghost["stream"]


def m_stream_close(ex, st, recv, args, kw):
    st.heap[recv.oid]["closed"] = True; yield st, None


def delimited_rows_contract(from_path):
    def setup(ex, st):
        obj = delimited_format(ex, st)
        rows, c = fresh(UFList(ROWT), "rows"); st.pc.extend(c)
        stream = Ref("Stream"); st.heap[stream.oid] = {"closed": False}
        path = fresh(STR, "path")[0]; st.pc.append(z3.Length(path.z) > 0)
        st.frames[-1].env.update({"delimited_source": path if from_path else stream, "data_format": obj})
        st.ghost.update(rows=rows, stream=stream, fail_at=fresh(INT, "fail_at")[0], fault=False, opened=False, out=Sym(SeqList(ROWT), z3.Empty(sort_of(SeqList(ROWT)))))
        def hook(s, v): s.ghost["out"] = Sym(SeqList(ROWT), z3.Concat(lift(s.ghost["out"]).z, z3.Unit(lift(v).z)))
        ex.yield_hook = hook
    def prefix(ex, st, k):
        """out == rows[0:k]"""
        out = lift(st.ghost["out"]).z; rows = st.ghost["rows"]; kk = lift(k).z; j = z3.Int("j!p")
        return Sym(BOOL, z3.And(z3.Length(out) == kk, z3.ForAll([j], z3.Implies(z3.And(0 <= j, j < kk), out[j] == rows.at(j)))))
    def closed_ok(ex, st): return Sym(BOOL, z3.BoolVal((not st.ghost["opened"]) or st.heap[st.ghost["stream"].oid]["closed"] is True))
    def caller_stream_left_open(ex, st): return Sym(BOOL, z3.BoolVal(from_path or st.heap[st.ghost["stream"].oid]["closed"] is False))
    c = Contract("rowio.delimited_rows", setup,
        returns=[Clause("prefix(len(rows))", "yields-exactly-the-rows-csv-delivers-in-order", props=["C12", "C06", "C04"]),
                 Clause("not fault", "normal-end-only-without-container-fault", props=["C06"]),
                 Clause(closed_ok, "file-opened-here-is-closed", props=["C06"]), Clause(caller_stream_left_open, "caller's-stream-is-not-closed", props=["C06"])],
        raises={"DataFormatError": [Clause("fault and prefix(fail_at)", "data-format-error-only-for-a-csv-or-decoding-fault-after-the-rows-before-it", props=["C06", "C10"]),
                                    Clause(closed_ok, "file-opened-here-is-closed", props=["C06"])]} | ({"OSError": []} if from_path else {}),
        loops={0: LoopSpec(invariants=["prefix(_i0)", "not fault"], havoc={"row": ROWT}, ghost_havoc={"out": SeqList(ROWT)})},
        expect=["return", "DataFormatError"], n_loops=1, raises_only_props=["C06", "C10"])
    c._sf = {"prefix": prefix}
    return c


def unit_delimited_rows():
    def make(ctx):
        out = []
        for fp in (False, True):
            c = delimited_rows_contract(fp)
            out.append({"contract": c, "spec_functions": c._sf, "label": "from a path" if fp else "from a stream",
                        "callees": {"_compat.csv_reader": ModelContract(m_csv_reader), "builtin:io.open": m_open, "ref:Stream.close": m_stream_close, "iter:CsvReader": iter_csv_reader},
                        "assumptions": ["A-CSV (reader): csv.reader is an iterator over rows that raises only csv.Error / UnicodeDecodeError (audited by fault injection)",
                                        "io.open raises only OSError; the stream it returns is the file's characters (newline='' checked as an obligation)"]})
        return out
    return ProofUnit("rowio.delimited_rows", "delimited_rows: dialect from _as_delimited_keywords, rows passed through, csv/decoding faults become DataFormatError, file closed", ["C12", "C06", "C10", "C04"], make, None)


# ---------------------------------------------------------------- A-CSV audit: the round trip itself (bounded)
ITEM_DELIMS = [",", ";", "\t", "|", " ", ":", "'", '"', "\\", "!", "~", "a", "#", "$"]     # 14 values, incl. quote / escape candidates


def accepted_formats(ctx):
    from cutplace import data, errors
    for it in ITEM_DELIMS:
        for q in QUOTES:
            for e in ('"', "\\"):
                for quoting in ("minimal", "all"):
                    for ld in ("any", "lf", "cr", "crlf"):
                        f = data.DataFormat("delimited")
                        try:
                            f.set_property("item delimiter", repr(it) if it not in "'\\" else '"%s"' % (it if it != "\\" else "\\\\"))
                            f.set_property("quote character", q); f.set_property("escape character", e); f.set_property("quoting", quoting); f.set_property("line delimiter", ld)
                            f.validate()
                        except errors.InterfaceError:
                            continue
                        if f.item_delimiter != it: raise AssertionError("spelling of item delimiter %r gave %r" % (it, f.item_delimiter))
                        yield f


def tables_for(f, ctx, k):
    alpha = sorted(set(["x", " ", "\n", "\r", "\x00", f.item_delimiter, f.quote_character, f.escape_character]))
    cells = [""] + alpha + [a + b for a in alpha for b in alpha]
    # single-row tables of 1-2 columns over all cells up to length 2 (rotating selection per configuration keeps the quick tier bounded)
    step = 1 if ctx.thorough else 7
    for i, c in enumerate(cells):
        if c != "": yield [[c]]                    # a single empty cell is a blank line for csv (documented csv behaviour): excluded from the axiom
        if (i + k) % step == 0:
            for d in cells[(i + k) % 3::3]: yield [[c, d]]
    yield [["x", ""], ["", "y"], [f.quote_character, f.item_delimiter]]
    if ctx.thorough:
        import random
        rng = random.Random(ctx.seed + k)
        for _ in range(20):
            yield [[rng.choice(cells) for _ in range(rng.randint(2, 4))] for _ in range(rng.randint(1, 5))]


def unit_audit_csv():
    def run(ctx):
        from cutplace import rowio
        def cases():
            for k, f in enumerate(accepted_formats(ctx)):
                for t in tables_for(f, ctx, k):
                    yield (f, t)
        nfmt = [0]
        def check(c):
            f, table = c
            out = io.StringIO()
            try:
                w = rowio.DelimitedRowWriter(out, f)
                for r in table: w.write_row(r)
                back = list(rowio.delimited_rows(io.StringIO(out.getvalue()), f))
            except Exception as e:
                return {"expected": table, "observed": "%s: %s (written text %r)" % (type(e).__name__, e, out.getvalue())}
            return None if back == table else {"expected": table, "observed": "%r (written text %r)" % (back, out.getvalue())}
        def desc(c):
            f, t = c
            return {"item_delimiter": f.item_delimiter, "quote_character": f.quote_character, "escape_character": f.escape_character, "quoting": f.quoting, "line_delimiter": f.line_delimiter, "table": t,
                    "call": "DelimitedRowWriter(StringIO, format).write_row(...) then delimited_rows(StringIO(text), format)"}
        # the same with "skip initial space" switched on (recorded finding K-9: a cell with a leading blank loses it - the csv writer
        # does not quote it, the reader skips it; every other table has to round-trip)
        known = findings.is_known("K-9", "C12"); k9 = []
        def skip_cases():
            from cutplace import data
            for k, f0 in enumerate(accepted_formats(ctx)):
                if f0.line_delimiter != "any" or f0.escape_character != '"' or f0.item_delimiter == " ": continue
                f = data.DataFormat("delimited")
                f.set_property("item delimiter", repr(f0.item_delimiter) if f0.item_delimiter not in "'\\" else '"%s"' % (f0.item_delimiter if f0.item_delimiter != "\\" else "\\\\"))
                f.set_property("quote character", f0.quote_character); f.set_property("quoting", "minimal" if f0.quoting == csv.QUOTE_MINIMAL else "all"); f.set_property("skip initial space", "True"); f.validate()
                for t in tables_for(f, ctx, k): yield (f, t)
        def skip_check(c):
            bad = check(c)
            if bad and known and c[0].quoting == csv.QUOTE_MINIMAL and any(cell.startswith(" ") for r in c[1] for cell in r):
                k9.append((c, bad)); return None
            return bad
        extra = [sweep("A-CSV/round-trip with skip initial space", skip_cases(), skip_check, "audit", "the accepted formats with line delimiter any and the default escape character, skip initial space on; same tables" + (" (cells with a leading blank under minimal quoting: recorded finding K-9)" if known else ""),
                       describe=desc, function="csv.reader/csv.writer via rowio", unit="C12.audit.A-CSV", props=["C12", "C14"])]
        if k9:
            c, bad = k9[0]
            extra.append(Result("A-CSV/K-9 witness: with skip initial space a cell with a leading blank does not round-trip", "audit", FAILED, "native", finding="K-9", cases=len(k9), props=["C12", "C14"], detail=str(bad)[:300],
                                replay={"verdict": "confirmed", "input": desc(c), "expected": bad.get("expected"), "observed": bad.get("observed")}))
        # cells at and beyond the csv module's field size limit (recorded finding K-13)
        known13 = findings.is_known("K-13", "C12"); k13 = []
        def long_cases():
            from cutplace import data
            f = data.DataFormat("delimited"); f.validate()
            for n_ in (131072, 131073, 300000): yield (f, [["x" * n_, "b", "c"]])
        def long_check(c):
            bad = check(c)
            if bad and known13 and len(c[1][0][0]) > 131072 and "field larger than field limit" in str(bad.get("observed")): k13.append((len(c[1][0][0]), bad)); return None
            return bad
        extra.append(sweep("A-CSV/round-trip of very long cells", long_cases(), long_check, "audit", "one cell of 131072, 131073 and 300000 characters" + (" (beyond 131072: recorded finding K-13)" if known13 else ""),
                           describe=lambda c: {"cell_length": len(c[1][0][0])}, function="csv.reader/csv.writer via rowio", unit="C12.audit.A-CSV", props=["C12", "C14"]))
        if k13:
            extra.append(Result("A-CSV/K-13 witness: a cell longer than 131072 characters is written but cannot be read back", "audit", FAILED, "native", finding="K-13", cases=len(k13), props=["C12", "C14"], detail=str(k13[0][1])[:300],
                                replay={"verdict": "confirmed", "input": {"cell_length": k13[0][0]}, "expected": "the identical table", "observed": str(k13[0][1].get("observed"))[:200]}))
        return extra + [sweep("A-CSV/round-trip over all accepted delimited formats", cases(), check, "audit",
                      "every format accepted by the CID loader from 14 item delimiters x 20 quote characters x 2 escape characters x 2 quoting modes x 4 line delimiters; tables: all single cells up to length 2 over {x, blank, CR, LF, delimiter, quote, escape}, a rotating selection of 2-column rows, one 3x2 table (thorough: all pairs + random 5x4 tables)",
                      describe=desc, function="csv.reader/csv.writer via rowio", unit="C12.audit.A-CSV", props=["C12", "C14"])]
    return NativeUnit("C12.audit.A-CSV", "audit of axiom A-CSV: writing then reading any table of strings under every accepted delimited format is the identity", ["C12", "C14"], run, kind="audit", timeout=1800)
